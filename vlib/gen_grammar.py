"""Structured generator for Grammar.doc (coq/model/Grammar.v): produces the abstract document,
its text (rendered here; the model re-renders it with Grammar.render and compares) and its
flat encoding for the runner."""
from .core import hexs

NAME_FIRST = "ABCXYZabz019_.+/!$%&*@~^(["
NAME_REST = "ABab09-_.+/!$%&'()*,;<=>?@[]^`{|}~\"\\#"
LINE_ATOMS = ["a", "b", "foo", "1.0", " ", "  ", "\t", ":", "#", "-", ",", "(>= 1)", "é", "中", "\U0001f600", "\x01", "=", ".", "\x0b", " ", " "]

def name(rng, pool=None):
    if pool and rng.random() < 0.7:
        return rng.choice(pool)
    n = rng.choice([0, 0, 1, 2, 5, 12])
    return rng.choice(NAME_FIRST) + "".join(rng.choice(NAME_REST) for _ in range(n))

def line(rng, empty_ok=False):
    n = rng.choice([0] if empty_ok and rng.random() < 0.3 else [1, 1, 2, 3, 6])
    return "".join(rng.choice(LINE_ATOMS) for _ in range(n))

def ws(rng, empty_ok=True):
    return rng.choice((["", ""] if empty_ok else []) + [" ", " ", " ", "  ", "\t", " \t ", "\t\t"])

def gen_field(rng, pool):
    first = line(rng, True).lstrip(" \t")
    conts = []
    for _ in range(rng.choice([0, 0, 0, 1, 2, 4])):
        t = line(rng).lstrip(" \t")
        if t == "" or t[0] == "#":
            t = rng.choice(["x", ":", ".", "-"]) + t
        conts.append((ws(rng, False), t))
    return {"name": name(rng, pool), "ws": ws(rng), "first": first, "cont": conts, "nl": True}

def gen_struct_doc(rng):
    pool = [name(rng) for _ in range(3)] + ["Source", "Package", "Depends"]
    if rng.random() < 0.4:
        # names that differ only in letter case, or by a suffix
        base = rng.choice(pool)
        pool += [base.swapcase(), base.lower(), base + "-X"]
    blocks = []
    def blanks(n_opts):
        for _ in range(rng.choice(n_opts)):
            if rng.random() < 0.45:
                blocks.append(("C", line(rng, True).replace("\n", ""), True))
            else:
                blocks.append(("B",))
    blanks([0, 0, 1, 2])
    npar = rng.choice([0, 1, 1, 2, 3])
    for i in range(npar):
        f = gen_field(rng, pool)
        its = []
        for _ in range(rng.choice([0, 0, 1, 2, 4])):
            if rng.random() < 0.25:
                its.append(("c", line(rng, True), True))
            else:
                its.append(("F", gen_field(rng, pool)))
        blocks.append(("P", f, its))
        if i < npar - 1 or rng.random() < 0.5:
            blocks.append(("B",))
            blanks([0, 0, 1, 2])
    # optionally drop the final newline
    if blocks and rng.random() < 0.25:
        last = blocks[-1]
        if last[0] == "C":
            blocks[-1] = ("C", last[1], False)
        elif last[0] == "P":
            f, its = last[1], last[2]
            if its:
                it = its[-1]
                if it[0] == "c": its[-1] = ("c", it[1], False)
                else: it[1]["nl"] = False
            else:
                f["nl"] = False
    return blocks

def nl(b): return "\n" if b else ""
def field_text(f):
    return f["name"] + ":" + f["ws"] + f["first"] + "".join("\n" + i + t for i, t in f["cont"]) + nl(f["nl"])
def render(blocks):
    out = []
    for b in blocks:
        if b[0] == "B": out.append("\n")
        elif b[0] == "C": out.append("#" + b[1] + nl(b[2]))
        else:
            out.append(field_text(b[1]))
            for it in b[2]:
                out.append("#" + it[1] + nl(it[2]) if it[0] == "c" else field_text(it[1]))
    return "".join(out)

def h(s): return hexs(s) if s else "-"
def enc_field(f):
    return " ".join(["F", h(f["name"]), h(f["ws"]), h(f["first"]), "1" if f["nl"] else "0", str(len(f["cont"]))]
                    + [h(i) + " " + h(t) for i, t in f["cont"]])
def encode(blocks):
    out = []
    for b in blocks:
        if b[0] == "B": out.append("B")
        elif b[0] == "C": out.append(f"C {h(b[1])} {'1' if b[2] else '0'}")
        else:
            out.append("P " + enc_field(b[1]))
            for it in b[2]:
                out.append(f"c {h(it[1])} {'1' if it[2] else '0'}" if it[0] == "c" else enc_field(it[1]))
    return " ".join(out)

def all_names(blocks):
    out = []
    for b in blocks:
        if b[0] == "P":
            out.append(b[1]["name"]); out += [it[1]["name"] for it in b[2] if it[0] == "F"]
    return out

def doc_cases(n, rng, prefix):
    cases = []
    for i in range(n):
        d = gen_struct_doc(rng)
        names = all_names(d)
        probe = rng.choice(names) if names and rng.random() < 0.85 else "Nope"
        if names and rng.random() < 0.3:
            # near misses: other letter case, a prefix, an extension
            probe = rng.choice([probe.swapcase(), probe.lower(), probe.upper(), probe[:-1] or "x", probe + "x", probe + " "])
        cases.append((f"{prefix}{i}", [hexs(render(d)), encode(d) or "-", hexs(probe)]))
    return cases

BAD_FIRST = ["-", ":", "\x01", "é", "\x7f", " ", "="]
def bad_line(rng):
    k = rng.random()
    if k < 0.5:
        return rng.choice(BAD_FIRST[:6]) + line(rng, True).replace("\n", "")
    body = "".join(rng.choice(["a", "b", "1", " ", "-", ".", "#", "é"]) for _ in range(rng.choice([0, 1, 3, 6])))
    return rng.choice("ABxyz09") + body.replace(":", "")

def reject_cases(n, rng, prefix):
    """every single-line corruption (a bad line inserted at every line boundary) of n generated documents"""
    cases = []
    for i in range(n):
        d = gen_struct_doc(rng)
        text = render(d)
        bounds = [0] + [j + 1 for j, c in enumerate(text) if c == "\n"]
        if text and not text.endswith("\n"):
            pass  # a boundary after an unterminated last line does not exist
        for j, pos in enumerate(bounds):
            l = bad_line(rng)
            cases.append((f"{prefix}{i}.{j}", [hexs(text[:pos] + l + "\n" + text[pos:])]))
        # the bad line as the last line, without a line end (the final newline is optional)
        if text == "" or text.endswith("\n"):
            cases.append((f"{prefix}{i}.end", [hexs(text + bad_line(rng))]))
    return cases
