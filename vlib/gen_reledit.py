"""Case generators for C11 (stream rel-edit).  Every random choice comes from the rng handed in.

An abstract history is an initial field plus a list of editing operations addressed by position
(entry i, alternative j).  It is compiled into register-machine programs for the harness/runner:

  p0 "fresh"   every handle is obtained from the current root right before the operation;
  p1 "earlier" handles are obtained once (after the initial field is built, and for nodes created
               later right after their creation) and kept across operations; they are obtained
               again only after an operation that rebuilds the node they live in
               (Relations::insert/push, Entry::push, set_version/set_architectures/add_profile
               adding a part) — see known finding c11-handle-after-rebuild;
  p2 "frozen"  like p1 but never obtained again (correspondence, and the finding's class).
"""
import itertools
from .core import hexs

NAMES = ["a", "b", "c", "libfoo", "x-1", "z9+"]
VERSIONS = ["1", "2.0", "1.0-1", "1~rc1", "0.19.0", "1:2.0", "2:1.0-1"]
QUALS = ["any", "amd64", "native"]
ARCHS = ["amd64", "i386", "linux-any", "arm64", "!hurd-i386", "!armel"]
PROFILES = ["nocheck", "cross", "stage1"]
VCS = ["ge", "le", "eq", "gt", "lt"]
VC_TEXT = {"ge": ">=", "le": "<=", "eq": "=", "gt": ">>", "lt": "<<"}
SUBSTVARS = ["${misc:Depends}", "${shlibs:Depends}", "${a}"]

# ---------------------------------------------------------------- abstract relations
def mk_rel(name, qual=None, ver=None, archs=None, profs=()):
    """ver = (vc, text) | None; archs = list | None; profs = list of groups of (enabled, name)"""
    return {"name": name, "qual": qual, "ver": ver, "archs": archs, "profs": [list(g) for g in profs]}

def gen_rel(rng, rich=0.5):
    r = mk_rel(rng.choice(NAMES))
    if rng.random() < rich * 0.6: r["qual"] = rng.choice(QUALS)
    if rng.random() < rich: r["ver"] = (rng.choice(VCS), rng.choice(VERSIONS))
    if rng.random() < rich * 0.5: r["archs"] = rng.sample(ARCHS, rng.choice([1, 1, 2, 3]))
    if rng.random() < rich * 0.5:
        r["profs"] = [[(rng.random() < 0.6, rng.choice(PROFILES)) for _ in range(rng.choice([1, 1, 2]))]
                      for _ in range(rng.choice([1, 1, 2]))]
    return r

def rel_canon(r):
    """the canonical record of the streams' structure dumps"""
    qual = "-" if r["qual"] is None else hexs(r["qual"])
    ver = "-" if r["ver"] is None else hexs(VC_TEXT[r["ver"][0]]) + "." + hexs(r["ver"][1])
    archs = "-" if r["archs"] is None else ("_" if not r["archs"] else ".".join(hexs(a) for a in r["archs"]))
    groups = ["_" if not g else ".".join(("e" if en else "d") + hexs(n) for en, n in g) for g in r["profs"]]
    profs = "-" if not groups else "+".join(groups)
    return f"{hexs(r['name'])}~{qual}~{ver}~{archs}~{profs}"

def ws(rng, must=False, nl=True):
    opts = ([] if must else ["", "", ""]) + [" ", " ", "  ", "\t"] + (["\n ", " \n"] if nl else [])
    return rng.choice(opts)

def render_rel(r, rng=None, canonical=False):
    """text of a relation; canonical = the layout the constructors produce"""
    def w(must=False):
        if canonical or rng is None: return " " if must else ""
        return ws(rng, must)
    s = r["name"]
    if r["qual"] is not None:
        s += (w() if not canonical else "") + ":" + (w() if not canonical else "") + r["qual"]
    if r["ver"] is not None:
        s += (" " if canonical else w()) + "(" + w() + VC_TEXT[r["ver"][0]] + (" " if canonical else w()) + r["ver"][1] + w() + ")"
    if r["archs"] is not None:
        s += (" " if canonical else w()) + "[" + w() + " ".join(r["archs"]) + w() + "]"
    for g in r["profs"]:
        s += (" " if canonical else w()) + "<" + w() + " ".join(("" if en else "!") + n for en, n in g) + w() + ">"
    return s

def pad(text, rng):
    """operand texts may carry white space around them"""
    if rng is None: return text
    if rng.random() < 0.2: text = ws(rng, must=True) + text
    if rng.random() < 0.3: text = text + ws(rng, must=True)
    return text

# relation operand specs (see harness/src/s_reledit.rs)
def ver_spec(v):
    return "-" if v is None else v[0] + "." + hexs(v[1])
def groups_spec(gs):
    return "-" if not gs else "+".join("_" if not g else ".".join(("e" if en else "d") + hexs(n) for en, n in g) for g in gs)
def group_spec(g):
    return "-" if not g else ".".join(("e" if en else "d") + hexs(n) for en, n in g)
def strs_spec(l):
    return "-" if not l else ".".join(hexs(a) for a in l)

def rel_spec(r, how, rng=None):
    """how: p parse (random layout), c parse (canonical layout), s/n constructors, b builder, l from lossy"""
    if how == "p": return "p~" + hexs(pad(render_rel(r, rng), rng))
    if how == "c": return "p~" + hexs(render_rel(r, canonical=True))
    if how == "s": return "s~" + hexs(r["name"])
    if how == "n": return "n~" + hexs(r["name"]) + "~" + ver_spec(r["ver"])
    if how == "b":
        k = 0 if rng is None else rng.randrange(len(r["profs"]) + 1)
        return "~".join(["b", hexs(r["name"]), ver_spec(r["ver"]), "-" if r["qual"] is None else hexs(r["qual"]),
                         "-" if r["archs"] is None else ("_" if not r["archs"] else strs_spec(r["archs"])),
                         groups_spec(r["profs"][:k]), groups_spec(r["profs"][k:])])
    if how == "l":
        return "~".join(["l", hexs(r["name"]), ver_spec(r["ver"]), "-" if r["qual"] is None else hexs(r["qual"]),
                         "!" if r["archs"] is None else ("_" if not r["archs"] else strs_spec(r["archs"])), groups_spec(r["profs"])])
    raise ValueError(how)

def rel_hows(r):
    """the construction methods able to build r exactly"""
    hows = ["p", "c", "b", "l"]
    if r["qual"] is None and r["archs"] is None and not r["profs"]:
        hows.append("n")
        if r["ver"] is None: hows.append("s")
    return hows

def entry_spec(rels, how, rng=None, rel_how=None):
    """how: P parse, V from vec, E new+push, L from lossy"""
    if how == "P":
        texts = [render_rel(r, rng) for r in rels]
        return "P" + hexs(pad(join_alts(texts, rng), rng) if rng else " | ".join(texts))
    if how == "L":
        return "L" + ",".join(rel_spec(r, "l") for r in rels)
    pick = (lambda r: rel_how) if rel_how else (lambda r: rng.choice(rel_hows(r)) if rng else "c")
    return how + ",".join(rel_spec(r, pick(r), rng) for r in rels)

def join_alts(texts, rng):
    out = texts[0]
    for t in texts[1:]:
        out += ws(rng) + "|" + ws(rng) + t
    return out

def render_field(entries, rng, substvars=False, empties=True):
    """a well-formed field text: entries (lists of relations), free layout, optional empty entries,
    trailing comma and substitution variables.  Returns text."""
    items = [join_alts([render_rel(r, rng) for r in e], rng) for e in entries]
    if substvars:
        for _ in range(rng.choice([1, 1, 2])):
            items.insert(rng.randrange(len(items) + 1), rng.choice(SUBSTVARS))
    if empties and rng.random() < 0.25 and items:
        items.insert(rng.randrange(1, len(items) + 1), "")
    out = ws(rng) if rng.random() < 0.3 else ""
    for i, it in enumerate(items):
        if i: out += ws(rng) + "," + ws(rng)
        out += it
    if items and rng.random() < 0.2: out += ws(rng) + "," + (ws(rng) if rng.random() < 0.5 else "")
    elif rng.random() < 0.2: out += ws(rng, must=True)
    return out

# ---------------------------------------------------------------- abstract operations
# ("push", E) ("insert", i, E) ("replace", i, E) ("remove_entry", i)
# ("epush", i, R) ("ereplace", i, j, R) ("eremove_relation", i, j) ("eremove", i)
# ("rremove", i, j) ("set_version", i, j, ver) ("drop_constraint", i, j) ("set_archqual", i, j, q)
# ("set_archs", i, j, archs) ("add_profile", i, j, group)
# E = (entry-how, [relations], rel-how or None, seed-for-layout); R = (rel-how, relation)
REBUILD_ROOT = ("push", "insert")
LIVE_REG = 42
LIVE_OPS = ("push_live", "insert_live", "replace_live", "epush_live", "ereplace_live")

def op_operand_programs(op, rng_seed):
    """register-machine text for building the operand of op into scratch registers (entry 40 / relation 40)"""
    import random
    rng = random.Random(rng_seed)
    k = op[0]
    if k in ("push", "insert", "replace"):
        how, rels, rel_how, _ = op[-1]
        return f"ne/40/{entry_spec(rels, how, rng, rel_how)}"
    if k in ("epush", "ereplace"):
        how, r = op[-1]
        return f"nr/40/{rel_spec(r, how, rng)}"
    # operands that are LIVE handles of the field itself (the API takes them by value and must
    # copy them: the place they come from stays as it is)
    if k in ("push_live", "insert_live", "replace_live"):
        return f"ge/{LIVE_REG}/{op[-1]}"
    if k in ("epush_live", "ereplace_live"):
        i2, j2 = op[-1]
        return f"ge/{LIVE_REG}/{i2} gr/{LIVE_REG}/{LIVE_REG}/{j2}"
    return None

class ListModel:
    """the list-of-lists model of the property, with node identities for the handle programs"""
    def __init__(self, entries):
        self.n = 0
        self.entries = [self._entry(e) for e in entries]
    def _id(self):
        self.n += 1; return self.n
    def _rel(self, r):
        return {"id": self._id(), "r": {k: (list(v) if isinstance(v, list) else v) for k, v in r.items()}}
    def _entry(self, rels):
        return {"id": self._id(), "rels": [self._rel(r) for r in rels]}
    def canon(self):
        return ";".join(",".join(rel_canon(x["r"]) for x in e["rels"]) for e in self.entries)
    def valid(self, op):
        k = op[0]; n = len(self.entries)
        if k in ("push",): return True
        if k == "insert": return True
        if k in ("replace", "remove_entry", "eremove"): return op[1] < n
        if k == "epush": return op[1] < n
        if k in ("push_live", "insert_live"): return op[-1] < n
        if k == "replace_live": return op[1] < n and op[2] < n
        if k in ("epush_live", "ereplace_live"):
            i2, j2 = op[-1]
            if not (op[1] < n and i2 < n and j2 < len(self.entries[i2]["rels"])): return False
            return k == "epush_live" or op[2] < len(self.entries[op[1]]["rels"])
        if k in ("ereplace", "eremove_relation", "rremove", "set_version", "drop_constraint", "set_archqual", "set_archs", "add_profile"):
            return op[1] < n and op[2] < len(self.entries[op[1]]["rels"])
        raise ValueError(k)
    def apply(self, op):
        """returns 'rebuild-root' | 'rebuild-entry' | 'rebuild-rel' | '' (which handles an operation of the shipped technique invalidates)"""
        k = op[0]
        if k == "push":
            self.entries.append(self._entry(op[1][1])); return "rebuild-root"
        if k == "insert":
            self.entries.insert(min(op[1], len(self.entries)), self._entry(op[2][1])); return "rebuild-root"
        if k == "replace":
            self.entries[op[1]] = self._entry(op[2][1]); return ""
        if k == "push_live":
            self.entries.append(self._entry([x["r"] for x in self.entries[op[1]]["rels"]])); return "rebuild-root"
        if k == "insert_live":
            self.entries.insert(min(op[1], len(self.entries)), self._entry([x["r"] for x in self.entries[op[2]]["rels"]])); return "rebuild-root"
        if k == "replace_live":
            self.entries[op[1]] = self._entry([x["r"] for x in self.entries[op[2]]["rels"]]); return ""
        if k == "epush_live":
            i2, j2 = op[2]
            self.entries[op[1]]["rels"].append(self._rel(self.entries[i2]["rels"][j2]["r"])); return "rebuild-entry"
        if k == "ereplace_live":
            i2, j2 = op[3]
            self.entries[op[1]]["rels"][op[2]] = self._rel(self.entries[i2]["rels"][j2]["r"]); return ""
        if k in ("remove_entry", "eremove"):
            del self.entries[op[1]]; return ""
        e = self.entries[op[1]]
        if k == "epush":
            e["rels"].append(self._rel(op[2][1])); return "rebuild-entry"
        if k == "ereplace":
            e["rels"][op[2]] = self._rel(op[3][1]); return ""
        if k in ("eremove_relation", "rremove"):
            del e["rels"][op[2]]
            if not e["rels"]: del self.entries[op[1]]
            return ""
        r = e["rels"][op[2]]["r"]
        if k == "set_version":
            had = r["ver"] is not None
            r["ver"] = op[3]
            return "" if (had or op[3] is None) else "rebuild-rel"
        if k == "drop_constraint":
            r["ver"] = None; return ""
        if k == "set_archqual":
            r["qual"] = op[3]; return ""
        if k == "set_archs":
            had = r["archs"] is not None
            r["archs"] = list(op[3]); return "" if had else "rebuild-rel"
        if k == "add_profile":
            r["profs"].append(list(op[3])); return "rebuild-rel"
        raise ValueError(k)

E_SCRATCH, R_SCRATCH = 40, 40

def op_text(op, e_reg, r_reg):
    """the mutating instruction, through entry register e_reg / relation register r_reg"""
    k = op[0]
    if k == "push": return f"push/{E_SCRATCH}"
    if k == "insert": return f"ins/{op[1]}/{E_SCRATCH}"
    if k == "replace": return f"rep/{op[1]}/{E_SCRATCH}"
    if k == "remove_entry": return f"rme/{op[1]}"
    if k == "epush": return f"epush/{e_reg}/{R_SCRATCH}"
    if k == "push_live": return f"push/{LIVE_REG}"
    if k == "insert_live": return f"ins/{op[1]}/{LIVE_REG}"
    if k == "replace_live": return f"rep/{op[1]}/{LIVE_REG}"
    if k == "epush_live": return f"epush/{e_reg}/{LIVE_REG}"
    if k == "ereplace_live": return f"erep/{e_reg}/{op[2]}/{LIVE_REG}"
    if k == "ereplace": return f"erep/{e_reg}/{op[2]}/{R_SCRATCH}"
    if k == "eremove_relation": return f"ermr/{e_reg}/{op[2]}"
    if k == "eremove": return f"erm/{e_reg}"
    if k == "rremove": return f"rrm/{r_reg}"
    if k == "set_version": return f"sv/{r_reg}/{ver_spec(op[3])}"
    if k == "drop_constraint": return f"dc/{r_reg}"
    if k == "set_archqual": return f"sq/{r_reg}/{hexs(op[3])}"
    if k == "set_archs": return f"sa/{r_reg}/{strs_spec(op[3])}"
    if k == "add_profile": return f"ap/{r_reg}/{group_spec(op[3])}"
    raise ValueError(k)

ENTRY_LEVEL = ("epush", "ereplace", "eremove_relation", "eremove", "epush_live", "ereplace_live")
REL_LEVEL = ("rremove", "set_version", "drop_constraint", "set_archqual", "set_archs", "add_profile")

def compile_programs(init_entries, ops, seed, frozen=False, with_marks=False):
    """-> ([p0, p1(, p2)], expectations[, marks]); expectations[n] = canonical structure after
    operation n, or None when it is outside the list model's domain (index out of range: the API
    unwraps); marks[k][m] = n when instruction m of program k is the mutating instruction of
    operation n (None for the instructions that obtain handles or build operands)"""
    def build(mode):
        m = ListModel(init_entries)
        regs = {}           # node id -> register
        nxt = [0, 0]
        def ereg(i):
            if i not in regs: regs[i] = nxt[0]; nxt[0] += 1
            return regs[i]
        def rreg(i):
            if i not in regs: regs[i] = nxt[1]; nxt[1] += 1
            return regs[i]
        prog = []; marks = []
        def emit(t, mark=None):
            prog.append(t); marks.append(mark)
        def obtain_all(only_new=False):
            for i, e in enumerate(m.entries):
                new_e = e["id"] not in regs
                if not only_new or new_e:
                    emit(f"ge/{ereg(e['id'])}/{i}")
                for j, r in enumerate(e["rels"]):
                    if not only_new or r["id"] not in regs or new_e:
                        emit(f"gr/{rreg(r['id'])}/{ereg(e['id'])}/{j}")
        exps = []
        if mode != "fresh":
            obtain_all()
        for n, op in enumerate(ops):
            operand = op_operand_programs(op, seed * 1000 + n)
            if operand:
                for ins in operand.split(" "): emit(ins)
            if not m.valid(op):
                # outside the list model: issue it through whatever is there (fresh handles)
                k = op[0]
                if k in ENTRY_LEVEL + REL_LEVEL:
                    emit(f"ge/41/{op[1]}")
                    if k in REL_LEVEL: emit(f"gr/41/41/{op[2]}")
                emit(op_text(op, 41, 41), n)
                exps.append(None)
                continue
            k = op[0]
            e_reg = r_reg = None
            if k in ENTRY_LEVEL + REL_LEVEL:
                e = m.entries[op[1]]
                if mode == "fresh":
                    emit(f"ge/0/{op[1]}"); e_reg = 0
                    if k in REL_LEVEL:
                        emit(f"gr/0/0/{op[2]}"); r_reg = 0
                else:
                    e_reg = ereg(e["id"])
                    if k in REL_LEVEL: r_reg = rreg(e["rels"][op[2]]["id"])
            emit(op_text(op, e_reg, r_reg), n)
            eff = m.apply(op)
            exps.append(m.canon())
            if mode == "earlier":
                obtain_all(only_new=(eff == ""))
            elif mode == "frozen":
                obtain_all(only_new=True)
        return " ".join(prog), exps, marks
    p0, exps, m0 = build("fresh")
    p1, _, m1 = build("earlier")
    out = [p0, p1]; marks = [m0, m1]
    if frozen:
        p2, _, m2 = build("frozen")
        out.append(p2); marks.append(m2)
    return (out, exps, marks) if with_marks else (out, exps)

def encode_meta(entries, ops, seed):
    """the abstract history, for the oracle (the harness and the runner skip this field)"""
    return hexs(repr({"entries": entries, "ops": ops, "seed": seed}))
def decode_meta(field):
    import ast
    from .core import unhex
    if field == "-": return None
    return ast.literal_eval(unhex(field))

# ---------------------------------------------------------------- initial fields
def init_spec(kind, entries, rng, substvars=False):
    """kind: N | T (parse_relaxed, allow substvars) | S (from_str) | C (constructors)"""
    if kind == "N": return "N"
    if kind in ("T", "S"):
        return kind + hexs(render_field(entries, rng, substvars=(substvars and kind == "T")))
    if kind == "C":
        specs = []
        for e in entries:
            how = rng.choice(["V", "V", "V", "E", "L", "P"])
            specs.append(entry_spec(e, how, rng))
        return "C" + ";".join(specs)
    raise ValueError(kind)

def gen_entries(rng, nmax=3, rich=0.4):
    return [[gen_rel(rng, rich) for _ in range(rng.choice([1, 1, 1, 2, 3]))] for _ in range(rng.randrange(nmax + 1))]

def gen_entry_operand(rng, rich=0.4):
    rels = [gen_rel(rng, rich) for _ in range(rng.choice([1, 1, 2]))]
    how = rng.choice(["P", "P", "V", "V", "E", "L"])
    return (how, rels, None, 0)

def gen_rel_operand(rng, rich=0.4):
    r = gen_rel(rng, rich)
    return (rng.choice(rel_hows(r)), r)

def gen_op(rng, m, out_of_range=0.03):
    """one operation, mostly within the current model's index ranges"""
    n = len(m.entries)
    def ei():
        if n == 0 or rng.random() < out_of_range: return rng.randrange(n + 2)
        return rng.randrange(n)
    def ej():
        i = ei()
        k = len(m.entries[i]["rels"]) if i < n else 0
        j = rng.randrange(k + 1) if (k == 0 or rng.random() < out_of_range) else rng.randrange(k)
        return i, j
    kinds = ["push", "insert", "replace", "remove_entry", "epush", "ereplace", "eremove_relation", "eremove",
             "rremove", "set_version", "set_version", "drop_constraint", "set_archqual", "set_archs", "add_profile"]
    if n == 0: kinds = ["push", "push", "insert"] + kinds[:1]
    k = rng.choice(kinds)
    if k == "push": return ("push", gen_entry_operand(rng))
    if k == "insert": return ("insert", rng.randrange(n + 2), gen_entry_operand(rng))
    if k == "replace": return ("replace", ei(), gen_entry_operand(rng))
    if k in ("remove_entry", "eremove"): return (k, ei())
    if k == "epush": return ("epush", ei(), gen_rel_operand(rng))
    i, j = ej()
    if k == "ereplace": return ("ereplace", i, j, gen_rel_operand(rng))
    if k in ("eremove_relation", "rremove", "drop_constraint"): return (k, i, j)
    if k == "set_version":
        return ("set_version", i, j, None if rng.random() < 0.25 else (rng.choice(VCS), rng.choice(VERSIONS)))
    if k == "set_archqual": return ("set_archqual", i, j, rng.choice(QUALS))
    if k == "set_archs": return ("set_archs", i, j, rng.sample(ARCHS, rng.choice([1, 2])))
    return ("add_profile", i, j, [(rng.random() < 0.6, rng.choice(PROFILES)) for _ in range(rng.choice([1, 1, 2]))])

def history_case(rng, cid, kind=None, nops=None, frozen=False):
    kind = kind or rng.choice(["N", "T", "T", "S", "S", "C", "C"])
    entries = [] if kind == "N" else gen_entries(rng)
    sub = kind == "T" and rng.random() < 0.4
    init = init_spec(kind, entries, rng, substvars=sub)
    m = ListModel(entries)
    ops = []
    for _ in range(nops if nops is not None else rng.choice([1, 2, 3, 4, 6, 10])):
        op = gen_op(rng, m)
        ops.append(op)
        if m.valid(op): m.apply(op)
    seed = rng.randrange(1 << 30)
    progs, exps = compile_programs(entries, ops, seed, frozen=frozen)
    return (cid, ["1", init, encode_meta(entries, ops, seed)] + progs), {"entries": entries, "ops": ops, "exps": exps}

def gen_live_op(rng, m):
    """an operation whose operand is a live handle of the field (entry i2 / relation (i2, j2))"""
    n = len(m.entries)
    if n == 0: return ("push", gen_entry_operand(rng))
    i2 = rng.randrange(n); j2 = rng.randrange(len(m.entries[i2]["rels"]))
    k = rng.choice(LIVE_OPS)
    if k == "push_live": return (k, i2)
    if k == "insert_live": return (k, rng.randrange(n + 2), i2)
    if k == "replace_live": return (k, rng.randrange(n), i2)
    i = rng.randrange(n)
    if k == "epush_live": return (k, i, (i2, j2))
    return (k, i, rng.randrange(len(m.entries[i]["rels"])), (i2, j2))

def live_operand_case(rng, cid, frozen=False):
    kind = rng.choice(["T", "T", "S", "C"])
    entries = gen_entries(rng) or [[gen_rel(rng, 0.4)]]
    init = init_spec(kind, entries, rng, substvars=(kind == "T" and rng.random() < 0.3))
    m = ListModel(entries)
    ops = []
    for _ in range(rng.choice([1, 1, 2, 3, 5])):
        op = gen_live_op(rng, m) if rng.random() < 0.6 else gen_op(rng, m, out_of_range=0.0)
        ops.append(op)
        if m.valid(op): m.apply(op)
    seed = rng.randrange(1 << 30)
    progs, exps = compile_programs(entries, ops, seed, frozen=frozen)
    return (cid, ["1", init, encode_meta(entries, ops, seed)] + progs), {"entries": entries, "ops": ops, "exps": exps}

def live_operand_cases(n, rng, prefix):
    out = []
    for i in range(n):
        case, meta = live_operand_case(rng, f"{prefix}{i}", frozen=(i % 5 == 0))
        EXPECT[case[0]] = meta
        out.append(case)
    return out

# the expectations of generated cases, by case id (the oracle needs the abstract history)
EXPECT = {}

def history_cases(n, rng, prefix, frozen_every=5):
    out = []
    for i in range(n):
        case, meta = history_case(rng, f"{prefix}{i}", frozen=(i % frozen_every == 0))
        EXPECT[case[0]] = meta
        out.append(case)
    return out

# ---------------------------------------------------------------- exhaustive-small
def small_op_alphabet(n_entries=2, n_rels=2):
    A = mk_rel("p"); B = mk_rel("q", ver=("ge", "1"))
    ents = [("V", [A], "s", 0), ("P", [B], None, 0)]
    rels = [("s", A), ("c", B)]
    ops = []
    for E in ents:
        ops.append(("push", E))
        for i in range(n_entries + 1): ops.append(("insert", i, E))
        for i in range(n_entries): ops.append(("replace", i, E))
    for i in range(n_entries):
        ops.append(("remove_entry", i)); ops.append(("eremove", i))
        for R in rels: ops.append(("epush", i, R))
        for j in range(n_rels):
            for R in rels: ops.append(("ereplace", i, j, R))
            ops.append(("eremove_relation", i, j)); ops.append(("rremove", i, j))
            ops.append(("set_version", i, j, ("lt", "2"))); ops.append(("set_version", i, j, None))
            ops.append(("drop_constraint", i, j)); ops.append(("set_archqual", i, j, "any"))
            ops.append(("set_archs", i, j, ["amd64"])); ops.append(("add_profile", i, j, [(False, "nocheck")]))
    return ops

SMALL_SEEDS = [
    ("N", []),
    ("S", "a"), ("S", "a, b"), ("S", "a | b, c"), ("S", "a (>= 1) | b:any [amd64] <!x>, c"),
    ("S", "a,b"), ("S", " a ,\n b | c "), ("S", "a, "), ("T", "${misc:Depends}, a"), ("T", "a, ${x}, b | c"),
    ("C", [["a"]]), ("C", [["a", "b"], ["c"]]), ("S", "a, , b"), ("S", "a |b ,c"),
]

def parse_seed_entries(text):
    """entries of a simple seed text (names, optional parts) — only for the fixed seeds above"""
    import re
    out = []
    for item in text.split(","):
        item = item.strip()
        if not item or item.startswith("${"): continue
        rels = []
        for alt in item.split("|"):
            alt = alt.strip()
            m = re.match(r"^([a-z0-9+.-]+)(?::(\w+))?(?:\s*\((>=|<=|=|>>|<<)\s*([^)]+)\))?(?:\s*\[([^\]]*)\])?(?:\s*<([^>]*)>)?$", alt)
            vcrev = {v: k for k, v in VC_TEXT.items()}
            rels.append(mk_rel(m.group(1), m.group(2), (vcrev[m.group(3)], m.group(4)) if m.group(3) else None,
                               m.group(5).split() if m.group(5) is not None else None,
                               [[(not p.startswith("!"), p.lstrip("!")) for p in m.group(6).split()]] if m.group(6) is not None else []))
        out.append(rels)
    return out

def small_cases(depth, seeds=None, prefix="x"):
    out = []
    n = 0
    for kind, seed in (seeds or SMALL_SEEDS):
        if kind == "C":
            entries = [[mk_rel(x) for x in e] for e in seed]
            init = "C" + ";".join(entry_spec(e, "V", None, "s") for e in entries)
        elif kind == "N":
            entries = []; init = "N"
        else:
            entries = parse_seed_entries(seed); init = kind + hexs(seed)
        alphabet = small_op_alphabet()
        for d in range(1, depth + 1):
            for ops in itertools.product(alphabet, repeat=d):
                m = ListModel(entries); ok = True
                for op in ops:
                    if not m.valid(op): ok = False; break
                    m.apply(op)
                if not ok: continue          # out-of-range indices are covered by the random stream
                progs, exps = compile_programs(entries, list(ops), n)
                cid = f"{prefix}{n}"; n += 1
                EXPECT[cid] = {"entries": entries, "ops": list(ops), "exps": exps}
                out.append((cid, ["1", init, encode_meta(entries, list(ops), n)] + progs))
    return out

# ---------------------------------------------------------------- malformed / arbitrary stream
REL_ALPHABET = ["a", "1", ":", "|", ",", "(", ")", "[", "]", "!", "<", ">", "=", "$", "{", "}", " ", "\n", "@", "é"]
def gen_any_text(rng, n=None):
    n = rng.choice([0, 1, 2, 3, 5, 8, 12]) if n is None else n
    return "".join(rng.choice(REL_ALPHABET) for _ in range(n))

def mutate(s, rng):
    if not s: return gen_any_text(rng, 2)
    i = rng.randrange(len(s))
    r = rng.random()
    if r < 0.4: return s[:i] + s[i+1:]
    if r < 0.8: return s[:i] + rng.choice(REL_ALPHABET) + s[i:]
    return s[:i] + rng.choice(REL_ALPHABET) + s[i+1:]

def any_cases(n, rng, prefix):
    """arbitrary initial texts, operand texts and register programs: correspondence only"""
    return [_any_case(rng, f"{prefix}{i}")[:2] for i in range(n)]

def _any_case(rng, cid):
    texts = []
    if True:
        if rng.random() < 0.5:
            text = mutate(render_field(gen_entries(rng), rng, substvars=rng.random() < 0.3), rng)
        else:
            text = gen_any_text(rng)
        texts.append(text)
        init = "T" + hexs(text)
        prog = []
        for _ in range(rng.choice([1, 2, 3, 5, 8])):
            r = rng.random()
            e, l = rng.randrange(3), rng.randrange(3)
            if r < 0.15: prog.append(f"ge/{e}/{rng.randrange(3)}")
            elif r < 0.3: prog.append(f"gr/{l}/{e}/{rng.randrange(3)}")
            elif r < 0.4:
                t = mutate(render_rel(gen_rel(rng), rng), rng) if rng.random() < 0.6 else gen_any_text(rng)
                texts.append(t)
                prog.append(f"nr/{l}/p~{hexs(t)}")
            elif r < 0.5:
                t = mutate(join_alts([render_rel(gen_rel(rng), rng) for _ in range(rng.choice([1, 2]))], rng), rng) if rng.random() < 0.6 else gen_any_text(rng)
                texts.append(t)
                prog.append(f"ne/{e}/P{hexs(t)}")
            else:
                k = rng.choice(["push", "ins", "rep", "rme", "epush", "erep", "ermr", "erm", "rrm", "sv", "dc", "sq", "sa", "ap"])
                j = rng.randrange(3)
                prog.append({"push": f"push/{e}", "ins": f"ins/{j}/{e}", "rep": f"rep/{j}/{e}", "rme": f"rme/{j}",
                             "epush": f"epush/{e}/{l}", "erep": f"erep/{e}/{j}/{l}", "ermr": f"ermr/{e}/{j}", "erm": f"erm/{e}",
                             "rrm": f"rrm/{l}", "sv": f"sv/{l}/" + rng.choice(["-", "ge." + hexs("1"), "lt." + hexs("2.0")]),
                             "dc": f"dc/{l}", "sq": f"sq/{l}/{hexs('any')}", "sa": f"sa/{l}/{hexs('amd64')}",
                             "ap": f"ap/{l}/e{hexs('x')}"}[k])
        return (cid, ["0", init, "-", " ".join(prog)], texts)

# ---------------------------------------------------------------- corpus: the repo's tests and the known defects
def corpus_cases(prefix="k"):
    h = hexs
    rows = [
        # (dump, init, program) — DESIGN §5 rows 14-17c, 19 and the defects found by this cone
        ("S" + h("a"), "ne/0/P" + h("b") + " ins/0/0"),
        ("C", "ne/0/Vs~" + h("a") + ",s~" + h("b") + " push/0 ge/0/0 ermr/0/0"),
        ("N", "nr/0/s~" + h("a") + " sa/0/" + h("amd64") + " sa/0/" + h("i386")),
        ("N", "nr/0/s~" + h("a") + " ap/0/e" + h("x") + " ap/0/e" + h("y")),
        ("S" + h("a, b"), "ge/0/0 gr/0/0/0 sa/0/" + h("amd64")),
        ("N", "nr/0/p~" + h("a <x>") + " ap/0/e" + h("y")),
        ("S" + h("a, b"), "ge/0/0 nr/0/s~" + h("c") + " epush/0/0"),
        ("S" + h("a, "), "ne/0/P" + h("z") + " push/0"),
        ("S" + h("a,"), "ne/0/P" + h("z") + " push/0"),
        ("N", "nr/0/b~" + h("a") + "~-~-~-~-~- ne/0/E push/0"),
        ("N", "nr/0/b~" + h("a") + "~-~-~-~e" + h("x") + "+e" + h("y") + "~-"),
        ("S" + h("a:any"), "ge/0/0 gr/0/0/0 sv/0/ge." + h("1.0")),
        ("S" + h("a, b"), "ge/0/0 gr/0/0/0 rrm/0"),
        ("T" + h("${x}"), "ne/0/P" + h("b") + " push/0"),
        ("S" + h("a | b"), "ge/0/0 nr/0/p~" + h("c ") + " erep/0/0/0"),
        # the repo's own tests
        ("S" + h("python3-dulwich (>= 0.20.21), python3-dulwich (<< 0.21)"), "rme/0"),
        ("S" + h("python3-dulwich (>= 0.20.21), python3-dulwich (<< 0.21)"), "rme/1"),
        ("S" + h("python3-dulwich (>= 0.20.21), python3-dulwich (<< 0.21), python3-dulwich (<< 0.22)"), "rme/1"),
        ("S" + h("python3-dulwich (>= 0.20.21), python3-dulwich (<< 0.21)"), "ne/0/P" + h("python3-dulwich (<< 0.22)") + " push/0 rme/2"),
        ("N", "ne/0/P" + h("python3-dulwich") + " push/0"),
        ("S" + h("python3-dulwich (>= 0.20.21), python3-dulwich (<< 0.21)"), "ne/0/P" + h("python3-dulwich (<< 0.22)") + " ins/1/0"),
        ("T" + h("python3-dulwich (>= 0.20.21), foo (>= 1.0) [amd64] if blah, python3-dulwich (<< 0.21)"), "ne/0/P" + h("bar") + " ins/1/0"),
        ("S" + h("python3-dulwich (>= 0.20.21), python3-dulwich (<< 0.21)"), "ne/0/P" + h("python3-dulwich (<< 0.22)") + " rep/1/0"),
        ("S" + h("python3-dulwich (>= 0.20.21) | python3-dulwich (<< 0.18)"), "ge/0/0 gr/0/0/0 rrm/0"),
        ("S" + h("python3-dulwich (>= 0.20.21) | python3-dulwich (<< 0.18)"), "ge/0/0 gr/0/0/1 rrm/0"),
        ("S" + h("python3-dulwich (>= 0.20.21)"), "ge/0/0 gr/0/0/0 rrm/0"),
        ("S" + h("samba"), "ge/0/0 gr/0/0/0 sv/0/- sv/0/ge." + h("2.0") + " sv/0/- sv/0/ge." + h("2.0") + " sv/0/ge." + h("1.1")),
        ("S" + h("python3-dulwich (>= 0.20.21) | python3-dulwich (<< 0.18)"), "ge/0/0 nr/0/s~" + h("python3-breezy") + " erep/0/0/0"),
        ("S" + h("python3-dulwich (>= 0.20.21)"), "ge/0/0 nr/0/s~" + h("python3-breezy") + " epush/0/0"),
        ("T" + h("foo, , bar, "), "rme/1"),
        ("S" + h("python3-dulwich | samba"), "ge/0/0 ermr/0/0"),
        ("S" + h("python3-dulwich | samba"), "ge/0/0 gr/0/0/0 sq/0/" + h("amd64") + " sq/0/" + h("i386")),
        ("N", "nr/0/s~" + h("samba") + " sa/0/" + h("amd64") + "." + h("i386")),
        ("N", "nr/0/b~" + h("samba") + "~ge." + h("2.0") + "~" + h("any") + "~" + h("amd64") + "." + h("i386") + "~-~-"),
    ]
    return [(f"{prefix}{i}", ["1", init, "-", prog]) for i, (init, prog) in enumerate(rows)]
