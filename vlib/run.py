"""Generic check flow shared by all properties."""
import json, os, random, re, sys, time
from . import core
from .core import log

class Prop:
    id = None
    coq_targets = []          # .vo targets whose build is this property's proof obligation
    props_file = None         # coq/props/Cxx.v
    design_ref = ""
    trusted = []
    assumptions = []
    allowed_axioms = []       # names allowed in Print Assumptions output
    case_ms = 4000
    def streams(self, tier, rng):
        """yield (stream, [(id, [fields])])"""
        return []
    def oracle(self, stream, fields, impl):
        """property predicate on the implementation's record; None if fine, else message"""
        return None
    def nontrivial(self, stream, fields, impl):
        return True
    def known_class(self, stream, fields, impl, model, why):
        """name of the known-finding class this failure falls in, or None"""
        return None
    def neighbours(self, stream, fields):
        """inputs near a failing/diverging one, for the failing-input search"""
        return []
    def shrink_field(self, stream):
        """index of the string field to shrink, or None"""
        return 0
    def same(self, stream, model, impl):
        """do the model's and the implementation's records agree?"""
        return model == impl

def check_proof(prop):
    """PROOF_OK: cone builds, assumptions closed, nothing forbidden."""
    info = {"obligations": 0, "discharged": 0, "axioms": [], "log_tail": "", "forbidden": []}
    bad = core.grep_forbidden()
    info["forbidden"] = bad
    src = ""
    for f in [prop.props_file] + list(getattr(prop, "extra_props_files", [])):
        pf = os.path.join(core.COQ, f)
        src += (core.strip_coq_comments(open(pf).read()) + "\n") if os.path.exists(pf) else ""
    thms = re.findall(r"^\s*(?:Theorem|Lemma|Corollary)\s+([A-Za-z0-9_']+)", src, re.M)
    pins = re.findall(r"^\s*Check\s+([A-Za-z0-9_']+)\s*:", src, re.M)
    pa = re.findall(r"^\s*Print Assumptions\s+([A-Za-z0-9_']+)", src, re.M)
    info["theorems"] = thms
    info["obligations"] = len(thms)
    missing = [t for t in thms if t not in pins or t not in pa]
    # force re-check of the props file so that Print Assumptions output is in the log
    for t in prop.coq_targets:
        if t.startswith("props/"):
            for ext in (".vo", ".glob", ".vok", ".vos"):
                try: os.remove(os.path.join(core.COQ, t[:-3] + ext))
                except OSError: pass
    ok, out = core.build_coq(prop.coq_targets)
    info["log_tail"] = out[-3000:]
    closed = len(re.findall(r"Closed under the global context", out))
    axioms = []
    for m in re.finditer(r"^Axioms:\n((?:.+\n)+?)(?=\S|\Z)", out, re.M):
        for l in m.group(1).split("\n"):
            mm = re.match(r"^(\S+)\s*:", l)
            if mm: axioms.append(mm.group(1))
    info["axioms"] = sorted(set(axioms))
    bad_ax = [a for a in info["axioms"] if a not in prop.allowed_axioms]
    n_open = len(re.findall(r"^Axioms:", out, re.M))
    proof_ok = ok and not bad and not missing and not bad_ax and (closed + n_open) >= len(pa) and len(thms) > 0
    info["discharged"] = len(thms) if proof_ok else 0
    info["why"] = ("" if proof_ok else
                   ("make failed; " if not ok else "") + ("forbidden: %s; " % bad if bad else "") +
                   ("unpinned: %s; " % missing if missing else "") + ("axioms: %s" % bad_ax if bad_ax else ""))
    if not ok:
        m = re.search(r'File "([^"]+)", line (\d+).*?\n(Error:(?:.|\n)*?)(?:\n\n|make)', out)
        if m:
            info["failed_at"] = f"{m.group(1)}:{m.group(2)}: {m.group(3)[:400]}"
    return proof_ok, info

def eval_cases(prop, stream, cases):
    res = core.run_stream(prop.id, stream, cases, case_ms=prop.case_ms)
    fails = []   # (id, fields, kind, why, model, impl)
    nontriv = set()
    fmap = dict(cases)
    for cid, (m, im) in res.items():
        fields = fmap[cid]
        if im == "SKIPPED":
            continue    # the harness stopped evaluating this shard after several hangs/aborts (reported on their own cases)
        if im == "MISSING" or m == "MISSING":
            # a side produced no record at all for this case: never "equal", whatever the property's same() says
            fails.append((cid, fields, "correspondence", "no record from the " + ("implementation" if im == "MISSING" else "model"), m, im))
            continue
        why = prop.oracle(stream, fields, im)
        if not why and m != im and stream in getattr(prop, "spec_streams", ()):
            # the model side of this stream is the specification (a theorem's right-hand side)
            why = "implementation differs from the specified result for this input"
        if why:
            fails.append((cid, fields, "oracle", why, m, im))
        elif not prop.same(stream, m, im):
            fails.append((cid, fields, "correspondence", "model and implementation differ", m, im))
        if prop.nontrivial(stream, fields, im):
            nontriv.add((stream,) + tuple(fields))
    return res, fails, nontriv

def shrink(prop, stream, fields, kind):
    """greedy delta-debugging of one hex string field, keeping the same failure kind"""
    idx = prop.shrink_field(stream)
    if idx is None:
        return fields
    try:
        cur = core.unhex(fields[idx])
    except Exception:
        return fields
    def still_fails(cands):
        cases = [(f"s{i}", fields[:idx] + [core.hexs(c)] + fields[idx+1:]) for i, c in enumerate(cands)]
        res = core.run_stream(prop.id + "-shrink", stream, cases, case_ms=prop.case_ms)
        for i, c in enumerate(cands):
            m, im = res[f"s{i}"]
            if kind == "oracle":
                if prop.oracle(stream, cases[i][1], im): return c
            else:
                if not prop.same(stream, m, im) and not prop.oracle(stream, cases[i][1], im): return c
        return None
    for _ in range(40):
        if len(cur) <= 1: break
        cands = []
        n = len(cur)
        step = max(1, n // 2)
        while step >= 1:
            for i in range(0, n, step):
                cands.append(cur[:i] + cur[i+step:])
            if step == 1: break
            step //= 2
        cands = [c for c in dict.fromkeys(cands) if len(c) < len(cur)]
        cands.sort(key=len)
        got = still_fails(cands[:400])
        if got is None: break
        cur = got
    return fields[:idx] + [core.hexs(cur)] + fields[idx+1:]

def write_replay(prop, tier, n, obj):
    d = os.path.join(core.VERIF, ".build", "replays", prop.id)
    os.makedirs(d, exist_ok=True)
    p = os.path.join(d, f"{tier}-{n}.json")
    with open(p, "w") as f:
        json.dump(obj, f, indent=1, ensure_ascii=False)
    return p

def readable(fields):
    out = []
    for f in fields:
        try: out.append(core.unhex(f))
        except Exception: out.append(f)
    return out

def run_check(prop, tier):
    t0 = time.time()
    seed = int(os.environ.get("VERIF_SEED", "1"))
    rng = random.Random(seed * 1000003 + hash(prop.id) % 1000 if False else seed)
    known = [k for k in core.load_known() if k.get("property") == prop.id and k.get("kind") == "finding"]
    known_classes = {k["class"]: k for k in known}
    violations = []      # dicts
    known_hits = {}
    # 1. tie to source: translators, proof cone
    tr_ok, tr_log = core.run_translators()
    proof_ok, pinfo = check_proof(prop) if tr_ok else (False, {"obligations": 0, "discharged": 0, "why": "translator failed: " + tr_log[-1500:], "axioms": [], "theorems": []})
    if proof_ok and tier == "thorough":
        # independent re-check of the compiled cone, and the axioms it relies on
        mod = "V." + prop.props_file[:-2].replace("/", ".")
        import subprocess as _sp
        try:
            with core.Lock("coq"):
                rc, out = core.sh(["coqchk", "-o", "-silent", "-Q", core.COQ, "V", mod], cwd=core.COQ, timeout=3 * 3600)
        except _sp.TimeoutExpired:
            # the independent re-check did not finish: not a failure of the proof (coqc accepted the cone)
            rc, out = None, ""
        m = re.search(r"\* Axioms:\s*(.*?)\n\s*\n", out, re.S)
        ax = (m.group(1).strip() if m else "?")
        pinfo["coqchk"] = {"rc": rc, "axioms": ax} if rc is not None else "did not finish within 3 h (not counted as a failure)"
        allowed = ax == "<none>" or all(a.strip().split()[0] in prop.allowed_axioms for a in ax.splitlines() if a.strip())
        if rc is not None and (rc != 0 or not allowed):
            proof_ok = False; pinfo["discharged"] = 0
            pinfo["why"] = f"coqchk rc={rc} axioms={ax[:200]}"; pinfo["failed_at"] = "coqchk: " + out[-600:]
    log(f"[{prop.id}] proof cone: ok={proof_ok} obligations={pinfo.get('obligations')} {pinfo.get('why','')} {pinfo.get('coqchk','')}")
    # 2. executable model + implementation
    rok, rlog = core.build_runner()
    hok, hlog = core.build_harness()
    if not rok:
        log(rlog[-3000:])
    if not hok:
        log(hlog[-3000:])
    total = 0; nontriv_all = set(); samples = []; per_stream = {}; diffs = 0; compared = 0
    all_fails = []
    if rok and hok:
        search_tier = tier if proof_ok else "thorough" if tier == "thorough" else "search"
        for stream, cases in prop.streams(search_tier, rng):
            if not cases: continue
            res, fails, nontriv = eval_cases(prop, stream, cases)
            total += len(cases); nontriv_all |= nontriv
            # cases on which BOTH the extracted model and the implementation produced a record that was compared
            compared += sum(1 for (m_, im_) in res.values() if im_ not in ("SKIPPED", "MISSING") and m_ != "MISSING")
            per_stream[stream] = per_stream.get(stream, 0) + len(cases)
            for c in cases[:2] + cases[len(cases)//2:len(cases)//2+1]:
                if len(samples) < 12:
                    samples.append({"stream": stream, "input": [x[:160] for x in readable(c[1])], "impl": res[c[0]][1][:200]})
            all_fails += [(stream,) + f for f in fails]
    # 2b. a case killed by the supervisor's time budget may be an artefact of machine load: such failures are
    #     re-run alone with five times the budget, and only what still fails is kept
    sus = [f for f in all_fails if "HANG" in f[6] and "HANG" not in f[5]]
    if sus:
        sus.sort(key=lambda f: sum(len(x) for x in f[2]))
        keep = []; confirmed_any = False
        # the four shortest and the two longest (a super-linear hang shows on the longest inputs)
        probe = sus[:4] + [f for f in sus[-2:] if f not in sus[:4]]
        for (stream, cid, fields, kind, why, m, im) in probe:
            r2 = core.run_stream(prop.id + "-confirm", stream, [("c", fields)], case_ms=prop.case_ms * 5)
            m2, im2 = r2["c"]
            why2 = prop.oracle(stream, fields, im2)
            if why2:
                keep.append((stream, cid, fields, "oracle", why2, m2, im2)); confirmed_any = True
            elif not prop.same(stream, m2, im2):
                keep.append((stream, cid, fields, "correspondence", "model and implementation differ", m2, im2)); confirmed_any = True
        if confirmed_any:
            keep += [f for f in sus if f not in probe]
        log(f"[{prop.id}] {len(sus)} case(s) hit the time budget; re-run alone with 5x budget: {len(keep)} still fail")
        susids = {(f[0], f[1]) for f in sus}
        all_fails = [f for f in all_fails if (f[0], f[1]) not in susids] + keep
    # 3. classify failures
    fresh = []
    for (stream, cid, fields, kind, why, m, im) in all_fails:
        cls = prop.known_class(stream, fields, im, m, why)
        if cls and cls in known_classes:
            known_hits.setdefault(cls, (stream, fields, why))
        else:
            fresh.append((stream, cid, fields, kind, why, m, im))
    # 4. report
    nrep = 0
    lines = []
    if fresh:
        # oracle failures first, shortest input first
        fresh.sort(key=lambda f: (f[3] != "oracle", sum(len(x) for x in f[2])))
        stream, cid, fields, kind, why, m, im = fresh[0]
        try:
            sfields = shrink(prop, stream, fields, kind)
        except Exception as e:
            log("shrink failed:", e); sfields = fields
        res = core.run_stream(prop.id + "-shrink", stream, [("r", sfields)], case_ms=prop.case_ms)
        m2, im2 = res["r"]
        why2 = prop.oracle(stream, sfields, im2)
        found = None
        if kind == "oracle" or why2:
            found = (sfields, why2 or why, m2, im2)
        else:
            # correspondence difference: search the neighbourhood for a property failure
            neigh = [(f"n{i}", nf) for i, nf in enumerate(prop.neighbours(stream, sfields))]
            if neigh:
                nres = core.run_stream(prop.id + "-shrink", stream, neigh, case_ms=prop.case_ms)
                for nid, nf in neigh:
                    w = prop.oracle(stream, nf, nres[nid][1])
                    if w and not (prop.known_class(stream, nf, nres[nid][1], nres[nid][0], w) in known_classes):
                        found = (nf, w, nres[nid][0], nres[nid][1]); break
        if found:
            rp = write_replay(prop, tier, nrep, {"property": prop.id, "kind": "failing-input", "stream": stream,
                 "fields": found[0], "readable": readable(found[0]), "why": found[1], "model": found[2], "impl": found[3],
                 "others": len(fresh) - 1})
            lines.append(f"VIOLATION property={prop.id} replay={rp}")
        else:
            rp = write_replay(prop, tier, nrep, {"property": prop.id, "kind": "correspondence", "stream": stream,
                 "fields": sfields, "readable": readable(sfields), "why": "model and implementation differ on this input; the property oracle holds on it and on its neighbourhood",
                 "broken": f"correspondence stream {stream}", "model": m2, "impl": im2, "others": len(fresh) - 1})
            lines.append(f"VIOLATION property={prop.id} replay={rp} no-failing-input-found")
        violations.append(rp)
    elif not (rok and hok):
        rp = write_replay(prop, tier, nrep, {"property": prop.id, "kind": "build", "broken": "runner build" if not rok else "harness build against /repo",
             "log": (rlog if not rok else hlog)[-4000:]})
        lines.append(f"VIOLATION property={prop.id} replay={rp} no-failing-input-found")
        violations.append(rp)
    elif not proof_ok:
        rp = write_replay(prop, tier, nrep, {"property": prop.id, "kind": "proof", "broken": pinfo.get("failed_at") or pinfo.get("why"),
             "theorems": pinfo.get("theorems"), "log": pinfo.get("log_tail", "")[-4000:],
             "searched": total})
        lines.append(f"VIOLATION property={prop.id} replay={rp} no-failing-input-found")
        violations.append(rp)
    for cls, (stream, fields, why) in sorted(known_hits.items()):
        eg = [x if len(x) <= 60 else x[:40] + f"...({len(x)} chars)" for x in readable(fields)]
        print(f"KNOWN-FINDING: property={prop.id} {known_classes[cls].get('what', cls)} [class {cls}; e.g. {eg!r}]")
    for l in lines:
        print(l)
    cov = {
        "obligations": max(1, pinfo.get("obligations", 0)), "discharged": pinfo.get("discharged", 0),
        "checker_cmd": "make -C /verif/coq " + " ".join(prop.coq_targets) + "  (coqc 8.16.1, full .vo; Print Assumptions under every theorem; forbidden-word grep)",
        "trusted_base": prop.trusted,
        "theorems": pinfo.get("theorems", []), "axioms_reported": pinfo.get("axioms", []),
        "evaluations": max(1, total), "distinct_nontrivial": len(nontriv_all),
        "traces_validated_against_impl": compared,
        "rule": getattr(prop, "rule", ""), "samples": samples or [{"note": "no cases run"}],
        "per_stream": per_stream, "known_finding_classes_hit": sorted(known_hits),
        "proof_ok": proof_ok, "exhaustive": False, "coqchk": pinfo.get("coqchk", "not run in this tier (thorough only)"),
    }
    extra = getattr(prop, "extra_coverage", None)
    if extra: cov.update(extra)
    core.write_evidence(prop.id, "thorough" if tier == "thorough" else "quick", seed, cov, time.time() - t0, len(violations), prop.assumptions)
    log(f"[{prop.id}] {tier}: cases={total} nontrivial={len(nontriv_all)} fresh_failures={len(fresh)} known_classes={sorted(known_hits)} wall={time.time()-t0:.1f}s")
    return 1 if violations else 0

def run_replay(prop, path):
    obj = json.load(open(path))
    if obj.get("kind") in ("proof", "build"):
        tr_ok, _ = core.run_translators()
        ok, info = check_proof(prop)
        print(json.dumps({"proof_ok": ok, "why": info.get("why"), "failed_at": info.get("failed_at")}, indent=1))
        return 0 if ok else 1
    rok, rlog = core.build_runner(); hok, hlog = core.build_harness()
    if not (rok and hok):
        print((rlog if not rok else hlog)[-3000:]); return 1
    res = core.run_stream(prop.id + "-replay", obj["stream"], [("r", obj["fields"])], case_ms=prop.case_ms)
    m, im = res["r"]
    why = prop.oracle(obj["stream"], obj["fields"], im)
    print("input :", readable(obj["fields"]))
    print("model :", m)
    print("impl  :", im)
    print("oracle:", why or "holds")
    print("corr  :", "agree" if prop.same(obj["stream"], m, im) else "DIFFER")
    return 1 if (why or not prop.same(obj["stream"], m, im)) else 0
