"""Generators for lossy deb822 values (C08)."""
from .core import hexs
from .gen_grammar import name

ATOMS = ["a", "b", "foo", "1.0", " ", "  ", "\t", ":", "#", "-", ",", "é", "中", "\x01", "=", ".", "(>= 1)"]
def cline(rng, first=False):
    n = rng.choice([1, 1, 2, 3, 6])
    s = "".join(rng.choice(ATOMS) for _ in range(n)).lstrip(" \t")
    if s == "" or (not first and s[0] == "#"):
        s = rng.choice(["x", ":", "-", "."]) + s
    return s

def cvalue(rng):
    k = rng.random()
    if k < 0.12: return ""
    lines = [cline(rng, True) if rng.random() > 0.1 else ""]
    for _ in range(rng.choice([0, 0, 0, 1, 2, 4])):
        lines.append(cline(rng))
    if lines == [""]: return ""
    return "\n".join(lines)

def noncanon_value(rng):
    return rng.choice(["a\n#b", "a\n b", "a\n\nb", "a\n", "\n", "a\rb", " a", "a\r\nb", "\n\nb"])

def ldoc(rng, canon=True):
    pool = [name(rng) for _ in range(3)] + ["Source", "Package"]
    d = []
    for _ in range(rng.choice([1, 1, 2, 3])):
        p = []
        for _ in range(rng.choice([1, 1, 2, 3, 5])):
            v = cvalue(rng) if canon or rng.random() < 0.6 else noncanon_value(rng)
            p.append((name(rng, pool), v))
        d.append(p)
    if not canon and rng.random() < 0.2:
        d.insert(rng.randrange(len(d) + 1), [])
    return d

def enc(d):
    return ";".join(",".join(hexs(k) + "=" + hexs(v) for k, v in p) for p in d) if d else "-"

def ops(rng, d, n):
    names = [k for p in d[:1] for k, _ in p] + ["Zz"]
    out = []
    for _ in range(n):
        o = rng.choice("gsir")
        k = rng.choice(names)
        if o in "gr": out.append(f"{o}:{hexs(k)}")
        else: out.append(f"{o}:{hexs(k)}:{hexs(cvalue(rng))}")
    return " ".join(out) if out else "-"

def rt_cases(n, rng, prefix, canon=True):
    cases = []
    for i in range(n):
        d = ldoc(rng, canon)
        cases.append((f"{prefix}{i}", [enc(d), ops(rng, d, rng.choice([0, 1, 3, 6, 12]))]))
    return cases


def edge_cases(n, rng, prefix):
    """values the English of C08 admits but the canonical domain excludes (recorded finding classes):
       a continuation line starting with '#', a CR inside a line, an empty paragraph in a document"""
    cases = []
    for i in range(n):
        d = ldoc(rng, True)
        kind = i % 3
        if kind == 0:
            p = rng.choice(d); j = rng.randrange(len(p)); k, v = p[j]
            p[j] = (k, (v if v else "a") + "\n#" + cline(rng))
        elif kind == 1:
            p = rng.choice(d); j = rng.randrange(len(p)); k, v = p[j]
            p[j] = (k, (v.split("\n")[0] or "a") + "\r" + cline(rng, True))
        else:
            d.insert(rng.randrange(len(d) + 1), [])
        cases.append((f"{prefix}{i}", [enc(d), "-"]))
    return cases
