import re
from ..run import Prop
from .. import gen_derive, core
from ..core import rec_fields, unhex, hexs

RUST_WS = set(map(chr, list(range(9, 14)) + [32, 0x85, 0xA0, 0x1680] + list(range(0x2000, 0x200B)) + [0x2028, 0x2029, 0x202F, 0x205F, 0x3000]))

def split_ws(s):
    out, cur = [], ""
    for c in s:
        if c in RUST_WS:
            if cur: out.append(cur); cur = ""
        else:
            cur += c
    if cur: out.append(cur)
    return out

def rust_lines(s):
    """str::lines(): split at '\\n'; a line terminated by '\\n' also loses one '\\r' before it; no final empty line"""
    if s == "": return []
    parts = s.split("\n")
    last = parts.pop()
    out = [p[:-1] if p.endswith("\r") else p for p in parts]
    if last != "": out.append(last)
    return out

def parse_uint(s, bits):
    t = s[1:] if s.startswith("+") and len(s) > 1 else s
    if not t or not all(c in "0123456789" for c in t): return None
    n = int(t)
    return n if n < 2 ** bits else None

def parse_int(s, bits):
    neg = False; t = s
    if len(s) > 1 and s[0] in "+-":
        neg = s[0] == "-"; t = s[1:]
    if not t or not all(c in "0123456789" for c in t): return None
    n = -int(t) if neg else int(t)
    return n if -2 ** (bits - 1) <= n < 2 ** (bits - 1) else None

RT_PAIRS = {("SStr", "DStr"), ("SBool", "DBool"), ("SYesNo", "DYesNo"), ("SJaNee", "DJa"), ("SJoinWs", "DSplitWs"),
            ("SJoinNl", "DSplitWs"), ("SJoinNl", "DSplitNl"), ("SJoinNl", "DSplitNlE"), ("SJoinNl", "DLines")}

def convert(ser, de, s, table):
    """the field's deserialiser then serialiser on text s, written independently of the Coq model:
    -> ('err',) | ('ok', printed text, representable?)   representable = the value is one the codec pair
    is meant to round-trip (outside it, e.g. a lines() list ending in an empty string, nothing is claimed)"""
    if de.startswith("DExt"):
        i = int(de.split()[1])
        if (i, s) not in table: return ("unknown",)
        c = table[(i, s)]
        if c is None: return ("err",)
        return ("ok", c if ser == f"SExt {i}" else None, True)
    val = None; rep = True
    if de == "DStr": val = s
    elif de == "DBool":
        if s not in ("true", "false"): return ("err",)
        val = s == "true"
    elif de == "DYesNo":
        if s not in ("yes", "no"): return ("err",)
        val = s == "yes"
    elif de == "DJa": val = s == "ja"
    elif de.startswith("DNum"):
        val = parse_uint(s, int(de.split()[1]))
        if val is None: return ("err",)
    elif de.startswith("DInt"):
        val = parse_int(s, int(de.split()[1]))
        if val is None: return ("err",)
    elif de == "DSplitWs": val = split_ws(s)
    elif de == "DSplitNl": val = s.split("\n")
    elif de == "DSplitNlE": val = s.split("\n") if s != "" else []
    elif de == "DLines":
        val = rust_lines(s)
        rep = all("\r" not in l for l in val) and (not val or val[-1] != "")
    else:
        return ("unknown",)
    if ser == "SStr" and isinstance(val, str): out = val
    elif ser == "SBool" and isinstance(val, bool): out = "true" if val else "false"
    elif ser == "SYesNo" and isinstance(val, bool): out = "yes" if val else "no"
    elif ser == "SJaNee" and isinstance(val, bool): out = "ja" if val else "nee"
    elif ser in ("SNum", "SInt") and isinstance(val, int) and not isinstance(val, bool): out = str(val)
    elif ser == "SJoinWs" and isinstance(val, list): out = " ".join(val)
    elif ser == "SJoinNl" and isinstance(val, list): out = "\n".join(val)
    else: out = None
    return ("ok", out, rep)

def dec_items(enc):
    if enc in ("", "-"): return []
    out = []
    for it in enc.split(","):
        k, v = it.split("=")
        out.append((unhex(k), unhex(v)))
    return out

def first(items, k):
    for a, b in items:
        if a == k: return b
    return None

def blocks(text):
    """the pieces of a paragraph text: ('#', text) comment lines, (name, text) field blocks with their continuation lines"""
    out = []
    for line in re.findall(r"[^\n]*\n|[^\n]+$", text):
        if line.startswith("#"):
            out.append(["#", line])
        elif line[:1] in (" ", "\t") and out and out[-1][0] != "#":
            out[-1][1] += line
        elif line[:1] in (" ", "\t") or ":" not in line:
            out.append(["?", line])
        else:
            out.append([line.split(":", 1)[0], line])
    return [tuple(b) for b in out]

class C16(Prop):
    id = "C16"
    coq_targets = ["props/C16.vo"]
    props_file = "props/C16.v"
    design_ref = "DESIGN.md §4 C16"
    level_text = ("Coq theorems about the expansion of #[derive(FromDeb822, ToDeb822)], modelled generically as folds over a field-spec list "
                  "(key, the macro's syntactic Option test, serialiser id, deserialiser id) and over ANY paragraph back-end whose observer "
                  "`items` maps get/set/remove/collect onto the list operations of the lossy paragraph: for every struct with distinct keys and "
                  "every representable value (no bound on sizes) from_paragraph(to_paragraph v) = Ok v; the paragraph lists exactly the present "
                  "fields in declaration order under their keys with the configured serialisers; update_paragraph reads back as v, removes absent "
                  "optionals, leaves every foreign field (value, order, and on a layout-level back-end its text and all comments) unchanged; an "
                  "error is `missing field: K` / `parsing field K: …` for the FIRST field in declaration order that cannot be read, and only then; "
                  "both back-ends give the same result because everything factors through `items` (laws proved for the lossy list and for the "
                  "tree model of lossless::Paragraph::{get,set,remove,from_iter}). The struct tables are regenerated from the Rust sources on every "
                  "run and `ok_struct` (distinct keys, every serialiser/deserialiser pair a proven or assumed inverse pair, nothing unrecognised) is "
                  "closed by vm_compute for every generated struct. C16_shipped_closed is the headline: for the 17 generated structs the twelve "
                  "codecs that are workspace code (Priority, MultiArch, YesNoForce, License, Signature, Forwarded, AppliedUpstream, DEP-3 Origin, "
                  "ParsedVcs, lossy Relations, buildinfo Environment, sources Types) are instantiated with their Coq models (C18/C14 models, "
                  "Environment/Types transcribed in DeriveExt.v) and their inverse law is PROVED on the owning cones' validity predicates; the "
                  "premises that remain are exactly version_rt_law (debversion::Version) and other_rt_law (url::Url, Vec<Url>, chrono::NaiveDate).")
    level_note = ("Model: deb822-derive/src/lib.rs (expansion; hand transcription whose source text — the 12 quote! templates, is_option, the "
                  "dispatch lines — is pinned by translate/structs.py: C16_macro_pinned), src/convert.rs, Paragraph::{get,set,remove,FromIterator} of "
                  "src/lossy.rs and src/lossless.rs, the serialize_with/deserialize_with functions of the shipped structs. Known class "
                  "empty_list_split_newline (pending patch): the empty list of a join(\"\\n\")/split('\\n') field.")
    rule = ("derive: for each of the deriving structs (12 shipped + 5 test structs of src/convert.rs + 2 fixture structs of spec/derive_fixtures.rs whose field options are split over several #[deb822(...)] attributes, all derived with the real macro): every presence pattern of its first 4 "
            "optional fields, plus random values (strings incl. multi-line/Unicode/odd white space, booleans, integers at the type bounds, "
            "lists, pool values of each external codec incl. non-canonical spellings) built through from_paragraph, x prior paragraphs "
            "(foreign fields, stale owned fields, duplicates, comments, odd colon spacing, continuation lines, no final newline) x both "
            "back-ends; derive-malformed: each mandatory field missing, invalid values per codec, duplicated source fields, wrong-case keys, "
            "empty paragraph; derive-codec: the std conversions (integer parsing exhaustive over a sign/digit alphabet to length 4-5, "
            "split_whitespace/split/lines over white-space alphabets); non-trivial = an error case, or a value with an optional field present "
            "and a prior paragraph holding a foreign field")
    trusted = ["Coq 8.16.1 kernel",
               "translate/structs.py (field tables, recognition of serialize_with/deserialize_with bodies and of Paragraph::set/remove variants, "
               "textual pin of the macro's templates; its fixtures run on every check)",
               "hand transcription of the derive macro (deb822-derive/src/lib.rs) into Derive.v: NO translator generates it; the translator only "
               "pins the text it was transcribed from (a change makes C16_macro_pinned false), the derive/derive-malformed streams run the real "
               "expansion of every struct against it",
               "for the two ToDeb822-only test structs (no from_paragraph exists) the value is built, and the from= part of the record produced, "
               "by generated harness code that imitates the macro's reader (FromStr per field, the two message formats); only their to/update "
               "records exercise the real macro",
               "hand transcriptions of the codec functions: Derive.v (std conversions), DeriveExt.v (serialize_env/deserialize_env, "
               "serialize_types/deserialize_types), and the C18/C14 models it instantiates (Codecs.v, Vcs.v, EnumTab.v + Enums_gen.v, RelLossy.v), "
               "all run against the real functions by the derive stream",
               "the model of debversion 0.4.4 (RelLossy.dv_parse/dv_print) and the per-case tables for url/chrono in the runner (the theorems "
               "do not depend on them: there these four codecs are parameters)",
               "tree model of the rowan operations used by lossless::Paragraph::{set,remove,from_iter} (splice one child, detach, append)",
               "extraction (ExtrOcamlBasic only), OCaml runner, Rust harness (generated per-struct glue), Python driver"]
    assumptions = ["version_rt_law: <debversion::Version as FromStr> inverts its Display on the versions of vdom (codec 1; also inside lossy Relations)",
                   "other_rt_law: the same for url::Url (codec 2), Vec<Url> = split_whitespace + Url (codec 14), chrono::NaiveDate with \"%Y-%m-%d\" (codec 15)",
                   "struct values are well typed (Rust's type checker) and in the representable domain of their codec pair (val_dom; for the "
                   "workspace codecs c_dom = the validity predicates of C18/C14: license_valid, signature_valid, forwarded_valid, commit_or_valid, "
                   "pvcs_valid, porigin_valid, relations_ok, env_valid, the 4 canonical type sets, variant index below the table size)",
                   "inputs are valid UTF-8"]

    def __init__(self):
        self._structs = None

    def structs(self):
        if self._structs is None:
            js = gen_derive.load_structs()
            self._structs = {s["id"]: s for s in js["structs"]}
        return self._structs

    def streams(self, tier, rng):
        self._structs = None
        yield "derive", gen_derive.derive_cases(tier, rng)
        yield "derive-malformed", gen_derive.malformed_cases(tier, rng)
        yield "derive-codec", gen_derive.codec_cases(tier, rng)

    # ------------------------------------------------------------------ oracle
    def oracle(self, stream, fields, impl):
        if impl in ("PANIC", "HANG", "ABORT", "MISSING") or "PANIC" in impl or "UNKNOWN" in impl or "UNSUPPORTED" in impl:
            return "implementation " + impl[:40]
        if stream == "derive-codec":
            return self.oracle_codec(fields, impl)
        st = self.structs().get(fields[0])
        if st is None:
            return "struct not in the generated table"
        r = rec_fields(impl)
        src = dec_items(fields[1])
        table = {}
        if fields[3] != "-":
            for e in fields[3].split(","):
                i, raw, canon = e.split(":")
                table[(int(i), unhex(raw))] = None if canon == "-" else unhex(canon)
        cleared = set(unhex(k) for k in fields[5].split(",")) if len(fields) > 5 and fields[5] not in ("-", "") else set()
        # 1. what from_paragraph must return: the first field in declaration order that cannot be read
        expect = "OK"; printed = []; representable = True; unknown = False
        for f in st["fields"]:
            s = first(src, f["key"])
            if s is None:
                if not f["optional"]:
                    expect = "E:missing:" + hexs(f["key"]); break
                continue
            c = convert(f["ser"], f["de"], s, table)
            if c[0] == "unknown": unknown = True; break
            if c[0] == "err":
                expect = "E:parse:" + hexs(f["key"]); break
            printed.append((f["key"], c[1]))
            representable = representable and c[2]
        if unknown:
            return None
        if r.get("from") != expect:
            return f"from_paragraph: expected {self.show(expect)}, got {self.show(r.get('from'))}"
        if st["from"] and r.get("fromll") != expect:
            return f"from_paragraph on a lossless paragraph: expected {self.show(expect)}, got {self.show(r.get('fromll'))}"
        if expect != "OK" or not st["to"]:
            return None
        if cleared:
            # the stream replaced these list fields by the empty list after from_paragraph: they are present and
            # print as the empty text; an empty Vec is a value of the struct like any other, so it must come back
            printed = [(f["key"], "" if f["key"] in cleared else dict(printed).get(f["key"])) for f in st["fields"]
                       if f["key"] in cleared or f["key"] in dict(printed)]
        # 2. to_paragraph: present fields in declaration order, configured names and serialisers; same on both back-ends
        to = dec_items(r.get("to", ""))
        if [k for k, _ in to] != [k for k, _ in printed]:
            return "to_paragraph does not list exactly the present fields in declaration order"
        un = set(unhex(k) for k in fields[4].split(",")) if fields[4] != "-" else set()
        for (k, v), (_, want) in zip(to, printed):
            if want is not None and k not in un and v != want:
                return f"to_paragraph: field {k} printed as {v!r}, its serialiser gives {want!r}"
        if r.get("toll") != r.get("to"):
            return "to_paragraph differs between the lossy and the lossless back-end"
        if st["from"] and representable:
            for key in ("rt", "rtll"):
                if r.get(key) != "1":
                    return f"from_paragraph(to_paragraph(v)) != v ({key}={self.show(r.get(key))})"
        # 3. update_paragraph
        owned = set(f["key"] for f in st["fields"])
        present = dict(to)
        for tag in ("", "ll"):
            if "upd" + tag not in r:
                continue
            prior = dec_items(r["prior" + tag]); upd = dec_items(r["upd" + tag])
            if [kv for kv in prior if kv[0] not in owned] != [kv for kv in upd if kv[0] not in owned]:
                return f"update_paragraph{tag and ' (lossless)'} changed a field the struct does not own"
            for f in st["fields"]:
                k = f["key"]
                if k in present:
                    if first(upd, k) != present[k]:
                        return f"update_paragraph{tag and ' (lossless)'}: field {k} does not read back as the value"
                elif any(a == k for a, _ in upd):
                    return f"update_paragraph{tag and ' (lossless)'} left the absent optional field {k} in the paragraph"
            if st["from"] and representable and r.get("updrt" if not tag else "updllrt") != "1":
                return f"the updated paragraph{tag and ' (lossless)'} does not read back as the value"
        if "upd" in r and "updll" in r and r["prior"] == r["priorll"] and r["upd"] != r["updll"]:
            return "update_paragraph differs between the lossy and the lossless back-end"
        # comments and formatting of untouched fields on the lossless paragraph
        if "updlltext" in r and r["updlltext"] != "~" and "priorlltext" in r:
            before = [b for b in blocks(unhex(r["priorlltext"])) if b[0] not in owned]
            after = [b for b in blocks(unhex(r["updlltext"])) if b[0] not in owned]
            if before and not before[-1][1].endswith("\n") and before != after:
                before[-1] = (before[-1][0], before[-1][1] + "\n")     # an unterminated last line gets its line end
            if before != after:
                return "update_paragraph on a lossless paragraph changed comments or the formatting of untouched fields"
        return None

    def oracle_codec(self, fields, impl):
        kind, s = fields[0], unhex(fields[1])
        if kind in ("u8", "u16", "u32", "u64"):
            n = parse_uint(s, int(kind[1:])); want = "ERR" if n is None else "OK:" + hexs(str(n))
        elif kind in ("i32", "i64"):
            n = parse_int(s, int(kind[1:])); want = "ERR" if n is None else "OK:" + hexs(str(n))
        elif kind == "ws": want = "OK:" + ",".join(hexs(x) for x in split_ws(s))
        elif kind == "nl": want = "OK:" + ",".join(hexs(x) for x in s.split("\n"))
        elif kind == "lines": want = "OK:" + ",".join(hexs(x) for x in rust_lines(s))
        else: return None
        return None if impl == want else f"{kind} conversion of {s!r}: expected {want}, got {impl}"

    @staticmethod
    def show(x):
        if not x: return str(x)
        p = x.split(":")
        try:
            return ":".join(p[:-1] + [unhex(p[-1])]) if len(p) > 1 else x
        except Exception:
            return x

    def nontrivial(self, stream, fields, impl):
        if stream == "derive-codec":
            return len(fields[1]) > 2
        r = rec_fields(impl)
        if r.get("from", "OK") != "OK":
            return True
        st = self.structs().get(fields[0])
        if not st or "upd" not in r:
            return False
        owned = set(f["key"] for f in st["fields"])
        opt = set(f["key"] for f in st["fields"] if f["optional"])
        return any(k not in owned for k, _ in dec_items(r.get("prior", ""))) and any(k in opt for k, _ in dec_items(r.get("to", "")))

    def known_class(self, stream, fields, impl, model, why):
        if stream == "derive-codec":
            return None
        src = dec_items(fields[1])
        st = self.structs().get(fields[0])
        if st and len(fields) > 5 and fields[5] not in ("-", "") and ("!= v" in why or "does not read back as the value" in why):
            cleared = set(unhex(k) for k in fields[5].split(","))
            if any(f["key"] in cleared and f["ser"] == "SJoinNl" and f["de"] == "DSplitNl" for f in st["fields"]):
                return "empty_list_split_newline"
        return None

    def neighbours(self, stream, fields):
        if stream == "derive-codec":
            return []
        out = []
        items = fields[1].split(",") if fields[1] != "-" else []
        for i in range(len(items)):
            rest = items[:i] + items[i+1:]
            out.append([fields[0], ",".join(rest) if rest else "-", fields[2], fields[3], fields[4]] + fields[5:])
            out.append([fields[0], ",".join(rest) if rest else "-", "-", fields[3], fields[4]] + fields[5:])
        out.append([fields[0], fields[1], "-", fields[3], fields[4]] + fields[5:])
        if len(fields) > 5 and fields[5] != "-":
            out.append(fields[:5] + ["-"])
        if fields[2] != "-":
            lines = re.findall(r"[^\n]*\n|[^\n]+$", unhex(fields[2]))
            for i in range(len(lines)):
                out.append([fields[0], fields[1], hexs("".join(lines[:i] + lines[i+1:])) if len(lines) > 1 else "-", fields[3], fields[4]] + fields[5:])
        return out[:400]

    def shrink_field(self, stream):
        return 1 if stream == "derive-codec" else None

PROP = C16()
