import os, re
from collections import Counter
from ..run import Prop
from .. import gen, gen_relgrammar as G, gen_relwrap as W, core
from ..core import rec_fields, unhex, hexs
from ..gen_sat import has_big_run, i32_pair_in_text

CLS_I32 = "c12-debversion-i32-digit-run"

def repo_variant():
    """Which of the four proposed fixes (proposed_fixes/C13-*.patch) the repository under test has,
    read off its source text: flags in the order of RelWrap.variant (qual_node, substvars,
    entry_ord, ctl_subst).  The model compared with the implementation is the model of THAT code;
    the theorems are about 1111 (RelWrap.fixed)."""
    forced = os.environ.get("VERIF_C13_MODEL", "")
    if re.fullmatch(r"[01]{4}", forced):
        return forced                      # manual override, e.g. VERIF_C13_MODEL=0000 for the shipped model
    def flat(p):
        try:
            return re.sub(r"\s+", " ", open(os.path.join(core.REPO, p), encoding="utf-8").read())
        except OSError:
            return ""
    rel = flat("debian-control/src/lossless/relations.rs")
    ctl = flat("debian-control/src/lossless/control.rs")
    def between(s, a, b):
        i = s.find(a)
        j = s.find(b, i + 1) if i >= 0 else -1
        return s[i:j] if i >= 0 and j >= 0 else ""
    rws = between(rel, "pub fn wrap_and_sort(&self) -> Self { let mut builder", "pub fn simple(")
    fws = between(rel, "pub fn wrap_and_sort(self) -> Self {", "pub fn entries(")
    eord = between(rel, "impl PartialOrd for Entry", "impl Eq for Entry")
    ff = between(ctl, "fn format_field(", "pub struct Control")
    q = "ARCHQUAL" in rws
    s = "Substvar::cast" in fws
    o = "while let (Some(a), Some(b))" not in eord
    c = "parse_relaxed(value, true)" in ff
    return "".join("1" if x else "0" for x in (q, s, o, c))

# ---------------------------------------------------------------- reading the records
REL_RE = re.compile(r"^n:([0-9a-f]*|PANIC),q:(-|\+[0-9a-f]*),v:(-|PANIC|(?:ge|le|eq|gt|lt)\.[0-9a-f]*),a:(-|PANIC|\+[0-9a-f.]*),p:(PANIC|(?:<[0-9a-f.de]*>)*)$")
def parse_entries(rec):
    """'entries' part of a record -> list of lists of relation records (strings), or None when an accessor panicked"""
    if rec in ("PANIC", "HANG", None): return None
    if rec == "": return []
    out = []
    for e in rec.split(";"):
        rels = e.split("/")
        if any("PANIC" in r for r in rels): return None
        out.append(rels)
    return out
def multiset2(es):
    return Counter(tuple(sorted(e)) for e in es)

# the canonical single-line form, recognised on its own (no reference to the input)
IDENT = r"[A-Za-z0-9.+~-]+"
CANON_REL = re.compile(
    rf"^{IDENT}(?::{IDENT})?(?: \((?:>=|<=|=|>>|<<) [A-Za-z0-9.+~:-]+\))?(?: \[!?{IDENT}(?: !?{IDENT})*\])?(?: <!?{IDENT}(?: !?{IDENT})*>)*$")
CANON_SUBST = re.compile(rf"^\$\{{{IDENT}(?::{IDENT})*\}}$")
def canonical_form(text):
    """None if text is in the canonical single-line form of the statement, else what is wrong"""
    if text == "": return None
    if "\n" in text or "\t" in text: return "not a single line"
    seen_subst = False
    for item in text.split(", "):
        if item.startswith("$"):
            if not CANON_SUBST.match(item): return f"substitution variable {item!r} is not canonical"
            seen_subst = True
            continue
        if seen_subst: return "an entry after a substitution variable"
        if item == "": return "an empty entry"
        for alt in item.split(" | "):
            if not CANON_REL.match(alt): return f"relation {alt!r} is not in canonical form"
    return None

CANON_PARTS = re.compile(
    rf"^({IDENT})(?::({IDENT}))?(?: \((>=|<=|=|>>|<<) ([A-Za-z0-9.+~:-]+)\))?(?: \[([^\]]*)\])?((?: <[^>]*>)*)$")
OPNAME = {v: k for k, v in G.OPS.items()}
def parse_canonical(text):
    """the abstract field (gen_relgrammar representation) of a text in canonical single-line form,
    or None when it has a version outside the grammar (colon-separated parts without an epoch)"""
    def terms(s):
        out = []
        for i, w in enumerate(s.split(" ")):
            out.append(("" if i == 0 else " ", w.startswith("!"), w.lstrip("!")))
        return out
    items = []
    for item in ([] if text == "" else text.split(", ")):
        if item.startswith("$"):
            segs = item[2:-1].split(":")
            items.append(("S", segs[0], segs[1:], ""))
            continue
        rels = []
        alts = item.split(" | ")
        for k, alt in enumerate(alts):
            m = CANON_PARTS.match(alt)
            if not m: return None
            name, qual, op, ver, archs, profs = m.groups()
            r = W.mk_rel(name, trail=" " if k + 1 < len(alts) else "")
            if qual: r["qual"] = ("", "", qual)
            if op:
                ep, rest = None, ver
                if ":" in ver:
                    ep, rest = ver.split(":", 1)
                    if not re.fullmatch(r"0|[1-9][0-9]*", ep) or int(ep) > 4294967295: return None
                pieces = rest.split(":")
                if any(not re.fullmatch(IDENT, x) for x in pieces): return None
                r["ver"] = (" ", "", OPNAME[op], " ", ep, pieces[0], "", pieces[1:])
            if archs is not None: r["archs"] = (" ", terms(archs), "")
            for g in re.findall(r" <([^>]*)>", profs or ""):
                r["profs"].append((" ", terms(g), ""))
            rels.append(r)
        items.append(("E", rels[0], [(" ", x) for x in rels[1:]]))
    if not items:
        return ("", ("N",), [])
    return ("", items[0], [(" ", i) for i in items[1:]])

class C13(Prop):
    id = "C13"
    coq_targets = ["props/C13.vo"]
    props_file = "props/C13.v"
    design_ref = "docs/cones/C13.md"
    case_ms = 20000          # the machine is shared: a loaded run once took > 4 s for one record (spurious HANG)
    level_text = (
        "Coq theorems over every well-formed abstract relationship field (RelGrammar.rfield with wf_rfield, the quantifier of C10: any "
        "SP/TAB/LF layout in every whitespace slot, empty entries, trailing comma, every optional part, epochs, negated architectures, "
        "multi-term profile groups, substitution variables; no bound on any count or length) whose versions debversion can compare "
        "(field_safe: no digit run above 2^31-1): C13_full_holds -- Relations::wrap_and_sort does not panic and returns a tree whose "
        "text is the canonical single-line text (entries ', ', alternatives ' | ', 'name[:qual] (op version) [archs] <profiles>', single "
        "spaces) of the sorted content, substitution variables after the entries in the order of their text (C13_text); the accessors "
        "of the returned object report that sorted content, alternatives and entries are sorted for the modelled impl Ord evaluated "
        "on the returned trees, no empty entry (C13_sorted); the text is the rendering of a well-formed field (canon_field f), so by "
        "C10's theorems it parses without error -- strictly when there is no substitution variable -- and the accessors of the re-read "
        "tree report a content that is f's up to a permutation of entries and of alternatives inside entries, with identical name, "
        "qualifier, operator, version text, architectures with negations, profile groups, substitution variables (C13_meaning); a "
        "second application returns the SAME TREE, so does an application to the re-read text, and the formatter of "
        "Control::wrap_and_sort (the rel parameter of C07's format_field) maps f's text to that text and that text to itself "
        "(C13_idem). C13_any_tree: for ANY tree (malformed input included) whose accessors do not panic and whose versions are safe, "
        "wrap_and_sort returns the canonical tree of the sorted accessor content and is idempotent on trees. "
        "C13_order_total_preorder: impl Ord for Relation / Entry is a total preorder on the safe domain; C13_sort_contract: the "
        "model's sort (Rust's insertion sort for <= 20 elements) is a stable sort, and the stable sorted permutation is unique, so any "
        "stable sort returns the same list. The theorems are about the code WITH the four fixes this property led to "
        "(proposed_fixes/C13-*.patch); the shipped code is refuted: C13_shipped_archqual_refuted ('a:any' -> 'a' on the second "
        "application), C13_shipped_substvar_refuted ('${misc:Depends}, b' -> 'b'), C13_shipped_entry_order_refuted (impl Ord for Entry "
        "is not transitive; 'a | b | c, a | b, a' comes back unsorted), C13_shipped_control_substvar_refuted (Control::wrap_and_sort "
        "panics on 'Depends: ${misc:Depends}'), C13_shipped_refuted. C13_i32_class_witness: the safe domain is needed.")
    level_note = ("Model: Relation/Entry/Relations::wrap_and_sort, impl Ord for Relation/Entry, From<Vec<..>>, inject in "
                  "debian-control/src/lossless/relations.rs and the relation branch of format_field in lossless/control.rs "
                  "(coq/model/RelWrap.v, variants fixed/shipped); specification coq/model/RelWrapSpec.v (canon_text, wrel_cmp, sorted_content, "
                  "canon_field, same_content); reader and accessors: C09/C10's RelLex/RelParse/RelAcc; debversion: C12's DebVersion.v + Sat.show_version.")
    rule = ("rel-wrap: the failing inputs of the four defects + every sequence of <= 3 items over a 23-item pool with every tie-break "
            "(entries that are prefixes of one another, equal names with each operator, Debian-equal spellings, epochs, '~', qualifier / "
            "architecture / profile variants, substitution variables, empty entries) + C10's systematic fields + random inhabitants of "
            "RelGrammar.rfield in four whitespace styles with few distinct names, sorted / reversed / shuffled copies, fields with 21-70 entries or alternatives (beyond the insertion-sort threshold of slice::sort), digit runs above "
            "i32::MAX; the oracle recomputes the demanded text from the abstract field (own stable sort, own dpkg comparison) and judges "
            "the implementation's record only; rel-wrap-text: regression texts, corpus, every string of length <= 3 (4 thorough) over the "
            "22-symbol relation alphabet, mutated rendered fields (correspondence incl. panic sites; the oracle applies when the text is "
            "recognised as canonical output); rel-wrap-ctl: control files with 1-3 relationship fields in either paragraph, 8 settings, "
            "unparsable values, through Control::wrap_and_sort twice against C01's reader + C07's reformatting model + this cone's "
            "formatter; non-trivial = at least two alternatives or entries")
    trusted = ["Coq 8.16.1 kernel",
               "RelGrammar.v (C10) as the definition of 'well-formed relationship field' and its content; RelWrapSpec.v as the definition of "
               "the canonical text, the order and 'same dependencies'",
               "hand transcription of wrap_and_sort / impl Ord / From<Vec<..>> / format_field (RelWrap.v), of the reader and accessors "
               "(RelLex.v, RelParse.v, RelAcc.v), tied to the code by the rel-wrap, rel-wrap-text and rel-wrap-ctl streams on every run; the "
               "variant of the model that is compared is chosen from the source text of the repository under test (repo_variant)",
               "debversion 0.4.4 FromStr / Display / Ord transcribed (DebVersion.v, Sat.show_version; validated by C12's vercmp stream and here)",
               "Rust's slice::sort as a stable sort: insertion sort up to 20 elements (the model), any stable sort beyond (C13_sort_contract: same result for a total preorder)",
               "rowan GreenNodeBuilder / children / text modelled on the inductive tree; C01's reader and C07's Deb822Wrap.control_ws for the control-file path",
               "extraction (ExtrOcamlBasic only), OCaml runner, Rust harness, Python driver, generator and oracle (own sort, dpkg order from vlib/gen_sat.py)"]
    assumptions = ["inputs are valid UTF-8 (Rust &str)",
                   "the field is well-formed in the sense of RelGrammar.wf_rfield (names, versions, architectures, profiles, substvar segments "
                   "non-empty over [A-Za-z0-9.+~-]; the five operators; canonical epoch <= 4294967295; >= 1 term per [..] / <..>; whitespace SP, TAB, LF)",
                   "no digit run of a version exceeds 2147483647 (external crate debversion 0.4.4 panics when comparing: class c12-debversion-i32-digit-run)",
                   "the code is /repo 12709db with proposed_fixes/C13-archqual-node, C13-keep-substvars, C13-entry-order, C13-control-substvars applied"]

    def __init__(self):
        self._flags = None

    def flags(self):
        if self._flags is None:
            self._flags = repo_variant()
            if self._flags != "1111":
                core.log(f"[C13] the repository under test lacks some of the fixes proposed_fixes/C13-*.patch "
                         f"(qual_node,substvars,entry_ord,ctl_subst = {self._flags}): correspondence is against the model of that code; "
                         f"the property oracle reports the violations")
        return self._flags

    def streams(self, tier, rng):
        fl = self.flags()
        yield "rel-wrap", W.wf_cases(tier, rng, fl)
        yield "rel-wrap-ctl", W.ctl_cases(tier, rng, fl)
        yield "rel-wrap-text", W.text_cases(tier, rng, fl)

    def shrink_field(self, stream):
        return 0 if stream == "rel-wrap-text" else None

    # ------------------------------------------------------------ the property on the implementation's record
    def oracle(self, stream, fields, impl):
        if impl in ("HANG", "ABORT", "MISSING"):
            return "implementation " + impl
        if stream == "rel-wrap":
            return self._oracle_wf(fields, impl)
        if stream == "rel-wrap-ctl":
            return self._oracle_ctl(fields, impl)
        return self._oracle_text(fields, impl)

    def _oracle_wf(self, fields, impl):
        f = G.decode(fields[2])
        if impl == "PANIC":
            return "implementation PANIC reading a well-formed field"
        r = rec_fields(impl)
        if r.get("e1") != "0":
            return f"parse_relaxed(s, true) reports {r.get('e1')} error(s) on a well-formed field"
        if r.get("w1") == "PANIC":
            return "wrap_and_sort PANIC on a well-formed field"
        w1 = unhex(r["w1"])
        # (1) single-line canonical text, (2) sorted, empty entries gone
        bad = canonical_form(w1)
        if bad:
            return "result is not in canonical form: " + bad
        want = W.expected_text(f)
        if w1 != want:
            return f"result {w1!r} is not the canonical text of the sorted content {want!r}"
        # (3) parses strictly, same dependencies
        subst = G.has_subst(f)
        if r.get("re1") != "0":
            return f"the result re-reads with {r.get('re1')} error(s)"
        if not subst and r.get("re0") != "0":
            return "the strict reader rejects the result"
        acc, racc = parse_entries(r.get("acc")), parse_entries(r.get("racc"))
        if acc is None or racc is None:
            return "an accessor PANICs on the input or on the re-read result"
        if r.get("acc") != G.content_record(f):
            return "accessors of the input differ from the content written"
        if multiset2(acc) != multiset2(racc):
            return "the re-read result does not denote the same multiset of entries / alternatives"
        sv = Counter(x for x in r.get("sv", "").split(",") if x)
        if sv != Counter(x for x in r.get("rsv", "").split(",") if x):
            return "substitution variables of the result differ from those of the input"
        if sv != Counter(hexs(s) for s in W.sorted_substs(f)):
            return "substvars() of the input differs from the substitution variables written"
        # (4) idempotence, directly and through the re-read text
        if r.get("w2") != r["w1"]:
            return f"a second wrap_and_sort of the returned object prints {self._show(r.get('w2'))!r}, not {w1!r}"
        if r.get("w2p") != r["w1"]:
            return f"wrap_and_sort of the re-read result prints {self._show(r.get('w2p'))!r}, not {w1!r}"
        # the returned object itself reports what its text says
        if r.get("wacc") != r.get("racc") or r.get("wsv") != r.get("rsv"):
            return "the accessors of the returned object differ from those of its re-read text"
        return None

    @staticmethod
    def _show(h):
        try: return unhex(h)
        except Exception: return h

    def _oracle_text(self, fields, impl):
        """free text: outside the quantifier unless it is itself canonical output, on which
        wrap_and_sort must be the identity as far as the text is sorted"""
        text = unhex(fields[0])
        if canonical_form(text) is None:
            f = parse_canonical(text)
            if f is not None and G.render(f) == text:
                return self._oracle_wf([fields[0], fields[1], G.encode(f)], impl)
        if impl == "PANIC":
            return None
        r = rec_fields(impl)
        for k in ("e1", "w1", "w2", "w2p"):
            if r.get(k) == "HANG":
                return f"implementation HANG in {k}"
        return None

    def _oracle_ctl(self, fields, impl):
        encs = [] if fields[3] == "-" else [e.split("=", 1) for e in fields[3].split(";")]
        bad = any(e == "!" for _, e in encs)
        if impl == "ERR":
            return "the control file is rejected"
        if impl == "PANIC":
            # a field outside C13's quantifier ("!": not a well-formed relationship field) may still make the relations code
            # panic (an operator that is none of the five: C12's / C07's recorded class); since /repo c9b03b8 an UNPARSABLE
            # field is left as it is, which the model mirrors (correspondence)
            return None if bad else "Control::wrap_and_sort PANIC on well-formed relationship fields"
        r = rec_fields(impl)
        t1 = unhex(r["t1"])
        if r.get("t2") != r["t1"]:
            return "a second Control::wrap_and_sort changes the text"
        lines = t1.split("\n")
        for name, enc in encs:
            if enc == "!":
                continue      # an unparsable value: kept as written (C07's clause), nothing to compare here
            f = G.decode(enc.replace("+", " "))
            want = W.expected_text(f)
            got = [l for l in lines if l.startswith(name + ":")]
            if len(got) != 1:
                return f"field {name} not on exactly one line"
            if got[0][len(name) + 1:].lstrip(" ") != want:
                return f"{name}: {got[0][len(name) + 1:]!r} is not the canonical text {want!r}"
        return None

    def nontrivial(self, stream, fields, impl):
        if stream == "rel-wrap-ctl":
            return impl.startswith("t1=")
        return impl.count("n:") >= 2 and "|w1=PANIC" not in impl

    # ------------------------------------------------------------ known findings
    def known_class(self, stream, fields, impl, model, why):
        # debversion 0.4.4 panics when it compares a digit run above i32::MAX; which pairs a sort
        # compares is the sorting algorithm's business, so model and implementation may differ there
        # -- narrowed to what the class says: two alternatives with the same name and operator (impl Ord
        # for Relation compares versions only then) whose version comparison reaches such a run
        text = unhex(fields[0])
        if ("PANIC" in impl or "PANIC" in (model or "") or "PANIC" in (why or "")) and i32_pair_in_text(text):
            return CLS_I32
        return None

    # ------------------------------------------------------------ search support
    def neighbours(self, stream, fields):
        if stream == "rel-wrap-text":
            s = unhex(fields[0])
            out = []
            for i in range(len(s) + 1):
                out.append(s[:i])
                for c in gen.REL_ALPHABET:
                    out.append(s[:i] + c + s[i:])
                    if i < len(s): out.append(s[:i] + c + s[i+1:])
            return [[hexs(x)] + fields[1:] for x in dict.fromkeys(out)][:3000]
        if stream != "rel-wrap":
            return []
        f = G.decode(fields[2])
        items = [f[1]] + [i for _, i in f[2]]
        out = []
        def field_of(its):
            return (f[0], its[0], [(" ", i) for i in its[1:]]) if its else (f[0], ("N",), [])
        for i in range(len(items)):
            out.append(field_of(items[:i] + items[i+1:]))
            it = items[i]
            if it[0] == "E":
                rels = [it[1]] + [r for _, r in it[2]]
                for j in range(len(rels)):
                    rest = rels[:j] + rels[j+1:]
                    if rest:
                        out.append(field_of(items[:i] + [("E", rest[0], [(" ", r) for r in rest[1:]])] + items[i+1:]))
                    for part, empty in (("qual", None), ("ver", None), ("archs", None), ("profs", [])):
                        if rels[j][part]:
                            r2 = dict(rels[j]); r2[part] = empty
                            rs = rels[:j] + [r2] + rels[j+1:]
                            out.append(field_of(items[:i] + [("E", rs[0], [(" ", r) for r in rs[1:]])] + items[i+1:]))
        return [[hexs(G.render(g)), fields[1], G.encode(g)] for g in out][:2000]

PROP = C13()
