from ..run import Prop
from .. import gen, gen_grammar, core
from ..core import rec_fields, unhex, hexs

class C03(Prop):
    id = "C03"
    coq_targets = ["props/C03.vo"]
    props_file = "props/C03.v"
    design_ref = "DESIGN.md §4 C03"
    spec_streams = ("deb822-doc",)
    level_text = ("Coq theorems over every well-formed abstract document (Grammar.doc with wf_doc: arbitrary valid names, arbitrary value lines "
                  "without LF/CR, every placement of comments and blank lines, every indentation and colon spacing, optional final newline): the lexer "
                  "produces exactly doc_toks d, the parser builds exactly tree_of d with no error, printing gives back render d, items() of every "
                  "paragraph equal content d (names in file order, duplicates kept, values = lines joined by LF without indentation and colon "
                  "whitespace); get/get_all/keys/contains_key are the list lookups on items() for every tree; Paragraph::from_str returns the first "
                  "paragraph; C03_reject / C03_reject_last: a line that does not start with space, tab or '#' and either cannot start a field name or "
                  "contains no colon (RejectP.bad_line), inserted at any line boundary of ANY text - also as the last line without line end - "
                  "makes the strict reader return Err (lexer line-locality + a parser invariant: a bad token pattern at a line start is either "
                  "reported or still ahead); other malformed lines (text between the name and the colon, an indented line with no field before "
                  "it) are characterised by C03_image_complete: every text the strict reader accepts is the rendering of an error-free layout "
                  "(XGrammar), and C03_image_accept: each such layout is read back exactly. The deb822-reject stream replays the rejection "
                  "clause on the implementation.")
    level_note = "Model: src/lex.rs, src/common.rs, fn parse and the accessors of src/lossless.rs; specification: coq/model/Grammar.v (render, wf_doc, content)."
    rule = ("deb822-doc: random inhabitants of Grammar.doc (all layout knobs; text rendered by the generator and re-rendered by the extracted "
            "Grammar.render, wf checked by the extracted wf_doc), implementation compared with content/spec lookups; deb822-reject: a bad line "
            "inserted at every line boundary of generated documents; non-trivial = document with at least one field")
    trusted = ["Coq 8.16.1 kernel", "Grammar.v as the definition of 'well-formed document' and of its content",
               "hand transcription of lexer/parser/accessors (validated by the deb822-parse stream of C01 and by these streams)",
               "extraction, OCaml runner (incl. the document decoder in runner/s_grammar.ml), Rust harness, Python driver and generator"]
    assumptions = ["field names: ASCII graphic without ':' , not starting with '-' or '#'; value lines contain no LF/CR; continuation lines are non-empty after their indentation and do not start with '#'"]

    def streams(self, tier, rng):
        n = {"quick": 6000, "search": 20000, "thorough": 150000}[tier]
        yield "deb822-doc", gen_grammar.doc_cases(n, rng, "d")
        m = {"quick": 400, "search": 1500, "thorough": 10000}[tier]
        yield "deb822-reject", gen_grammar.reject_cases(m, rng, "x")

    def oracle(self, stream, fields, impl):
        if impl in ("PANIC", "HANG", "ABORT", "MISSING"):
            return "implementation " + impl
        if stream == "deb822-reject":
            r = rec_fields(impl)
            if r.get("strict", "").startswith("OK"):
                return "strict reader accepts a document with a line that is neither field, continuation, comment nor blank"
            return None
        if not impl.startswith("strict=OK"):
            return "strict reader rejects a well-formed document"
        return None   # exact content is compared with the specification through the model record

    def nontrivial(self, stream, fields, impl):
        return "=" in impl.split("|")[0][10:] if stream == "deb822-doc" else True

    def shrink_field(self, stream):
        return 0 if stream == "deb822-reject" else None

PROP = C03()
