import re
from ..run import Prop
from .. import gen_typed, core
from ..core import rec_fields, unhex, hexs
from .c16 import convert, first

UNORDERED_KEYS = {"Types", "Environment"}
LOSSY_KINDS = ("release", "aptsource", "aptpackage")

def dec_items(enc):
    enc = enc.strip("[]")
    if enc in ("", "-"): return []
    out = []
    for it in enc.split(","):
        k, v = it.split("=")
        out.append((unhex(k), unhex(v)))
    return out

def dec_view(enc):
    """'[k=v,..];[..]' -> list of item lists; 'ERR' -> None"""
    if enc == "ERR": return None
    if enc == "": return []
    return [dec_items(p) for p in enc.split(";")]

def dec_dump(enc):
    """'S:k=v,..;B:..' -> [(role, items)]"""
    if enc == "": return []
    out = []
    for p in enc.split(";"):
        role, its = p.split(":", 1)
        out.append((role, dec_items(its)))
    return out

def norm(k, v):
    return v

class C20(Prop):
    id = "C20"
    coq_targets = ["props/C20.vo"]
    props_file = "props/C20.v"
    design_ref = "DESIGN.md §3 C20 (docs/cones/C20.md; plan: docs/DESIGN_plan_v0.md §4 C20)"
    level_text = ("Coq theorems about the hand-written assembly code of the nine lossy typed documents (control, copyright, apt Release / "
                  "Source / Package, removal record, buildinfo, DEP-3 header, APT sources list), composed from the derive-macro model (C16), "
                  "the lossless reader (C01/C03), the lossy reader and printer (C06/C08) and C18's models of the workspace's own field codecs. "
                  "STABILITY (a text that parses to v: print v parses to the SAME v, hence prints identically): proved OUTSIDE EIGHT KNOWN "
                  "CLASSES and under ONE PREMISE. The full statement without class guards (C20_full) is FALSE of the code and refuted in Coq "
                  "(C20_full_refuted). Premise ext0_ok: the stability law for the four codecs that are not workspace code - debversion::Version, "
                  "url::Url (also: its text is a non-empty white-space free token), lossy Relations (built on debversion), chrono::NaiveDate; for the "
                  "other twelve 'external' codecs of the derive model (keyword enums, License, Signature, Forwarded, AppliedUpstream, DEP-3 Origin, "
                  "ParsedVcs, environment map, repository-type set, URI list) the law is a theorem about their Coq models (x_stable), inside "
                  "three guards. Known classes (each a finding with a replay, a narrow recogniser on the failing field and a Coq witness that it is "
                  "necessary): c20-files-hash-word (copyright Files item starting with '#'), c20-vcs-second-group (Vcs-Git with a second [..] group; "
                  "the theorem also leaves multi-line Vcs-Git values out), c20-env-hash-line (Environment entry starting with '#' not sorted "
                  "first), c20-signature-hash-block (Signed-By key block whose first line starts with '#'), c20-dep3-empty-header (no known "
                  "field), c20-lossy-blank-last-line (apt kinds: a field value ending in LF, i.e. whose last continuation line is blank or a "
                  "comment; the Coq class Known_lossy_blank_last is exactly that - values with blank or comment continuation lines in the interior "
                  "are proved stable), c20-lossy-empty-first-line (apt kinds, field-wise clause only: the lossy value is LF + the lossless one), "
                  "c20-debversion-i32-digit-run (== on apt Source/Package panics inside debversion; outside the model). Two classes of the first "
                  "delivery are fixed in /repo and gone: c20-env-trailing-newline, c20-hash-order. Scope: lossless-reader kinds - every text the "
                  "reader accepts; apt kinds - every text the lossy reader accepts in which no field value ends in LF (includes every well-formed "
                  "document). Also proved: every value the strict lossless reader "
                  "hands out is canonical (all strings); acceptance = exactly one source paragraph / Format gate, roles by Package, Source, Files, "
                  "License, every struct field the deserialiser's image of what get shows (equivalence for control and copyright); rejection of "
                  "the structurally invalid variants; totality. Struct tables are regenerated from the sources; side conditions closed by vm_compute.")
    level_note = ("Model: FromStr / Display / ToString of debian-control/src/lossy/{control,apt,buildinfo,ftpmaster}.rs, debian-copyright/src/lossy.rs, "
                  "dep3/src/lossy.rs, apt-sources/src/lib.rs (coq/model/TypedDocs.v) over the derive model; coq/model/TypedExt.v plugs in C18's "
                  "models (EnumTab + generated tables, Codecs.v, Vcs.v) and transcriptions of serialize_env/deserialize_env, serialize_types/"
                  "deserialize_types, serialize_uris/deserialize_uris; the typed-doc streams run THAT instance (only Version, Url, Relations, "
                  "NaiveDate come from the per-case table validated by the harness). PREMISE that remains: ext0_ok (see level_text). NOT proved: "
                  "C20_full (refuted); stability inside the eight known classes (all are genuine violations or, for the two lossy-reader classes "
                  "and the debversion panic, outside the property's quantifier / the model); the assumption-free general theorems doc_stable_* "
                  "keep the abstract premise ext_stable for ANY codecs - it is false for C18's ParsedVcs model (C20_ext_stable_vcs_refuted), which "
                  "is why the _x theorems with guards are the ones to read.")
    rule = ("typed-doc: per kind, documents generated from the struct field tables (optional fields present/absent, values per codec incl. "
            "multi-line values, an empty first line, Unicode; for the workspace codecs arbitrary compositions incl. the known classes on purpose: "
            "Vcs-Git with 0-3 bracket groups / branches / stray spaces, Environment with '#', duplicate and unsorted keys, Signed-By paths and "
            "key blocks starting with '#', Origin bare keywords; for Version / Url / Relations / NaiveDate pool values incl. non-canonical spellings "
            "and a digit run above i32::MAX; several paragraphs in any order, duplicates, foreign and role-confusing fields, comments, odd colon "
            "spacing / indentation / blank lines, missing final newline); typed-doc-malformed: every mandatory field of every role missing, an "
            "invalid value in every fallible field, wrong paragraph structure (no / several sources, neither kind, extra paragraphs), bad lines, "
            "white-space-only or comment continuation lines after the last line of a value and between two of its lines, '#' words in lists, Format-gate prefixes, CR line ends, wrong-case keys, near-empty texts; "
            "typed-doc-small: EVERY arrangement of up to 3 (thorough 4) paragraphs over the kind's roles plus a paragraph of neither role, every "
            "presence pattern of the first 5 (thorough 9) optional fields of every struct; non-trivial = accepted with an optional field or "
            "several paragraphs, or rejected for a structural / field reason")
    trusted = ["Coq 8.16.1 kernel",
               "translate/structs.py, translate/enums.py (field tables, keyword tables)",
               "hand transcription of the FromStr / Display impls (coq/model/TypedDocs.v) and of the three codecs without a C18 model "
               "(coq/model/TypedExt.v), tied to the code by the typed-doc streams",
               "the models of C01/C03/C06/C08/C16/C18 this cone composes (Deb822Lex, Deb822Parse, Lossy, Derive, EnumTab, Codecs, Vcs)",
               "debversion::Version, url::Url, lossy Relations, chrono::NaiveDate as premises (per-case table validated by the harness)",
               "extraction (ExtrOcamlBasic only), OCaml runner, Rust harness, Python driver and oracle"]
    assumptions = ["ext0_ok: for debversion::Version, url::Url, lossy Relations, chrono::NaiveDate a value obtained by parsing a canonical text "
                   "prints to canonical text which (as the kind's deb822 reader shows it) parses to the same value; a Url prints to a non-empty "
                   "white-space free token. (The other twelve codecs are computed by Coq models and the law is proved for them inside the guards "
                   "of c20-vcs-second-group, c20-env-hash-line, c20-signature-hash-block.)",
                   "value equality is Leibniz equality of the model's values (HashMap / HashSet fields are represented by their sorted lines); "
                   "the panic of debversion's comparison on digit runs above i32::MAX is outside it (c20-debversion-i32-digit-run)",
                   "struct values are well typed (Rust's type checker)", "inputs are valid UTF-8"]

    def streams(self, tier, rng):
        gen_typed.reset()
        yield "typed-doc", gen_typed.wf_cases(tier, rng)
        yield "typed-doc-malformed", gen_typed.malformed_cases(tier, rng)
        yield "typed-doc-small", gen_typed.small_cases(tier, rng)

    # ------------------------------------------------------------------ expectations
    @staticmethod
    def table_of(enc):
        table = {}
        if enc not in ("-", ""):
            for e in enc.split(","):
                i, raw, canon = e.split(":")
                table[(int(i), unhex(raw))] = None if canon == "-" else unhex(canon)
        return table

    def read_struct(self, st, items, table):
        """-> ('OK', [(key, printed|None)]) | ('E:missing:..' | 'E:field:..', None) | None (cannot tell)"""
        printed = []
        for f in st["fields"]:
            s = first(items, f["key"])
            if s is None:
                if not f["optional"]:
                    return ("E:missing:" + hexs(f["key"]), None)
                continue
            c = convert(f["ser"], f["de"], s, table)
            if c[0] == "unknown": return None
            if c[0] == "err":
                return ("E:field:" + hexs(f["key"]), None)
            printed.append((f["key"], c[1]))
        return ("OK", printed)

    def expected(self, kind, text, view, table):
        """what the kind's reader must answer, from the deb822 layer's own view of the text:
        -> ('OK', [(role, printed items)]) | (error class, None) | None"""
        rs = gen_typed.role_structs(kind)
        if kind == "copyright" and not text.startswith("Format:"):
            return ("E:nmr", None)
        if view is None:
            return ("E:syntax", None)
        out = []
        if kind == "control":
            source, bins = None, []
            for p in view:
                if first(p, "Package") is not None:
                    r = self.read_struct(rs["B"], p, table)
                    if r is None or r[0] != "OK": return r
                    bins.append(("B", r[1]))
                elif first(p, "Source") is not None:
                    if source is not None: return ("E:manysource", None)
                    r = self.read_struct(rs["S"], p, table)
                    if r is None or r[0] != "OK": return r
                    source = ("S", r[1])
                else:
                    return ("E:neither", None)
            if source is None: return ("E:nosource", None)
            return ("OK", [source] + bins)
        if kind == "copyright":
            if not view: return ("E:noparas", None)
            r = self.read_struct(rs["H"], view[0], table)
            if r is None or r[0] != "OK": return r
            files, lic = [], []
            for p in view[1:]:
                if first(p, "Files") is not None:
                    r2 = self.read_struct(rs["F"], p, table)
                    if r2 is None or r2[0] != "OK": return r2
                    files.append(("F", r2[1]))
                elif first(p, "License") is not None:
                    r2 = self.read_struct(rs["L"], p, table)
                    if r2 is None or r2[0] != "OK": return r2
                    lic.append(("L", r2[1]))
                else:
                    return ("E:neither", None)
            return ("OK", [("H", r[1])] + files + lic)
        if kind == "repositories":
            for p in view:
                r = self.read_struct(rs["R"], p, table)
                if r is None or r[0] != "OK": return r
                out.append(("R", r[1]))
            return ("OK", out)
        # one-paragraph kinds
        if kind in LOSSY_KINDS:
            if len(view) != 1: return ("E:syntax", None)
        elif not view:
            return ("E:noparas", None)
        p = view[0]
        r = self.read_struct(rs["P"], p, table)
        if r is None or r[0] != "OK": return r
        printed = r[1]
        if kind == "dep3":
            order = [f["key"] for f in rs["P"]["fields"]]
            for target, alt in (("Author", "From"), ("Description", "Subject")):
                if first(printed, target) is None and first(p, alt) is not None:
                    printed.append((target, first(p, alt)))
            printed.sort(key=lambda kv: order.index(kv[0]))
        return ("OK", [("P", printed)])

    # ------------------------------------------------------------------ oracle
    def oracle(self, stream, fields, impl):
        if impl in ("PANIC", "HANG", "ABORT", "MISSING") or "PANIC" in impl or "UNKNOWN" in impl:
            return "implementation " + impl[:40]
        kind, text = fields[0], unhex(fields[1])
        table = self.table_of(fields[2])
        wf = len(fields) > 3 and fields[3] == "wf"
        r = rec_fields(impl)
        if "E:other" in r.get("p", "") or "E:other" in r.get("r", ""):
            return "an error message the harness cannot classify: " + self.show(r.get("p")) + " / " + self.show(r.get("r"))
        ll = dec_view(r.get("ll", "ERR"))
        layer = dec_view(r["ly"]) if kind in LOSSY_KINDS else ll
        if kind in LOSSY_KINDS and r["ly"] != "ERR":
            layer = [dec_items(r["ly"])]
        # 1. acceptance / rejection, judged on the deb822 layer's own view of the text
        exp = self.expected(kind, text, layer, table)
        if exp is not None:
            if exp[0] != r.get("p"):
                if exp[0] == "OK" or r.get("p") == "OK":
                    return f"reject/accept: expected {self.show(exp[0])}, got {self.show(r.get('p'))}"
                return f"reject: expected the error {self.show(exp[0])}, got {self.show(r.get('p'))}"
        if r.get("p") != "OK":
            return None
        v = dec_dump(r["v"])
        # 2. field by field: what the reader shows, through each field's codec, in declaration order, per role
        if exp is not None and exp[0] == "OK":
            msg = self.fieldwise(v, exp[1], "the reader's")
            if msg: return "field-wise: " + msg
        if wf and kind in LOSSY_KINDS and ll is not None and len(ll) == 1:
            exp2 = self.expected(kind, text, [ll[0]] if kind in LOSSY_KINDS else ll, table)
            if exp2 is not None and exp2[0] == "OK":
                msg = self.fieldwise(v, exp2[1], "the lossless reader's")
                if msg: return "field-wise (lossless view): " + msg
        # 3. stability
        if r.get("r") != "OK":
            return f"stability: the printed value is rejected ({self.show(r.get('r'))})"
        if r.get("eq") != "1":
            return "stability: the printed value reads back as a different value"
        if r.get("same") != "1":
            return "stability: the value read back prints differently"
        if r.get("ord", "1") != "1":
            return "order: the same text printed after reading differs from one reading to the next (hash container order)"
        return None

    def fieldwise(self, v, want, whose):
        if [role for role, _ in v] != [role for role, _ in want]:
            return f"paragraph roles {[r for r, _ in v]} but {whose} view gives {[r for r, _ in want]}"
        for (role, got), (_, exp) in zip(v, want):
            if [k for k, _ in got] != [k for k, _ in exp]:
                return f"role {role}: fields {[k for k, _ in got]} but {whose} view gives {[k for k, _ in exp]}"
            for (k, a), (_, b) in zip(got, exp):
                if b is not None and norm(k, a) != norm(k, b):
                    return f"role {role} field {k}: value prints as {a!r}, {whose} view through the codec gives {b!r}"
        return None

    @staticmethod
    def show(x):
        if not x: return str(x)
        p = x.split(":")
        try:
            return ":".join(p[:2] + [unhex(p[2])]) if len(p) > 2 else x
        except Exception:
            return x

    def nontrivial(self, stream, fields, impl):
        r = rec_fields(impl)
        p = r.get("p", "")
        if p == "OK":
            v = r.get("v", "")
            return ";" in v or v.count(",") >= 2
        return p not in ("E:syntax", "")

    # ------------------------------------------------------------------ known classes
    # A failure is in a known class only if EVERY difference it consists of is explained by that
    # class on the failing field itself (so that a co-occurring, unexplained difference stays fresh).
    @staticmethod
    def diffs(v, v2):
        """field-level differences of two dumps: [(role, key, a, b)] (b None = field missing); None if the paragraph structure differs"""
        if [r for r, _ in v] != [r for r, _ in v2]:
            return None
        out = []
        for (role, a), (_, b) in zip(v, v2):
            da, db = dict(a), dict(b)
            for k in dict.fromkeys([k for k, _ in a] + [k for k, _ in b]):
                if da.get(k) != db.get(k):
                    out.append((role, k, da.get(k), db.get(k)))
        return out

    @staticmethod
    def drop_hash_lines(a):
        ls = a.split("\n")
        return "\n".join([ls[0]] + [l for l in ls[1:] if not l.startswith("#")])

    def explain(self, kind, role, k, a, b):
        """the known class that accounts for field k printing as a but reading back (and printing) as b"""
        if a is None:
            return None
        if kind in LOSSY_KINDS and b is not None and a == b + "\n":
            return "c20-lossy-blank-last-line"
        if kind == "copyright" and k in ("Files", "Files-Excluded") and b is not None and b != a and b == self.drop_hash_lines(a):
            return "c20-files-hash-word"
        if kind == "control" and k == "Vcs-Git" and gen_typed.pvcs_second_group(a) and b == gen_typed.pvcs_canon(a):
            return "c20-vcs-second-group"
        if kind == "buildinfo" and k == "Environment" and b != a and b == self.drop_hash_lines(a):
            return "c20-env-hash-line"
        if kind == "repositories" and k == "Signed-By" and a.startswith("\n#") and "\n" in a[1:]:
            rest = "\n".join(a.split("\n")[2:])
            if b == gen_typed.ext_canon("Signature", rest)[1]:
                return "c20-signature-hash-block"
        return None

    def known_class(self, stream, fields, impl, model, why):
        kind = fields[0]
        r = rec_fields(impl)
        if "PANIC" in impl:
            # debversion: comparing two versions with a digit run above i32::MAX panics (class of C12); here it is
            # reached by `==` on apt Source / Package after a successful read
            if kind in ("aptsource", "aptpackage") and r.get("p") == "OK" and r.get("ly", "ERR") != "ERR":
                ver = first(dec_items(r["ly"]), "Version")
                if ver is not None and any(int(d) > 2147483647 for d in re.findall(r"[0-9]+", ver)):
                    return "c20-debversion-i32-digit-run"
            return None
        if why.startswith("order:"):
            return "c20-hash-order"
        if r.get("p") != "OK":
            return None
        try:
            v = dec_dump(r.get("v", ""))
        except Exception:
            return None
        if why.startswith("stability"):
            if kind == "dep3" and r.get("v") == "P:" and r.get("r") == "E:noparas":
                return "c20-dep3-empty-header"
            if r.get("r") != "OK":
                # the printed text is rejected: only a one-line lossy value ending in LF does that - its
                # empty line ends the paragraph, so the single-paragraph reader sees two
                if kind in LOSSY_KINDS and r.get("r") == "E:syntax":
                    its = v[0][1]
                    if any(x.endswith("\n") and "\n" not in x[:-1] for _, x in its[:-1]):
                        return "c20-lossy-blank-last-line"
                return None
            ds = self.diffs(v, dec_dump(r.get("v2", "")))
            if not ds:
                return None
            classes = {self.explain(kind, role, k, a, b) for role, k, a, b in ds}
            if len(classes) == 1 and None not in classes:
                return classes.pop()
            return None
        if why.startswith("field-wise (lossless view)") and kind in LOSSY_KINDS and r.get("ly", "ERR") != "ERR":
            ly = dec_items(r["ly"]); ll = dec_view(r.get("ll", "ERR"))
            if not ll or len(ll) != 1:
                return None
            exp2 = self.expected(kind, unhex(fields[1]), [ll[0]], self.table_of(fields[2]))
            if exp2 is None or exp2[0] != "OK":
                return None
            ds = self.diffs(v, [(role, [(k, x if x is not None else dict(v[0][1]).get(k)) for k, x in its]) for role, its in exp2[1]])
            if not ds:
                return None
            # every field that differs is one whose first line is empty: lossy value = LF + lossless value
            if all(first(ly, k) is not None and first(ll[0], k) is not None and first(ly, k) == "\n" + first(ll[0], k) for _, k, _, _ in ds):
                return "c20-lossy-empty-first-line"
        return None

    def neighbours(self, stream, fields):
        text = unhex(fields[1])
        lines = re.findall(r"[^\n]*\n|[^\n]+$", text)
        out = []
        for i in range(len(lines)):
            out.append("".join(lines[:i] + lines[i+1:]))
        for i in range(len(lines)):
            for j in range(i + 2, min(len(lines), i + 6) + 1):
                out.append("".join(lines[:i] + lines[j:]))
        return [[fields[0], hexs(t)] + fields[2:] for t in dict.fromkeys(out)][:600]

    def shrink_field(self, stream):
        return 1

PROP = C20()
