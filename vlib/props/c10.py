import os, re
from ..run import Prop
from .. import gen, gen_relgrammar as G, core
from ..core import rec_fields, unhex, hexs

def repo_is_prefix():
    """True when the repository under test still has the lossless parser from before the fixes
    0eb8794 / 43dd02f (recognised by the old code of the version clause in fn parse).  Then the
    faithful model of the text streams is RelParsePre.v."""
    try:
        src = open(os.path.join(core.REPO, "debian-control/src/lossless/relations.rs"), encoding="utf-8").read()
    except OSError:
        return False
    flat = re.sub(r"\s+", " ", src)
    old = ('if self.current() == Some(IDENT) { self.bump(); } else { self.error("Expected version".to_string()); } '
           'if self.current() == Some(R_PARENS) {')
    return old in flat


class C10(Prop):
    id = "C10"
    coq_targets = ["props/C10.vo"]
    props_file = "props/C10.v"
    design_ref = "DESIGN.md §4 C10"
    level_text = (
        "Coq theorems over every well-formed abstract relationship field (RelGrammar.rfield with wf_rfield: Debian Policy 7.1 grammar, "
        "arbitrary names/versions/architectures/profiles over [A-Za-z0-9.+~-]+, the five operators, optional canonical epoch (then further "
        "colons in the version), [!]arch lists, <[!]profile ...> groups, empty entries, trailing comma, ${subst:vars} where enabled, an "
        "arbitrary SP/TAB/LF run in every whitespace slot; no bound on any length or count). LOSSLESS clause: the lexer produces exactly "
        "rtoks f (C10_lex), the parser builds exactly rtree_of f with no error (C10_parse_tokens), parse_relaxed/from_str succeed with that "
        "tree and print back the text (C10_lossless, C10_from_str), and the accessors entries/relations/name/archqual/version/architectures/"
        "profiles/substvars report exactly the written content, negated architectures included, for EVERY well-formed field (C10_content, "
        "C10_full_holds). LOSSY clause, also proved, DOMAIN = every well-formed field WITHOUT SUBSTITUTION VARIABLES (wf_rfield false; the lossy "
        "reader has no substitution variables: C10_lossy_substvar_needed), every whitespace slot any SP/TAB/LF run: the lossy reader (C14's model "
        "RelLossy.v as patched by proposed_fixes/C14-lossy-newlines.patch: split(','), trim, split('|'), trim, a lexer run per relation, the token "
        "reader with NEWLINE as white space and white space skipped after the ':' of a qualifier, C14's debversion model) returns exactly the "
        "content (C10_lossy, C10_lossy_full_holds, C10_lossy_value) = what the lossless accessors report (C10_lossy_agrees_with_lossless). Before "
        "that patch the lossy reader REJECTED a line break inside a relation and a blank after a qualifier's ':' -- twelve counterexamples to this "
        "clause on the code of the time (C10_lossy_old_newline_refuted, against RelLossy.oldnl_*); an earlier version of this cone had excluded them "
        "by a domain predicate. History lemmas about the lossless code before the fixes this property led to: C10_prefix_epoch_refuted, "
        "C10_prefix_space_refuted, C10_prefix_arch_negation_refuted. "
        "IMAGE of the reader: every text read with zero errors (any string, both allow_substvar settings) is the rendering of exactly one "
        "LIBERAL layout (RelGrammarAll.afield: white space token lists incl. CR, any </>/= run or none as operator, any non-empty IDENT/':' run "
        "as version, any '!'/name sequence in [...], any name | '!' ws name sequence in <...>, also empty, any IDENT/':' run in ${...}) whose tree "
        "is the tree read and whose content, with the accessors' documented panics, is what the accessors report (C10_image, C10_image_sound, "
        "C10_image_iff, C10_image_unique); the well-formed fields embed (C10_image_embeds); the lexer's outputs are characterised (C10_lexable); "
        "on EVERY tree the accessor model of cone C11 (RelEdit.structure) yields the same entries/alternatives as racc (C10_acc_is_structure, C10_image_structure). "
        "Nothing is partial. Outside the grammar (hence outside these theorems, recorded in docs/cones/C10.md): ${...} is admitted only as a whole "
        "entry (\"pkg (= ${binary:Version})\" is read with errors and name() panics on the relaxed tree); \"<! x>\" is read without error but "
        "profiles() returns [Disabled(\"\"), Enabled(\"x\")] (finding profile-not-space, fix proposed).")
    level_note = ("Model: Lexer (debian-control/src/relations.rs), fn parse and the read accessors of debian-control/src/lossless/relations.rs "
                  "(coq/model/RelLex.v, RelParse.v, RelAcc.v); lossy reader: debian-control/src/lossy/relations.rs as modelled by the cone of C14 "
                  "(coq/model/RelLossy.v, tied to the code by C14's streams and by this cone's rel-doc stream); "
                  "specification: coq/model/RelGrammar.v (rrender, wf_rfield, rtoks, rtree_of, rcontent, lossy_dom) and "
                  "coq/model/RelGrammarAll.v (lexable, afield, arender, awf, atree_of, acontent, lib_of).")
    rule = ("rel-doc: systematic small fields (every combination of optional parts x trailing whitespace x position) + random inhabitants of "
            "RelGrammar.rfield in four whitespace styles (text rendered by the generator and re-rendered by the extracted rrender, wf_rfield and "
            "lossy_dom (= no substitution variables) checked by the extracted definitions), implementation compared with rcontent; the lossy reader "
            "is run on EVERY generated field without substitution variables and its value compared with the lossless accessors' on the implementation; rel-doc-model: the same texts through the model of parser+accessors; rel-acc: "
            "regression texts + corpus + all strings of length <= n over the 21-symbol relation alphabet (n=3 quick, 4 thorough) + rendered "
            "fields and their mutations, model of parser+accessors against the implementation (panic sites included); "
            "non-trivial = a relation with at least one optional part")
    trusted = ["Coq 8.16.1 kernel",
               "RelGrammar.v as the definition of 'well-formed relationship field' and of its content",
               "hand transcription of lexer/parser (RelLex.v, RelParse.v; also validated by C09's rel-parse stream) and of the accessors "
               "(RelAcc.v), tied to the code by the rel-acc and rel-doc-model streams on every run",
               "debversion 0.4.4 Version::from_str + Display modelled as RelAcc.debversion_roundtrip (text unchanged except a canonically "
               "re-printed epoch; errors when the epoch does not fit u32); VersionConstraint/BuildProfile::from_str transcribed",
               "rowan children()/children_with_tokens()/text() modelled on the inductive tree",
               "the lossy reader and debversion as modelled by the cone of C14 (coq/model/RelLossy.v: str::split / trim, Relation::from_str, dv_parse / dv_print), "
               "validated by C14's correspondence streams and, for this property, by the lossy= part of rel-doc on every case",
               "extraction (ExtrOcamlBasic only), OCaml runner (incl. the field decoder in runner/s_relgrammar.ml), Rust harness, Python driver and generator"]
    assumptions = ["inputs are valid UTF-8 (Rust &str)",
                   "names, versions, architecture and profile names are non-empty strings over [A-Za-z0-9.+~-]; an epoch is a canonical decimal <= 4294967295",
                   "terms inside [...] and <...> are separated by at least one whitespace character; whitespace is SP, TAB or LF",
                   "the lossless reader is the one of /repo 4b18f7c or later (fixes 0eb8794, c2fa7c8, 4b18f7c, 43dd02f, 541b0f5)",
                   "the lossy reader is the one of /repo with proposed_fixes/C14-lossy-newlines.patch (folded fields); lossy clause: no substitution variables",
                   "a substitution variable is a whole entry (\"${misc:Depends}\"), never part of a relation; \"!\" is directly followed by its name",
                   "the upstream part of a version contains colons only when there is an epoch (Policy 5.6.12)"]

    def streams(self, tier, rng):
        docs = G.doc_cases(tier, rng, "d")
        yield "rel-doc", docs
        if repo_is_prefix():
            # the code under test lacks the proposed fix: rel-doc reports the property violations;
            # the text stream is compared with the faithful model of the code as it is
            core.log("[C10] the repository under test predates the fixes 0eb8794/43dd02f/541b0f5: "
                     "text stream compared with the pre-fix model (RelParsePre.v)")
            yield "rel-acc-pre", G.text_cases(tier, rng, "t")
            return
        k = {"quick": 2500, "search": 6000, "thorough": 40000}[tier]
        yield "rel-doc-model", [(cid.replace("d", "m", 1), fs) for cid, fs in docs[:k]]
        yield "rel-acc", G.text_cases(tier, rng, "t")

    # ---- the property predicate on the implementation's record
    def oracle(self, stream, fields, impl):
        if impl in ("PANIC", "HANG", "ABORT", "MISSING"):
            return "implementation " + impl
        r = rec_fields(impl)
        if stream != "rel-doc":
            for k in ("e1", "e0"):
                if r.get(k) in ("HANG", None):
                    return f"implementation {r.get(k)} in {k}"
            return None
        f = G.decode(fields[1])
        subst = G.has_subst(f)
        if r.get("e1") != "0":
            return f"parse_relaxed(s, true) reports {r.get('e1')} error(s) on a well-formed field"
        if not subst and (r.get("e0") != "0" or r.get("strict") != "OK"):
            return "from_str rejects a well-formed field"
        if not subst and (r.get("acc0") != "=" or r.get("sv0") != "="):
            return "readers with and without allow_substvar disagree on a field without substitution variables"
        if r.get("sv") != G.substvars_record(f):
            return "substvars() differs from the substitution variables written"
        if r.get("acc") != G.content_record(f):
            return "accessors differ from the content written"
        if fields[2] == "1" and r.get("lossy") != r.get("acc"):
            return "lossy reader disagrees with the lossless reader"
        return None

    def nontrivial(self, stream, fields, impl):
        if stream == "rel-doc":
            return any(x in impl for x in (",q:+", ",v:g", ",v:l", ",v:e", ",a:+", ",p:<"))
        return impl.count("n:") >= 1

    def shrink_field(self, stream):
        return 0 if stream in ("rel-acc", "rel-acc-pre") else None

    def neighbours(self, stream, fields):
        if stream not in ("rel-acc", "rel-acc-pre"):
            return []
        s = unhex(fields[0])
        out = []
        for i in range(len(s) + 1):
            out.append(s[:i])
            for c in gen.REL_ALPHABET:
                out.append(s[:i] + c + s[i:])
                if i < len(s): out.append(s[:i] + c + s[i+1:])
        return [[hexs(x)] for x in dict.fromkeys(out)][:3000]

    # no known finding classes: the three lossless defects (epoch / colons in a version, whitespace
    # before ')', '!' dropped by architectures()) and the four lossy ones found by this cone are
    # fixed in /repo (0eb8794 c2fa7c8 4b18f7c 43dd02f 541b0f5 / a2c6991 7cd890b 3e262bf); a regression is a VIOLATION

PROP = C10()
