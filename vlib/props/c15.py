from ..run import Prop
from .. import gen_accessor as ga, core
from ..core import rec_fields, unhex, hexs
import re

def parse_items(s):
    """'6b=76,6b=76' -> [(k, v)]"""
    if s in ("", "-"): return []
    return [(unhex(a.split("=")[0]), unhex(a.split("=")[1])) for a in s.split(",")]

def parse_doc(s):
    return [parse_items(p) for p in re.findall(r"\[([^\]]*)\]", s)]

def read_paragraphs(text):
    """a plain deb822 reader for the generator's own well-formed texts: [(items, comment lines)] per paragraph"""
    paras = []; cur = None
    for line in text.split("\n"):
        if line == "":
            if cur: paras.append(cur)
            cur = None; continue
        if line.startswith("#"):
            if cur is not None: cur[1].append(line)
            continue
        if cur is None: cur = ([], [])
        if line[0] in " \t":
            if cur[0]:
                k, v, first = cur[0][-1]
                cur[0][-1] = (k, line.lstrip(" \t"), False) if first and v == "" else (k, v + "\n" + line.lstrip(" \t"), False)
        else:
            k, _, v = line.partition(":")
            cur[0].append((k, v.lstrip(" \t"), True))
    if cur: paras.append(cur)
    return [([(k, v) for k, v, _ in its], cs) for its, cs in paras]

def comment_lines(text):
    return [l for l in text.split("\n") if l.startswith("#")]

def canon_raw(v):
    ls = v.split("\n")
    return all(l != "" and l == l.strip(" \t") and "\r" not in l for l in ls) and not any(l.startswith("#") for l in ls[1:])

def wraps_option(codec):
    if codec in ("CStr", "CYesNoLower", "CEnv", "COrigin", "CLicense"): return True
    if codec.startswith("(CParse"): return True
    if codec.startswith("(CSplit") and codec.endswith("ANone)"): return True
    if codec.startswith("(CLines") and codec.endswith("false)"): return True
    return False

def takes_option(row):
    return row["op"] == "OSetOrRemove" and row["codec"] != "CYesRemove"

class C15(Prop):
    id = "C15"
    coq_targets = ["props/C15.vo"]
    props_file = "props/C15.v"
    design_ref = "DESIGN.md §4 C15, §5 rows 20-21"
    level_text = ("Coq theorems over every row table, every paragraph tree and every external-crate parser: for each getter/setter pair "
                  "satisfying the decidable ok_pair (same literal = the name in spec/field_names.tsv, set/remove not insert, codec pair "
                  "in the round-trip catalogue) and every valid value, the getter returns the value after the setter, exactly one field of "
                  "that name holds it, every other field keeps name, value and position, every other child of the paragraph node (comments) is "
                  "untouched; clearing setters remove the field; sequences of setters (induction); getter readings of rendered comma-, "
                  "whitespace-, line-separated lists, flags (Rules-Requires-Root: no / binary-targets / keyword list, no panic), checksum "
                  "triples, first description line, relationship fields (total, substitution variables included) for every layout; "
                  "Control::source/binaries select by Source/Package; hand models for DEP-3 description/author/bugs, copyright Header::fix, "
                  "Source::vcs. The instance ok_accessors Accessors_gen.spec Accessors_gen.table = true is closed by vm_compute over the "
                  "table the translator regenerates from /repo on every run. "
                  "WHAT 'RETURNS THAT VALUE' MEANS HERE: a value of a typed argument (Relations, debversion::Version, url::Url, chrono "
                  "DateTime/NaiveDate, the keyword enums) is REPRESENTED BY ITS Display TEXT, in the model and in both sides of the stream. "
                  "So the theorems and the stream say 'the getter returns a value with the same Display text as the one set'; information "
                  "Display drops (sub-second part of a DateTime in set_date/set_valid_until — to_rfc2822 prints whole seconds; anything two "
                  "different values of an external type print alike) is outside the claim, and 'parse . Display = identity on Display texts' "
                  "is assumed of url/debversion/chrono. "
                  "WHERE THE FIELD NAMES COME FROM: spec/field_names.tsv was written without access to the documents; for the rows without "
                  "exception flag the name IS title_hyphen(method name), i.e. derived from the code, only the flagged rows are independent "
                  "of it; an audit found and corrected two names that had been copied from the code (No-Support-for-Architecture-all, "
                  "Reviewed-by); the names were then compared with the ones /repo's lossy structs declare. "
                  "EXCLUDED FROM THE QUANTIFIER (all named in `assumptions`): DEP-3 set_long_description on a header without description "
                  "is a recorded finding (theorem outside the class + witness).")
    level_note = ("Model: coq/model/Accessors.v gives every generated row a meaning over the paragraph model of C04 (Deb822Edit.para_set/"
                  "para_insert/para_remove, list laws proved for every tree). External crates url, debversion, chrono are parameters of "
                  "the theorems (any parser), validated on canonical texts by the stream.")
    rule = ("accessor: every (getter, setter) pair of the regenerated table x prior paragraph state (absent, only, between other fields, "
            "comments around, first/last, unterminated last line, second paragraph of the document, duplicate) x generated valid values "
            "(incl. clearing, relationship fields with ${substitution:variables}, License::Text) as G,S,G,re-read,G; getters without "
            "setter on generated raw text; rendered list/flag/triple/relations layouts with the expected reading (Rules-Requires-Root: "
            "no, binary-targets, keyword lists); random setter sequences on one paragraph; a malformed stream (ill-typed raw text, broken "
            "documents, unknown methods, wrong paragraph index). control-select: every arrangement of <= 3 (4) paragraphs over 4 kinds + "
            "random documents. accessor-table: the Rust dispatch and the Coq table list the same functions (both written by the same "
            "translator run) AND an independent regular-expression count of `pub fn` per source file agrees with the table. "
            "non-trivial = a setter ran or a field was read")
    trusted = ["Coq 8.16.1 kernel",
               "translate/accessors.py (closed template catalogue, pinned by translate/fixtures; its output is re-validated against the real functions by the accessor stream on every run). It writes BOTH the Coq table and the Rust dispatch harness/src/s_accessor_gen.rs, so agreement of those two lists is not evidence of completeness; completeness is checked by an independent scan in vlib/props/c15.py (oracle_table)",
               "spec/field_names.tsv: the field names and readings are specification, written from memory of Policy/DEP-3/DEP-5/repository format; for rows without exception flag they coincide with title_hyphen(method) and are therefore not independent of the code",
               "hand transcription of Paragraph::{get,set,insert,remove,rename} (C04's model), of the codecs in coq/model/Accessors.v and of the hand-modelled functions",
               "external crates url / debversion / chrono: parse . Display = identity on Display texts (assumed; the theorems quantify over every parser, validity of a value = its text reads back); typed values are represented by their Display text",
               "extraction (ExtrOcamlBasic only), OCaml runner, Rust harness (dispatch generated by the translator), Python driver"]
    assumptions = ["values are valid for their codec (Accessors.valid_value / valid_plain): comma lists non-empty with items free of ',' and of leading/trailing blanks; whitespace lists of non-empty blank-free words; line lists non-empty with items free of LF; checksum records of blank-free non-empty words and sizes below 2^64; Forwarded::Yes(s) with s not 'no'/'not-needed'; AppliedUpstream::Other(s) / Origin::Other(s) with s not starting 'commit:'; an Origin without category whose text does not start with '<category>, ' and is not a category word; License::Name(n) with n free of LF, License::Named(n, t) with n non-empty and free of LF (every License::Text is valid); Environment keys free of '=' and LF, values free of LF, neither ending in CR; usize below 2^64; keyword enums: one of the Display texts; url/debversion/chrono values: texts that read back to themselves",
                   "typed values are compared by Display text (what Display drops, e.g. sub-seconds of set_date, is not observed)",
                   "count: 'exactly one field' is claimed when the field occurs at most once before the setter runs (with duplicates set() replaces the first occurrence only; stated as count = max 1 (count before))",
                   "re-read clause (C15_reread, and the oracle's G after R): the written text is in C04's domain canon_kv (non-empty lines without LF/CR that do not begin with a blank, continuation lines not beginning with '#', non-empty first line). Outside it the live object still obeys the theorems but the printed text re-reads differently: License::Text (empty first line), set_environment (trailing newline), values with empty or blank-edged lines",
                   "DEP-3 description/long_description/author: not both alternative fields present (Description+Subject, Author+From): setters look for Subject/From first, getters for Description/Author first (C15_dep3_description_both_needed shows the hypothesis is necessary; such headers are not generated in the judged stream)",
                   "DEP-3 set_long_description: a description field exists (otherwise recorded finding c15-dep3-long-description-without-description; generated and reported as KNOWN-FINDING)",
                   "getters that unwrap() a parse (usize, MultiArch, Urgency, Version, checksum records, Environment lines, FilesParagraph::files on a paragraph without Files, Changes::get_pool_path) panic on ill-typed raw text: the judged stream feeds them well-typed text only; the panics are modelled (Panic n) and compared in accessor-any. Relationship fields and Rules-Requires-Root no longer belong to this list (fixed)",
                   "dep3 Forwarded/AppliedUpstream/Origin and copyright License are compared structurally (tag + payload), everything else typed by Display text"]
    case_ms = 8000

    def __init__(self):
        self._rows = None
    def rows(self):
        if self._rows is None:
            self._rows = ga.load_table()
            self._by = {(r["ty"], r["method"]): r for r in self._rows}
        return self._rows

    @property
    def extra_coverage(self):
        rows = self.rows()
        prs = ga.pairs(rows)
        return {"accessor_rows": len(rows),
                "getters": sum(1 for r in rows if r["role"] == "RGetter"), "setters": sum(1 for r in rows if r["role"] == "RSetter"),
                "getter_setter_pairs": sum(1 for g, s in prs if g is not None),
                "hand_modelled": sorted(f'{r["ty"]}::{r["method"]}' for r in rows if "CHand" in r["codec"] and r["role"] != "ROther"),
                "unrecognised": sorted(f'{r["ty"]}::{r["method"]}' for r in rows if "Unrecognised" in r["codec"] or r.get("unrecognised")),
                "shipped_defect_rows": sorted(f'{r["ty"]}::{r["method"]}' for r in rows if ".shipped" in r["codec"] or r["op"] == "OInsert")}

    def streams(self, tier, rng):
        rows = self.rows()
        nv = {"quick": 3, "search": 6, "thorough": 60}[tier]
        yield "accessor-table", [("t0", ["-"])]
        yield "accessor", self.corpus_cases(("observation",), False)
        yield "accessor-any", self.corpus_cases(("observation",), True)
        yield "accessor", ga.pair_cases(rows, rng, nv)
        yield "accessor", ga.getter_only_cases(rows, rng, max(1, nv // 2))
        yield "accessor", ga.reading_cases(rows, rng, nv * 4)
        yield "accessor", ga.vcs_cases(rows, rng, {"quick": 300, "search": 600, "thorough": 5000}[tier])
        yield "accessor", ga.sequence_cases(rows, rng, {"quick": 1500, "search": 4000, "thorough": 100000}[tier], 4 if tier != "thorough" else 6)
        yield "accessor-any", ga.malformed_cases(rows, rng, {"quick": 3000, "search": 8000, "thorough": 200000}[tier])
        yield "accessor-any", ga.wild_setter_cases(rows, rng, {"quick": 2000, "search": 6000, "thorough": 150000}[tier])
        yield "accessor-any", ga.pool_path_cases(rows)
        yield "accessor-any", ga.exhaustive_raw_cases(rows, {"quick": 3, "search": 3, "thorough": 4}[tier])
        yield "control-select", ga.control_cases(rng, {"quick": 1500, "search": 4000, "thorough": 100000}[tier], tier)

    def corpus_cases(self, skip_prefixes, only_skipped):
        """corpus/c15/*.json: the recorded failing inputs of the defects found (judged by the oracle) and the
        recorded observations (correspondence only)"""
        import glob, json, os
        out = []
        for f in sorted(glob.glob(os.path.join(core.VERIF, "corpus", "c15", "*.json"))):
            name = os.path.basename(f)[:-5]
            o = json.load(open(f))
            if o.get("stream") != "accessor": continue
            if name.startswith(skip_prefixes) != only_skipped: continue
            out.append(("corpus-" + name, o["fields"]))
        return out

    # ------------------------------------------------------------------ oracle
    def oracle(self, stream, fields, impl):
        if impl in ("HANG", "ABORT", "MISSING"):
            return "implementation " + impl
        if stream == "accessor-table":
            return self.oracle_table(impl)
        if stream == "control-select":
            return self.oracle_control(fields, impl)
        cid_ops = fields[3:]
        wf = stream == "accessor"
        if impl == "PANIC":
            return "implementation PANIC on a well-formed case" if wf else None
        if impl in ("NOPARSE", "NOOBJ", "NOTYPE"):
            return ("typed view could not be built: " + impl) if wf else None
        if not wf:
            return None
        self.rows()
        ty = fields[0]; text = unhex(fields[1]); pidx = int(fields[2])
        r = rec_fields(impl)
        outs = r.get("ops", "").split("/")
        if len(outs) != len(cid_ops): return "wrong number of op results"
        paras = read_paragraphs(text)
        kind_idx = pidx
        if ty == "copyright::FilesParagraph": kind_idx = 1
        if ty == "copyright::LicenseParagraph": kind_idx = 2
        if kind_idx >= len(paras): return None
        items = list(paras[kind_idx][0])
        # replay the ops with the property's expectations.  The expectation is derived from the method
        # NAMES (set_x then x) and the value alone, not from what the translator recognised, so a body the
        # translator no longer understands is still judged.
        last_set = {}      # getter method -> (field or None, setter method, value text)
        touched = set()
        cleared = set()
        reread_seen = False
        self._no_reread = False
        names0 = [k for k, _ in items]
        for idx_op, (op, out) in enumerate(zip(cid_ops, outs)):
            p = op.split("~")
            if p[0] == "S":
                row = self._by.get((ty, p[1]))
                if out != "ok": return f"setter {p[1]} did not run: {out}"
                flds = row["fields"] if row else []
                # "clearing setters remove the field": set_x(None) on a setter that stores in ONE named field
                if len(p) > 3 and len(flds) == 1:
                    if p[3] == "N" and row and row["op"] == "OSetOrRemove": cleared.add(flds[0])
                    else: cleared.discard(flds[0])
                elif not flds: cleared.clear()
                for f in flds: touched.add(f)
                if not flds: touched.add("*")
                gm = p[1][4:] if p[1].startswith("set_") else None
                if p[1] == "set_vendor_bug": gm = "vendor_bugs"
                if p[1] == "set_upstream_bug": gm = "bugs"
                # a later setter of the same field invalidates earlier expectations on that field
                for m, (fld, _, _) in list(last_set.items()):
                    if fld is None or fld in flds or not flds: del last_set[m]
                if gm is not None and (ty, gm) in self._by:
                    if p[1] in ("set_description", "set_long_description", "set_author") and self.both_alternatives(p[1], names0): continue
                    last_set[gm] = (flds[0] if flds else None, p[1], p[3])
                    # a License::Text is written with an empty first line, which a deb822 file cannot carry: the live
                    # object reads it back, the re-read text does not (named assumption "re-read: C04's domain")
                    if p[1] == "set_license" and p[3].startswith("L." + hexs("Text")): self._no_reread = True
            elif p[0] == "G":
                if p[1] in last_set:
                    fld, sm, v = last_set[p[1]]
                    if not self.acceptable(sm, out, v, names0):
                        return (f"{ty}::{p[1]}() after {'re-reading the printed text after ' if reread_seen else ''}{sm}: "
                                f"got {out[:80]}, the value set was {v[:80]}")
            elif p[0] == "E":
                prev = outs[idx_op - 1]
                if prev != p[1]:
                    return f"{ty}::{cid_ops[idx_op - 1].split('~')[1]}() on rendered raw text: got {prev[:80]}, documented reading {p[1][:80]}"
            elif p[0] == "R":
                if out not in ("reread", "-"):
                    # a paragraph whose last field was cleared prints nothing: no paragraph to re-read
                    if out == "NOOBJ" and r.get("rr") in ("OK:", "-"): break
                    return "the printed text does not re-read: " + out
                reread_seen = True
                if self._no_reread: last_set.clear()
        # frame: fields not named by any setter keep name, value and order; comments stay
        if r.get("live", "-") != "-":
            for f in sorted(cleared):
                if any(k == f for k, _ in parse_items(r["live"])):
                    return f"field {f} is still there after the clearing setter"
        if r.get("live", "-") != "-" and "*" not in touched:
            live = parse_items(r["live"])
            before = [(k, v) for k, v in items if k not in touched and not self.hand_touched(ty, cid_ops, k)]
            after = [(k, v) for k, v in live if k not in touched and not self.hand_touched(ty, cid_ops, k)]
            if before != after:
                return "a field the setters do not name changed: %r -> %r" % (before[:4], after[:4])
            for f in touched:
                nb = sum(1 for k, _ in items if k == f); na = sum(1 for k, _ in live if k == f)
                if nb <= 1 and na > 1:
                    return f"field {f} occurs {na} times after the setter"
        if r.get("text", "-") != "-":
            # (a DEP-3 header is printed as its paragraph only: comments in front of it are not part of the text)
            want = paras[kind_idx][1] if ty == "dep3::PatchHeader" else comment_lines(text)
            if comment_lines(unhex(r["text"])) != want:
                return "a comment line changed"
        return None

    @staticmethod
    def both_alternatives(setter, names):
        alt = {"set_author": ("Author", "From")}.get(setter, ("Description", "Subject"))
        return alt[0] in names and alt[1] in names

    @staticmethod
    def acceptable(setter, out, v, names0):
        """is `out` the getter's way of saying the value v that was set?"""
        if setter == "set_vendor_bug":
            return out == "L." + v[1:] or (sum(1 for n in names0 if n == "Bug-Debian") > 1 and ("." + v[1:]) in out)
        if setter == "set_upstream_bug":
            return ("s2d,n0,s" + v[1:]) in out
        if out == v or out == "O" + v: return True
        if v == "N" and out in ("N", "R", "L", "B0"): return True
        return False

    SOURCE_OF = {"control": "debian-control/src/lossless/control.rs", "apt": "debian-control/src/lossless/apt.rs",
                 "changes": "debian-control/src/lossless/changes.rs", "buildinfo": "debian-control/src/lossless/buildinfo.rs",
                 "copyright": "debian-copyright/src/lossless.rs", "dep3": "dep3/src/lossless.rs"}
    def oracle_table(self, impl):
        """the dispatch and the Coq table are written by the same translator run, so their agreement says little;
        this is an INDEPENDENT count: `pub fn <name>` lines of each source file (plain regular expression on the text
        outside `mod tests` and comments) against the rows of that file's types"""
        import collections, os
        rows = collections.Counter()
        for item in impl.split(","):
            ty, m, role = item.rsplit(".", 2)
            rows[(ty.split("::")[0], m)] += 1
        for mod, path in self.SOURCE_OF.items():
            try:
                txt = open(os.path.join(core.REPO, path)).read()
            except OSError:
                return f"cannot read {path}"
            txt = txt.split("#[cfg(test)]\nmod test")[0]
            lines = [l for l in txt.split("\n") if not l.lstrip().startswith("//")]
            found = collections.Counter(re.findall(r"^\s*pub(?:\([a-z]+\))? (?:const |async |unsafe )*fn (\w+)", "\n".join(lines), re.M))
            mine = collections.Counter({m: c for (md, m), c in rows.items() if md == mod})
            if found != mine:
                diff = sorted((found - mine).items()) + sorted((mine - found).items())
                return f"{path}: the table and an independent scan for `pub fn` disagree on {diff[:6]}"
        return None

    def hand_touched(self, ty, ops, k):
        """fields a hand-modelled setter may touch"""
        for op in ops:
            p = op.split("~")
            if p[0] != "S": continue
            if p[1] == "set_author" and k in ("Author", "From"): return True
            if p[1] in ("set_description", "set_long_description") and k in ("Description", "Subject"): return True
            if p[1] == "set_vendor_bug" and k.startswith("Bug-"): return True
            if p[1] == "fix" and k in ("Format", "Format-Specification"): return True
            if p[1] == "set_tags" and k == "Tag": return True
        return False

    def oracle_control(self, fields, impl):
        if impl in ("PANIC",): return "implementation PANIC"
        text = unhex(fields[0])
        if impl == "NOPARSE": return None
        r = rec_fields(impl)
        # own reading: paragraphs separated by blank lines, field names at line starts
        paras = read_paragraphs(text)
        if str(len(paras)) != r.get("n"): return None       # not one of the plain layouts this oracle reads
        names = [[k for k, _ in p[0]] for p in paras]
        src = next((i for i, n in enumerate(names) if "Source" in n), None)
        bins = [i for i, n in enumerate(names) if "Package" in n]
        got_src = r.get("source", "-")
        if (got_src == "-") != (src is None): return "Control::source(): wrong presence"
        if src is not None and got_src.split(":")[0] != str(src): return f"Control::source() is paragraph {got_src.split(':')[0]}, the first paragraph with a Source field is {src}"
        got_bins = [b.split(":")[0] for b in r.get("binaries", "").split(",") if b]
        if got_bins != [str(b) for b in bins]: return f"Control::binaries() = paragraphs {got_bins}, those with a Package field are {bins}"
        return None

    def nontrivial(self, stream, fields, impl):
        return "=" in impl and ("ok" in impl or "O" in impl)

    def shrink_field(self, stream):
        return None

    def known_class(self, stream, fields, impl, model, why):
        if stream == "accessor" and fields[0] == "dep3::PatchHeader" and why and "after set_long_description" in why and "re-reading" not in why:
            text = unhex(fields[1])
            names = [k for p_ in read_paragraphs(text)[:1] for k, _ in p_[0]]
            if "Description" not in names and "Subject" not in names:
                return "c15-dep3-long-description-without-description"
        return None

    def neighbours(self, stream, fields):
        if not stream.startswith("accessor"): return []
        # the same ops on the other prior states of the paragraph
        out = []
        ops = fields[3:]
        sets = [o for o in ops if o.startswith("S~")]
        for k in range(len(ops)):
            out.append(fields[:3] + ops[:k] + ops[k + 1:])
        return out[:200]

PROP = C15()
