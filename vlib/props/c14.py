import os
from ..run import Prop
from .. import gen, gen_rellossy as G, core
from ..core import rec_fields, unhex, hexs

BAD = ("PANIC", "HANG", "ABORT", "MISSING", None, "")

def _split(s, sep):
    return s.split(sep) if s != "" else []

# ---------------------------------------------------------------- per-case checks
# every check returns a list of (check id, message); an empty list means the case is fine

def check_value(fields, impl):
    """rel-lossy: value -> text -> value"""
    if impl in BAD: return [("total", "implementation " + str(impl))]
    r = rec_fields(impl)
    rs = G.rels_of(fields[0])
    flat = [x for e in rs for x in e]
    out = []
    one = _split(r.get("one", ""), "&"); oneq = _split(r.get("oneq", ""), ",")
    if r.get("t") in BAD[:4]:
        return [("total", "to_string() " + str(r.get("t")))]
    if r.get("rt") in BAD or any(x in BAD for x in one):
        out.append(("total", "a FromStr entry point did not return (%s)" % ("PANIC" if "PANIC" in impl else "HANG")))
    if r.get("eq") == "PANIC" or "PANIC" in oneq:
        out.append(("eq-panic", "comparing the value read back with the original (==) panicked"))
    if len(one) != len(flat) or len(oneq) != len(flat):
        out.append(("record", "wrong number of per-relation results in the record"))
        return out
    if not G.relations_valid(rs):
        return out
    want = G.rels_s(rs)
    if r.get("rt") != want and r.get("rt") not in BAD:
        out.append(("rt", "Relations::from_str(r.to_string()) != r" + (" (rejected)" if r.get("rt") == "ERR" else "")))
    elif r.get("eq") == "0":
        out.append(("rt", "Relations::from_str(r.to_string()) is not == r"))
    for i, x in enumerate(flat):
        if one[i] != G.rel_s(x) and one[i] not in BAD:
            out.append(("rt1", "Relation::from_str(r.to_string()) != r" + (" (rejected)" if one[i] == "ERR" else "")))
            break
        if oneq[i] == "0":
            out.append(("rt1", "Relation::from_str(r.to_string()) is not == r")); break
    return out

def check_text(fields, impl):
    """rel-lossy-text: text -> value -> text -> value"""
    if impl in BAD: return [("total", "implementation " + str(impl))]
    r = rec_fields(impl)
    out = []
    for k in ("rel", "rels", "relp", "rel2", "relsp", "rels2"):
        if r.get(k) in BAD[:5]:
            out.append(("total", f"implementation {r.get(k)} in {k}")); return out
    if r["rel"] != "ERR":
        if r["rel2"] != r["rel"]:
            out.append(("reread", "a value returned by Relation::from_str is not read back from its own to_string()"))
        if r["rels"] != "R&E/" + r["rel"]:
            out.append(("entry-points", "Relation::from_str accepts the text but Relations::from_str does not read it as that single relation"))
    if r["rels"] != "ERR" and r["rels2"] != r["rels"]:
        out.append(("reread", "a value returned by Relations::from_str is not read back from its own to_string()"))
    return out

def check_conv(fields, impl):
    """rel-lossy-conv: lossy -> lossless -> lossy, lossless reader on the lossy text"""
    if impl in BAD: return [("total", "implementation " + str(impl))]
    r = rec_fields(impl)
    rs = G.rels_of(fields[0])
    flat = [x for e in rs for x in e]
    lossy, lt = _split(r.get("lossy", ""), ","), _split(r.get("lt", ""), ",")
    back, ll = _split(r.get("back", ""), "&"), _split(r.get("ll", ""), "&")
    et, eb = _split(r.get("et", ""), ","), _split(r.get("eb", ""), "&")
    el = _split(r.get("el", ""), "&")
    # "".split gives [] but a list of empty hex strings must keep its length
    def fix(l, n): return l if len(l) == n else (l + [""] * n)[:n] if all(x == "" for x in l) else l
    lossy, lt, et = fix(lossy, len(flat)), fix(lt, len(flat)), fix(et, len(rs))
    if not (len(lossy) == len(lt) == len(back) == len(ll) == len(flat)) or not (len(et) == len(eb) == len(el) == len(rs)):
        return [("record", "wrong number of results in the record")]
    out = []
    for i, x in enumerate(flat):
        if not G.relation_valid(x): continue
        tag = f"#{i}"
        if lt[i] == "PANIC" or back[i] == "PANIC":
            out.append(("conv-panic" + tag, "lossless::Relation::from(lossy) panicked")); continue
        if lt[i] != lossy[i]:
            out.append(("conv-text" + tag, "lossless::Relation::from(lossy).to_string() != lossy.to_string()"))
        if back[i] != G.rel_s(x):
            out.append(("conv-back" + tag, "lossy::Relation::from(lossless::Relation::from(x)) != x"))
        if ll[i] == "PANIC":
            out.append(("ll-panic" + tag, "reading the lossy text with the lossless reader panicked"))
        elif ll[i] == "ERR":
            out.append(("ll-err" + tag, "the lossless reader rejects the text printed by the lossy value"))
        elif ll[i] != G.rel_s(x):
            out.append(("ll-diff" + tag, "the lossless reader reads the printed text as a different structure"))
    k = 0
    for j, e in enumerate(rs):
        n = len(e); texts = lossy[k:k + n]; k += n
        if n == 0 or not all(G.relation_valid(x) for x in e): continue
        tag = f"@{j}"
        if et[j] == "PANIC" or eb[j] == "PANIC":
            out.append(("econv-panic" + tag, "lossless::Entry::from(Vec<lossy::Relation>) panicked")); continue
        if et[j] != hexs(" | ".join(unhex(t) for t in texts)):
            out.append(("econv-text" + tag, "lossless::Entry::from(relations).to_string() is not the alternatives joined by ' | '"))
        if eb[j] != G.entry_s(e):
            out.append(("econv-back" + tag, "Vec<lossy::Relation>::from(Entry::from(relations)) != relations"))
        if el[j] != G.entry_s(e):
            out.append(("eread" + tag, "lossless::Entry::from_str of the alternatives' text does not convert back to them"
                        + (" (rejected)" if el[j] == "ERR" else " (panic)" if el[j] == "PANIC" else "")))
    if rs and G.relations_valid(rs):
        if r.get("ft") in BAD[:4] or r.get("fb") in BAD[:4]:
            out.append(("fconv-panic", "lossless::Relations::from(converted entries) panicked"))
        else:
            if r.get("ft") != hexs(", ".join(" | ".join(unhex(t) for t in lossy[sum(len(x) for x in rs[:j]):sum(len(x) for x in rs[:j + 1])]) for j in range(len(rs)))):
                out.append(("fconv-text", "lossless::Relations::from(converted entries).to_string() is not the lossy text"))
            if r.get("fb") != G.rels_s(rs):
                out.append(("fconv-back", "the entries of the converted field do not convert back to the lossy value"))
        if r.get("fl") != G.rels_s(rs):
            out.append(("fread", "lossless::Relations::from_str of the lossy text does not convert back to the lossy value"))
    return out

def check_debversion(fields, impl):
    if impl in BAD: return [("total", "implementation " + str(impl))]
    r = rec_fields(impl)
    if r.get("v") in BAD: return [("total", "debversion " + str(r.get("v")))]
    if r["v"] != "ERR" and r.get("again") != "1":
        return [("dv-stable", "a parsed debversion::Version is not read back from its own to_string()")]
    return []

CHECKS = {"rel-lossy": check_value, "rel-lossy-old": check_value, "rel-lossy-oldnl": check_value,
          "rel-lossy-text": check_text, "rel-lossy-text-old": check_text, "rel-lossy-text-oldnl": check_text,
          "rel-lossy-conv": check_conv, "debversion": check_debversion}

# ---------------------------------------------------------------- known-finding classes
def explain(stream, fields, check):
    """the known-finding class that explains one failed check of a case, or None"""
    if stream in ("rel-lossy", "rel-lossy-old", "rel-lossy-oldnl"):
        rs = G.rels_of(fields[0])
        if check == "eq-panic" and G.has_big_digit_run(rs):
            return "debversion-eq-digit-run-overflow"
        return None
    # rel-lossy-conv: rows 11 and 12 (lossless reader rejecting an epoch, architectures() dropping '!')
    # and versions with an empty colon-delimited part are fixed in /repo (0eb8794, c2fa7c8, 4b18f7c,
    # 541b0f5): no known class is left there.
    return None

class C14(Prop):
    id = "C14"
    coq_targets = ["props/C14.vo"]
    props_file = "props/C14.v"
    design_ref = "DESIGN.md §4 C14"
    level_text = ('Coq theorems about the lossy relations reader and printers (debian-control/src/lossy/relations.rs of /repo 5517d72 with '
                  'proposed_fixes/C14-lossy-newlines.patch applied: line breaks are white space inside a relation): both FromStr entry points return a value or an error on every '
                  'string (no panic; the fuel of the profile loop suffices) — C14_relation_total, C14_relations_total; for every '
                  'lossy Relation and every Relations value built from valid components (non-empty identifier-character names, '
                  'qualifiers, architecture names possibly negated, profile names possibly negated; any of the optional parts present or '
                  'absent; any number of architectures, profile groups and terms, entries and alternatives; versions whose printed form '
                  'the external debversion parser reads back) reading the printed text returns the value — C14_relation_rt, '
                  'C14_relations_rt, for ANY version parser/printer pair with that law; the law is proved for the concrete model of '
                  'debversion 0.4.4 on Policy-canonical versions (C14_debversion_canonical) giving the closed forms C14_relation_rt_dv, '
                  'C14_relations_rt_dv over a decidable domain. Conversely every value the reader returns, on any string, has valid '
                  'components and non-empty entries (C14_reader_range), so printing it and reading again returns it as soon as the version '
                  'law holds for the versions it contains (C14_relation_reread, C14_relations_reread) — unconditionally for the modelled debversion, '
                  'which reads back whatever it read (C14_debversion_stable, C14_reread_dv: print after read is idempotent on all strings). The unpatched code is kept as RelLossy.old_... and refuted on four '
                  'witnesses (C14_old_..._refuted). Conversion clauses (model RelConv.v: From<lossy::Relation> through cone C11\'s store model of '
                  'RelationBuilder::build, the way back through cone C10\'s accessor model, Entry and field level): the lossless form prints '
                  'exactly the lossy text for EVERY lossy value, without panic (C14_conv_text); converting back returns the value for every '
                  'valid value (C14_conv_back); the lossless reader (Relation/Entry/Relations::from_str, parse_relaxed) reads the printed text '
                  'as the same structure for EVERY valid value, also an empty architecture list "[]", an empty profile group "<>" and versions '
                  'with an empty colon part such as "7:1::2" (C14_conv_read, through cone C10\'s image theorem for liberal layouts: the printed '
                  'field is exhibited as a lexable liberal layout whose tokens are the lexer\'s output); the three clauses together are the '
                  'theorem C14_conv_full_holds. Nothing in C14 is partial.')
    level_note = ('Model: coq/model/RelLossy.v (reader over RelLex tokens, Display impls, str::split/trim, debversion 0.4.4 parse/print as a '
                  'modelled external). The model is of the PATCHED code; against an unpatched /repo the check reports the defects.')
    rule = ("rel-lossy: hand-picked corners + every combination of {qualifier, 4 version shapes, 6 architecture lists, 8 profile-group shapes} "
            "+ random values (mostly inside the domain: random identifier strings, Policy-canonical versions incl. epochs up to u32::MAX) "
            "+ values with one component outside the domain (empty/with separators/non-ASCII names, non-canonical versions, empty entries) "
            "+ values whose version has a digit run >= 2^31; rel-lossy-text: repo test literals, corpus, every token sequence of length <= n "
            "after a name over 17 tokens (n=4 quick, 5 thorough), every string <= m over the 21-symbol relation alphabet (m=3/4), every ASCII "
            "character in 15 syntactic positions, every White_Space code point and its neighbours around entries and alternatives (str::trim), printed "
            "values with the layout perturbed (extra blanks, tabs, CR, LF, Unicode spaces, ','-separated profile terms) and mutated; "
            "rel-lossy-conv: the same kinds of values (in-domain, malformed, big digit runs), about half as many random ones; debversion: every string <= 4/6 over {1,0,a,:,-,.,~,+,SP,U+0663} + generated versions "
            "and their mutations. non-trivial = in-domain value with an optional part (value streams) / text that a reader accepts")
    trusted = ["Coq 8.16.1 kernel (coqc; vm_compute only for the concrete witnesses and examples)",
               "hand-written Coq transcription of debian-control/src/lossy/relations.rs (FromStr for Relation/Relations, Display) and of the small impls of debian-control/src/relations.rs, tied to the code by the rel-lossy and rel-lossy-text correspondence streams on every run",
               "the lexer model RelLex (cone C09) and its totality lemma",
               "std: str::split(char), str::trim (char::is_whitespace = White_Space), Peekable iterator as the list of remaining tokens",
               "debversion 0.4.4 Version::from_str / Display / pub fields modelled in Coq (dv_parse, dv_print; the regex read by hand), validated by the debversion stream (incl. non-ASCII digits, u32 overflow) and a third reading in Python; the general theorems do not depend on it",
               "conversions: coq/model/RelConv.v composes cone C11's model of RelationBuilder::build (builder_build_v fixed: in-place splices, /repo 5517d72) / Entry::from / Relations::from (RelEdit.v, rowan store model) and cone C10's accessor and reader models (RelAcc.v, RelParse.v); Relation::version is transcribed again with the structured debversion model; tied to the code by the rel-lossy-conv stream (text, way back, reader, at relation / entry / field level, valid and malformed values)",
               "extraction (ExtrOcamlBasic only), OCaml runner, Rust harness, Python driver; the value syntax is implemented three times (OCaml, Rust, Python)"]
    assumptions = ["inputs are valid UTF-8 (Rust &str)",
                   "round trip: component strings valid for their token class (non-empty, identifier characters); every entry has at least one alternative; each version's printed form consists of identifier characters and ':' and is read back as the same version by debversion (proved for the modelled debversion on Policy-canonical versions: ':' only with an epoch, '-' only with a revision, epoch <= u32::MAX)",
                   "equality of values is structural (name, qualifier, operator, epoch/upstream/revision, architecture list, profile groups) — stronger than the crate's ==, which compares versions semantically"]

    def _old(self):
        return os.environ.get("C14_MODEL") in ("old", "oldnl")

    def streams(self, tier, rng):
        sfx = "-" + os.environ.get("C14_MODEL") if self._old() else ""
        yield "rel-lossy" + sfx, G.value_cases(tier, rng, "v")
        yield "rel-lossy-text" + sfx, G.text_cases(tier, rng, "t")
        if not self._old():
            yield "rel-lossy-conv", G.value_cases(tier, rng, "c", conv=True)
        yield "debversion", G.debversion_cases(tier, rng, "d")

    # ------------------------------------------------------------ oracle
    def oracle(self, stream, fields, impl):
        fails = CHECKS[stream](fields, impl)
        if not fails:
            return None
        return "; ".join(m for _, m in fails)

    def nontrivial(self, stream, fields, impl):
        if stream.startswith("rel-lossy-text"):
            return "rels=ERR" not in impl and "rels=R|" not in impl and impl not in BAD
        if stream == "debversion":
            return "v=ERR" not in impl
        rs = G.rels_of(fields[0])
        return bool(rs) and G.relations_valid(rs) and any(
            r["q"] is not None or r["ver"] is not None or r["archs"] is not None or r["profs"] for e in rs for r in e)

    def known_class(self, stream, fields, impl, model, why):
        """a class only when EVERY failed check of the case is explained by a recorded finding"""
        if stream not in CHECKS: return None
        fails = CHECKS[stream](fields, impl)
        if not fails:
            # a pure correspondence difference: known only where the specification side of
            # rel-lossy-conv differs for an explained reason (the oracle reports those itself)
            return None
        classes = [explain(stream, fields, cid) for cid, _ in fails]
        if all(classes):
            return classes[0]
        return None

    def shrink_field(self, stream):
        return 0 if stream.startswith("rel-lossy-text") or stream == "debversion" else None

    def neighbours(self, stream, fields):
        if stream.startswith("rel-lossy-text") or stream == "debversion":
            s = unhex(fields[0])
            alphabet = G.TOKENS if stream != "debversion" else G.DV_ALPHABET
            out = []
            for i in range(len(s) + 1):
                out.append(s[:i])
                for c in alphabet:
                    out.append(s[:i] + c + s[i:])
                    if i < len(s): out.append(s[:i] + c + s[i+1:])
                if i < len(s): out.append(s[:i] + s[i+1:])
            return [[hexs(x)] for x in dict.fromkeys(out)][:3000]
        rs = G.rels_of(fields[0])
        out = []
        def emit(new): out.append([G.rels_s(new)])
        for i, e in enumerate(rs):
            emit(rs[:i] + rs[i+1:])                                   # entry removed
            for j, r in enumerate(e):
                def put(r2): emit(rs[:i] + [e[:j] + [r2] + e[j+1:]] + rs[i+1:])
                emit(rs[:i] + [e[:j] + e[j+1:]] + rs[i+1:])           # alternative removed
                emit([[r]])                                           # the relation alone
                for k in ("q", "ver", "archs"):
                    if r[k] is not None: put(dict(r, **{k: None}))
                if r["profs"]:
                    put(dict(r, profs=[]))
                    for g in range(len(r["profs"])):
                        put(dict(r, profs=r["profs"][:g] + r["profs"][g+1:]))
                        for t in range(len(r["profs"][g])):
                            grp = r["profs"][g]
                            put(dict(r, profs=r["profs"][:g] + [grp[:t] + grp[t+1:]] + r["profs"][g+1:]))
                            put(dict(r, profs=r["profs"][:g] + [grp[:t] + [(not grp[t][0], grp[t][1])] + grp[t+1:]] + r["profs"][g+1:]))
                if r["archs"]:
                    for a in range(len(r["archs"])):
                        put(dict(r, archs=r["archs"][:a] + r["archs"][a+1:]))
                        put(dict(r, archs=r["archs"][:a] + [r["archs"][a].lstrip("!")] + r["archs"][a+1:]))
                if r["ver"] is not None:
                    op, ep, up, rev = r["ver"]
                    put(dict(r, ver=(op, None, up, rev))); put(dict(r, ver=(op, ep, up, None))); put(dict(r, ver=(op, ep, "1", rev)))
                if len(r["name"]) > 1: put(dict(r, name=r["name"][:1]))
        return out[:3000]

PROP = C14()
