from ..run import Prop
from .. import gen, gen_pgp, core
from ..core import rec_fields, unhex, hexs
from ..gen_pgp import M, B, E

ERRS = ("E:MissingPgpSignature", "E:MissingPayload", "E:TruncatedPgpSignature", "E:JunkAfterPgpSignature")

def _bad(r):
    return r in ("PANIC", "HANG", "ABORT", "MISSING", None, "")

def check_any(inp, r):
    """What C19 says about strip_pgp_signature on an arbitrary text `inp`, given its result `r`
    (canonical form U:/S:/E:).  Mirrors C19_total, C19_unsigned, C19_passthrough_only_unsigned
    and C19_signed_sound; uses an independent Python version of str::lines()."""
    if _bad(r):
        return "implementation " + str(r)
    ls = gen_pgp.rust_lines(inp)
    signed = bool(ls) and ls[0] == M
    if r.startswith("U:"):
        if signed:
            return "text whose first line is the signed-message marker passed through as unsigned"
        if unhex(r[2:]) != inp:
            return "unsigned text not returned unchanged"
        return None
    if not signed:
        return "first line is not the signed-message marker, yet the text was not passed through"
    if r.startswith("E:"):
        if r not in ERRS:
            return "unknown error value " + r
        return None
    if not r.startswith("S:"):
        return "unrecognised result " + r
    _, ph, sh = r.split(":")
    payload, sig = unhex(ph), unhex(sh)
    # soundness: the lines must have exactly the clear-sign shape
    rest = ls[1:]
    if "" not in rest:
        return "signed result although there is no blank line after the headers"
    i = rest.index("")
    rest = rest[i + 1:]
    if B not in rest:
        return "signed result although there is no signature marker"
    j = rest.index(B)
    ps, rest = rest[:j], rest[j + 1:]
    if E not in rest:
        return "signed result although there is no end marker"
    k = rest.index(E)
    ss, rest = rest[:k], rest[k + 1:]
    if rest:
        return "signed result although lines follow the end marker"
    if payload != "".join(l + "\n" for l in ps):
        return "payload returned is not the lines between the blank line and the signature marker"
    if sig != "".join(ss):
        return "signature returned is not the lines between the signature markers"
    return None

def expected_cut(k, hs, ps):
    """the property's prescription for the message cut after k complete lines (k < number of lines)"""
    if k == 0:
        return "U:"
    if k <= 1 + len(hs):
        return "E:MissingPayload"
    if k <= 2 + len(hs) + len(ps):
        return "E:MissingPgpSignature"
    return "E:TruncatedPgpSignature"

class C19(Prop):
    id = "C19"
    coq_targets = ["props/C19.vo"]
    props_file = "props/C19.v"
    design_ref = "DESIGN.md §4 C19"
    level_text = ('Coq theorems over all header / payload / signature line lists of the stated domain (no bound on the number or '
                  'length of lines): unwrapping the wrapped message returns exactly the payload and the concatenated signature lines '
                  '(C19_ok; also without the final newline); text whose first line is not the marker is returned unchanged, and only such '
                  'text is (C19_unsigned, C19_passthrough_only_unsigned); the message cut after any k lines gives "", MissingPayload, '
                  'MissingPgpSignature or TruncatedPgpSignature according to the region of the cut and never a signed result (C19_trunc, '
                  'C19_trunc_never_signed), likewise for a cut after any character (C19_trunc_char, C19_trunc_char_class); any non-empty '
                  'text after the end marker gives JunkAfterPgpSignature (C19_junk). For all strings: a signed result implies the '
                  'clear-sign line structure with exactly that payload and signature (C19_signed_sound) and the function returns a value '
                  'or one of its four errors (C19_total). Domain reading: "LF-terminated lines" excludes lines ending in CR, which '
                  'str::lines() normalises away (C19_cr_needed; the result on CRLF input is proved too: C19_ok_cr). Tied to the code by '
                  'the pgp-strip / pgp-wrap / pgp-cutc correspondence streams.')
    level_note = 'Model: debian-control/src/pgp.rs::strip_pgp_signature; str::lines() as an executable modelled external (coq/model/Pgp.v).'
    rule = ("pgp-strip: corpus (repo test literals, testdata/InRelease, Release, /verif/corpus/pgp) + every sequence of <= n lines over "
            "{signed marker, signature marker, end marker, empty, 'a', '-x', 'a\\r'} both LF-terminated and LF-joined (n=5 quick, 6 thorough) "
            "+ every string of length <= m over {'-','a',LF,CR,SP} (m=6 quick, 8 thorough) + mutated wrapped messages; "
            "pgp-wrap: hand-picked corners + exhaustive small triples + generated (headers, payload, signature) triples inside the domain "
            "(empty payload, blank lines, marker look-alikes, deb822 content, Unicode) and outside it (CR line ends, dash lines, empty "
            "headers, end marker in the signature, LF inside a line), each with the result on the whole message, on every line-boundary "
            "prefix and with appended text; pgp-cutc: every character prefix of generated in-domain messages. "
            "non-trivial = the input starts with the signed-message marker line (pgp-strip) / the triple is in the domain with a "
            "non-empty payload (pgp-wrap, pgp-cutc)")
    trusted = ["Coq 8.16.1 kernel (coqc; vm_compute for finite witnesses and marker facts only)",
               "hand-written Coq transcription of debian-control/src/pgp.rs::strip_pgp_signature, tied to the code by the pgp-strip, pgp-wrap and pgp-cutc correspondence streams on every run",
               "str::lines() (split_inclusive('\\n') + LinesMap) modelled as an executable definition; the `lines=` part of the pgp-strip record compares it with the real std on every case",
               "the Lines iterator modelled as the list of remaining lines (the three loops are structural recursions over it)",
               "extraction (ExtrOcamlBasic only), OCaml runner, Rust harness, Python driver; the message builder `wrap` exists three times (Coq, Rust harness, Python generator) and the stream compares all three"]
    assumptions = ["inputs are valid UTF-8 (Rust &str)",
                   "domain of the wrapped-message clauses (pgp_dom): lines contain no LF and do not end in CR; armour header lines are non-empty; payload lines do not begin with '-'; no signature line equals the end marker (for character-level cuts: none starts with it)"]

    def streams(self, tier, rng):
        yield "pgp-strip", gen_pgp.strip_cases(tier, rng, "s")
        yield "pgp-wrap", gen_pgp.wrap_cases(tier, rng, "w")
        yield "pgp-cutc", gen_pgp.cutc_cases(tier, rng, "c")

    # ------------------------------------------------------------ oracle
    def oracle(self, stream, fields, impl):
        if _bad(impl):
            return "implementation " + str(impl)
        r = rec_fields(impl)
        if stream == "pgp-strip":
            inp = unhex(fields[0])
            why = check_any(inp, r.get("r"))
            if why:
                return why
            if r.get("lines") != gen_pgp.list_field(gen_pgp.rust_lines(inp)):
                return "str::lines() of the input differs from the reference used by the oracle"
            return None
        hs, ps, ss = (gen_pgp.unlist_field(f) for f in fields[:3])
        msg = gen_pgp.wrap(hs, ps, ss)
        if stream == "pgp-wrap":
            extra = unhex(fields[3])
            if r.get("msg") != hexs(msg):
                return "the harness built a different wrapped message than the generator"
            full, junk = r.get("full"), r.get("junk")
            cuts = r.get("cuts", "").split(";")
            nlines = 4 + len(hs) + len(ps) + len(ss)
            if len(cuts) != nlines:
                return "wrong number of line cuts in the record"
            # clauses that hold for every text
            ls = gen_pgp.wrap_lines(hs, ps, ss)
            for x, res in [(msg, full), (msg + extra, junk)] + [(gen_pgp.unlines(ls[:k]), cuts[k]) for k in range(nlines)]:
                why = check_any(x, res)
                if why:
                    return why
            if gen_pgp.in_dom(hs, ps, ss):
                cps, css = ps, ss
            elif gen_pgp.in_dom_cr(hs, ps, ss):
                cps, css = [gen_pgp.chomp_cr(l) for l in ps], [gen_pgp.chomp_cr(l) for l in ss]   # C19_ok_cr
            else:
                return None
            want = "S:%s:%s" % (hexs(gen_pgp.unlines(cps)), hexs("".join(css)))
            if full != want:
                return "unwrapping the wrapped message does not return exactly the payload and the concatenated signature lines"
            for k in range(nlines):
                if cuts[k] != expected_cut(k, hs, ps):
                    return f"message cut after {k} of {nlines} lines: expected {expected_cut(k, hs, ps)}, got {cuts[k][:60]}"
            if extra != "" and junk != "E:JunkAfterPgpSignature":
                return "text after the end marker did not yield JunkAfterPgpSignature"
            if extra == "" and junk != want:
                return "same message, different result"
            return None
        if stream == "pgp-cutc":
            cuts = r.get("cuts", "").split(";")
            if len(cuts) != len(msg) or r.get("n") != str(len(msg)):
                return "wrong number of character cuts in the record"
            if not gen_pgp.in_dom(hs, ps, ss) or any(l.startswith(E) for l in ss):
                return None
            b0 = len(M)
            b1 = len(gen_pgp.unlines([M] + hs))
            b2 = len(gen_pgp.unlines([M] + hs + [""] + ps)) + len(B)
            b3 = len(msg) - 1
            full = "S:%s:%s" % (hexs(gen_pgp.unlines(ps)), hexs("".join(ss)))
            for n in range(len(msg)):
                want = ("U=" if n < b0 else "E:MissingPayload" if n <= b1 else "E:MissingPgpSignature" if n < b2
                        else "E:TruncatedPgpSignature" if n < b3 else full)
                if cuts[n] != want:
                    return f"message cut after {n} of {len(msg)} characters: expected {want[:40]}, got {cuts[n][:60]}"
            return None
        return "unknown stream"

    def nontrivial(self, stream, fields, impl):
        if stream == "pgp-strip":
            ls = gen_pgp.rust_lines(unhex(fields[0]))
            return bool(ls) and ls[0] == M
        hs, ps, ss = (gen_pgp.unlist_field(f) for f in fields[:3])
        return gen_pgp.in_dom(hs, ps, ss) and len(ps) > 0

    def known_class(self, stream, fields, impl, model, why):
        """No finding is recorded for C19: the one suspected defect (DESIGN §5 row 25, CR line ends
        normalised by lines()) is a domain reading (see docs/cones/C19.md), expressed in pgp_dom
        and in this module's oracle, not a known-finding class."""
        return None

    def shrink_field(self, stream):
        return 0 if stream == "pgp-strip" else None

    def neighbours(self, stream, fields):
        if stream == "pgp-strip":
            s = unhex(fields[0])
            out = []
            # every line-boundary prefix, every character prefix, single-character edits
            pos = [i + 1 for i, c in enumerate(s) if c == "\n"]
            for i in pos: out.append(s[:i])
            for i in range(len(s) + 1):
                out.append(s[:i])
                for c in gen_pgp.CHAR_ALPHABET:
                    out.append(s[:i] + c + s[i:])
                    if i < len(s): out.append(s[:i] + c + s[i+1:])
                if i < len(s): out.append(s[:i] + s[i+1:])
            for t in gen_pgp.LINE_TOKENS:
                out.append(s + t + "\n"); out.append(t + "\n" + s)
            return [[hexs(x)] for x in dict.fromkeys(out)][:3000]
        hs, ps, ss = (gen_pgp.unlist_field(f) for f in fields[:3])
        tail = fields[3:]
        out = []
        def add(h, p, s_):
            out.append([gen_pgp.list_field(h), gen_pgp.list_field(p), gen_pgp.list_field(s_)] + tail)
        for which, l in (("h", hs), ("p", ps), ("s", ss)):
            for i in range(len(l) + 1):
                variants = []
                if i < len(l):
                    variants.append(l[:i] + l[i+1:])                       # line removed
                    variants.append(l[:i+1] + l[i:])                       # line duplicated
                    variants.append(l[:i] + [l[i] + "\r"] + l[i+1:])       # CR line end
                    variants.append(l[:i] + [l[i][:-1]] + l[i+1:])         # last character removed
                for t in ["", "a", B, E, M, "-x"]:
                    variants.append(l[:i] + [t] + l[i:])                   # line inserted
                for v in variants:
                    add(v if which == "h" else hs, v if which == "p" else ps, v if which == "s" else ss)
        return out[:3000]

PROP = C19()
