import os, re
from ..run import Prop
from .. import core
from .. import gen_reledit as g
from ..core import rec_fields, unhex, hexs

STALE = "an edit through a handle obtained before an operation that rebuilds its node is not visible in the field"

FIXES = ["insert-first", "append-sep", "pipe", "entry-push", "version-pos", "remove-last", "first-substvar", "replace-ws", "in-place"]

def detect_fixes(repo):
    """which of the proposed fixes (proposed_fixes/C11-*.patch) the repository under test contains,
    read off debian-control/src/lossless/relations.rs; the runner evaluates exactly that variant
    of the model, so that correspondence is judged against the code as it is"""
    try:
        src = open(os.path.join(repo, "debian-control/src/lossless/relations.rs"), encoding="utf-8").read()
    except OSError:
        return None
    flat = re.sub(r"\s+", " ", src)
    found = {
        "insert-first": "if idx == 0 && is_empty {" not in flat,
        "append-sep": "trailing_whitespace" in flat,
        "pipe": 'builder.token(COMMA.into(), "|")' not in flat,
        "entry-push": flat.count("self.0.replace_with(") <= 1,
        "version-pos": "archqual_node.index() + 1" in flat,
        "remove-last": "if parent.is_empty() { parent.remove(); } else { self.0.detach(); }" not in flat,
        "first-substvar": "n.kind() == ENTRY || n.kind() == SUBSTVAR" in flat,
        "replace-ws": "new_head_len" not in flat,
        "in-place": "fn detached_tokens" in flat,
    }
    return [f for f in FIXES if found[f]]

if "VERIF_C11_MODEL" not in os.environ:
    _fx = detect_fixes(core.REPO)
    if _fx is not None:
        os.environ["VERIF_C11_MODEL"] = "fixed" if _fx == FIXES else ("shipped" if not _fx else "fixes:" + ",".join(_fx))
MODEL_VARIANT = os.environ.get("VERIF_C11_MODEL", "fixed")

def split_state(s):
    """'<hex text>:<flags>[:live:reread:entry texts]' -> dict"""
    p = s.split(":")
    d = {"text": unhex(p[0]), "flags": p[1]}
    if len(p) >= 5:
        d["live"], d["reread"], d["et"] = p[2], p[3], p[4]
    return d

def empty_slots(text):
    """number of separators the field could do without: commas beyond the (items - 1) needed
    between its non-empty items (entries and substitution variables)"""
    pieces = text.split(",")
    items = sum(1 for piece in pieces if piece.strip(" \t\r\n") != "")
    return (len(pieces) - 1) - max(items - 1, 0)

def substvars(text):
    return re.findall(r"\$\{[^}]*\}", text)

def entry_texts(d):
    et = d.get("et", "-")
    if et == "-": return []
    return ["" if x == "_" else unhex(x) for x in et.split(".")]

class C11(Prop):
    id = "C11"
    coq_targets = ["props/C11.vo"]
    props_file = "props/C11.v"
    design_ref = "DESIGN.md §4 C11, §3.2 (Rowan), §8"
    level_text = ("Coq theorems (model = the editing API over a store of trees with re-based handles; variant `fixed` = /repo with the eight C11 fixes and proposed_fixes/C11-10, in-place splices): "
                  "(1) for ANY well-formed field in the sense of C10 (RelGrammar.wf_rfield: arbitrary white space in every slot, newlines, empty entries, trailing comma, substitution variables) "
                  "and the empty field, for EVERY in-range history of the twelve operations push, insert, replace, remove_entry, Entry::push, Entry::replace, remove_relation, set_version, "
                  "drop_constraint, set_archqual, set_architectures, add_profile (operands built by Entry::from(vec![Relation::new(..)]) / Relation::new; BUILT operands are made of identifier texts [A-Za-z0-9.+~-] — names, qualifiers, profile names and also versions and architecture names, so a version with an epoch `1:2.0` and a negated architecture `!armel` are outside the theorems about built operands: C11_built_operand_domain_witness; parsed operands have no such restriction), EVERY INDEX in range — where the API unwraps a position (replace, remove_entry, Entry::replace, remove_relation) an out-of-range index is a documented PANIC of the code, which the model reproduces (C11_out_of_range_panics), not a modelled gap —, issued through "
                  "handles obtained from the current root: no panic; after every step the root holds the tree of the layout the abstract operation a_op (model/RelLive.v) produces, that layout is "
                  "well-formed, its content is the list-of-lists model applied to the content before, substitution variables and all entries the operation does not name are untouched, the SEPARATORS follow the slot model of RelEditSpec.v (the commas cut the field into slots holding an entry, a substitution variable or nothing: no slot ever holds two items, a new entry gets exactly one separator, an appended one fills a trailing empty slot, a removed one takes its separator along, nothing else moves; the count of superfluous separators never grows: C11_seps_never_grow), and the printed "
                  "text reads back (parse_relaxed without error; strict from_str when there is no substitution variable) to exactly the list model's content, through C10 "
                  "(C11_any_step, C11_any_history, C11_any_history_from_text, C11_any_reread); "
                  "(1') for constructor-built fields the same with the result spelled out as the canonical tree and text of the list model and read by the accessor model `structure` (C11_history_constructed_reread); "
                  "(2) on ANY children list (any layout, error nodes): Entry::remove/Relation::remove delete the node, adjacent white space and at most one separator and nothing else; "
                  "insert/push add the entry and separator tokens only; the entries after an insert are the list insert; an update below a path leaves the text outside that node alone; "
                  "the store-level effect of Entry::remove through a handle at any path of any tree; the machine computes the pure tree functions of RelEditTree.v on any tree (C11_any_machine_step); "
                  "(3) for each of the 8 defects of the code before the fixes a _refuted theorem (failing history on `shipped` and on the variant lacking only that fix, outcome on `fixed`); "
                  "(4) handles obtained at ANY earlier time (the former finding c11-handle-after-rebuild, repaired by C11-10): for every in-scope program of the eighteen register-machine operations "
                  "through arbitrary registers (model/RelHandles.v: a register holds the root, the i-th entry, the j-th alternative of the i-th entry, an operand, or a node that left the field) "
                  "no panic, the root holds the list model's content after every step, it reads back through C10, and every Entry / Relation handle denotes the entry / alternative the abstract "
                  "reading says, positions shifted by inserts and removals in front of it (C11_handles_step, C11_handles_history, C11_handles_history_field, C11_handles_entry, C11_handles_relation); "
                  "the pre-fix code refutes it (C11_in_place_refuted, C11_in_place_relation_refuted). "
                  "(5) C11_full ITSELF (the property as stated in RelEditSpec.v) is a theorem, C11_full_theorem: from ANY text read without error whose accessors do not panic "
                  "(RelEdit.structure_d = Ok — the accessors WITH debversion's parse of every version text: every operator is one of the five and every version text is a debversion::Version; both needed: C11_full_domain_witness, C11_full_version_domain_witness; C11_full_raw_theorem is the same with version texts as written), every in-range history of the twelve operations with well-formed operands built by Relation::new or RelationBuilder: "
                  "no panic, the root holds exactly the list model's field, substitution variables keep their text, the separators are the slot model's (a conjunct of C11_full: without fix C11-02 or C11-07 every other conjunct holds and this one fails, C11_full_needs_append_sep / _first_substvar), the printed text is read again without error to that same field — "
                  "through C10's image theorem (every error-free text is the rendering of a liberal layout) and the liberal live layouts of model/RelLiveAll.v (the inside of a relation's parts is "
                  "opaque to the edits); the single-step / history / re-read / handle theorems of that development are C11_all_*; one correction of the statement (not of the code): "
                  "operand records with architectures or profiles but no qualifier are built with RelationBuilder (C11_builder_operand_witness). "
                  "(6) The same with operands obtained by PARSING (Entry::from_str / Relation::from_str of ANY text they accept — C11_all_parsed_cover_* — whose accessors do not panic), "
                  "mixed with built ones: C11_all_mixed_step/_history/_full, and in the handle theorems C11_all_handles_* (a register may hold a handle INTO a parsed tree). "
                  "NOT PROVED (stream + oracle): operations through handles into an operand or to a node that has left the field.")
    level_note = ("Model: coq/model/RelEdit.v — the editing API of debian-control/src/lossless/relations.rs over a store of trees and "
                  "re-based handles (rowan 0.16.1 red layer as the code experiences it).")
    rule = ("rel-edit: the repo's own editing tests and one case per known defect; every history of length <= 2 (thorough 3 on fewer seeds) over 62 "
            "operations x 14 seed fields (parsed with assorted layouts, empty entries, substitution variables; constructor-built; empty); random histories "
            "of 1-10 operations (all 14 operations, every way of building operands: parsed with random layout, Relation::new/simple, the builder, "
            "From<lossy::Relation>, Entry::from(vec)/Entry::new+push/parsed) from random well-formed fields, each run through fresh handles, through "
            "handles obtained earlier, and (every 5th) through handles never obtained again; histories whose operands are LIVE handles of the field itself "
            "(push/insert/replace of an entry of the field, Entry::push/replace of a relation of the field: the list model inserts a copy; "
            "known class c11-replace-live-operand-moved: replace moves such an operand); a malformed stream (arbitrary and mutated initial texts, "
            "operand texts and register programs); non-trivial = at least one operation took effect")
    trusted = ["Coq 8.16.1 kernel (vm_compute for the finite witnesses only)",
               "hand transcription of the editing functions of debian-control/src/lossless/relations.rs into coq/model/RelEdit.v, tied to the code by the rel-edit stream on every run",
               "rowan 0.16.1 (red layer: detach/attach/splice_children/replace_with/index/iteration, mutable vs immutable roots; green layer: splice_children/replace_child) as modelled by the store of RelEdit.v",
               "coq/model/RelParse.v, RelLex.v (the reader, proved total and conservative in C09's cone)",
               "debversion::Version FromStr + Display as transcribed in coq/model/RelAcc.v debversion_roundtrip (C10's cone), used by RelEdit.structure_d / version_operand",
               "extraction (ExtrOcamlBasic only), OCaml runner, Rust harness, Python driver and oracle"]
    assumptions = ["the theorems are about the code with proposed_fixes/C11-*.patch applied (the model's `fixed` variant; all of them are committed in /repo: C11-01..08 as 40d0dc3..12709db, C11-10-in-place-splice as 5517d72); on the code without them the check reports the violations (without C11-10: the histories through handles never obtained again)",
                   "indices within range where the API unwraps (replace, remove_entry, Entry::replace, remove_relation): out-of-range indices panic, in the model as in the code — a theorem (C11_out_of_range_panics), a documented behaviour of the API and not a gap of the model",
                   "in the handle theorems (C11_handles_*, C11_all_handles_*) the separator conjunct is field_shape only (the root is the tree of a well-formed layout); the slot history is stated for the histories issued through fresh handles"]
    case_ms = 20000

    extra_coverage = {"model_variant": MODEL_VARIANT}

    def streams(self, tier, rng):
        n = {"quick": 6000, "search": 20000, "thorough": 120000}[tier]
        yield "rel-edit", g.corpus_cases()
        yield "rel-edit", g.small_cases(2 if tier != "thorough" else 2, prefix="x")
        if tier == "thorough":
            yield "rel-edit", g.small_cases(3, seeds=g.SMALL_SEEDS[:5], prefix="y")
        yield "rel-edit", g.history_cases(n, rng, "h")
        yield "rel-edit", g.any_cases(n // 2, rng, "a")
        # operands that are live handles of the field itself (taken by value: must be copied)
        yield "rel-edit", g.live_operand_cases(n // 4, rng, "l")

    # ------------------------------------------------------------ oracle
    def oracle(self, stream, fields, impl):
        if impl in ("PANIC", "HANG", "ABORT", "MISSING", "ERR"):
            return "implementation " + impl
        rec = rec_fields(impl)
        meta = g.decode_meta(fields[2]) if len(fields) > 2 else None
        if meta is None:
            # correspondence-only case; a HANG inside any run is still a failure
            return "implementation HANG" if "HANG" in impl else None
        entries, ops, seed = meta["entries"], meta["ops"], meta["seed"]
        progs, exps, marks = g.compile_programs(entries, ops, seed, frozen=(len(fields) > 5), with_marks=True)
        if progs != fields[3:]:
            return None          # not a generated history any more (shrunk by hand): nothing to say
        for k, prog in enumerate(progs):
            why = self.check_run(k, prog.split(" ") if prog else [], marks[k], ops, exps, entries,
                                 rec.get(f"i{k}"), rec.get(f"s{k}", ""))
            if why:
                return (STALE + ": " + why) if k == 2 else f"{'fresh' if k == 0 else 'earlier'} handles: {why}"
        return None

    def check_run(self, k, instrs, marks, ops, exps, entries, init, steps):
        if init is None: return "no record"
        if init in ("ERR", "PANIC"): return "building the initial field: " + init
        st = split_state(init)
        want0 = g.ListModel(entries).canon()
        if st["live"] != want0 or st["reread"] != want0:
            return "the initial field is not read as written"
        steps = steps.split("/") if steps else []
        for m, ins in enumerate(instrs):
            if m >= len(steps): return "missing step record"
            s = steps[m]
            n = marks[m]
            if s == "PANIC":
                if n is not None and exps[n] is None: return None      # index out of range: the API unwraps
                return f"{ops[n][0]}: {ins.split('/')[0]} panics" if n is not None else f"{ins.split('/')[0]} panics while obtaining a handle or building an operand"
            if n is None:
                out = s.split(":")[0]
                if out in ("g0", "n0") and not any(e is None for e in exps[:self.op_index(marks, m)]):
                    if not self.after_invalid(marks, exps, m):
                        return f"{ins}: the node or operand the list model has is not there ({out})"
                continue
            if exps[n] is None:
                return None          # outside the list model's domain and no panic: nothing further to compare
            out, rest = s.split(":", 1)
            if out not in ("ok", "ok0", "ok1"):
                return f"{ins.split('/')[0]}: outcome {out}"
            new = split_state(rest.rsplit(":", 1)[0])
            op = ops[n]
            name = op[0]
            if new["live"] != exps[n]:
                return f"{name}: the field does not hold what the list operation gives"
            if new["reread"] != exps[n]:
                return f"{name}: the printed field does not parse to the list model ({new['text']!r})"
            if new["flags"][1] != "1":
                return f"{name}: the printed field has syntax errors ({new['text']!r})"
            if (new["flags"][0] == "1") != ("${" not in new["text"]):
                return f"{name}: strict from_str {'accepts' if new['flags'][0] == '1' else 'rejects'} {new['text']!r}"
            if empty_slots(new["text"]) > empty_slots(st["text"]):
                return f"{name}: a separator is duplicated or left dangling ({st['text']!r} -> {new['text']!r})"
            if substvars(new["text"]) != substvars(st["text"]):
                return f"{name}: a substitution variable changed ({st['text']!r} -> {new['text']!r})"
            why = self.frame(op, entry_texts(st), entry_texts(new))
            if why: return f"{name}: {why} ({st['text']!r} -> {new['text']!r})"
            if name == "drop_constraint" and out not in ("ok0", "ok1"):
                return "drop_constraint: no boolean"
            st = new
        return None

    @staticmethod
    def op_index(marks, m):
        return sum(1 for x in marks[:m] if x is not None)
    @staticmethod
    def after_invalid(marks, exps, m):
        """is instruction m part of an operation outside the list model (handles through register 41)?"""
        for x in marks[m:]:
            if x is not None: return exps[x] is None
        return False

    @staticmethod
    def frame(op, before, after):
        """unrelated entries keep their text"""
        k = op[0]
        if k in ("push", "push_live"):
            return None if after[:len(before)] == before else "push changed the text of an existing entry"
        if k == "insert_live":
            i = min(op[1], len(before))
            return None if after[:i] + after[i+1:] == before else "insert changed the text of an existing entry (the operand was a live entry of the field)"
        if k == "insert":
            i = min(op[1], len(before))
            return None if after[:i] + after[i+1:] == before else "insert changed the text of an existing entry"
        if k in ("remove_entry", "eremove"):
            i = op[1]
            return None if after == before[:i] + before[i+1:] else "removing an entry changed the text of another entry"
        i = op[1]
        if len(after) == len(before):
            return None if after[:i] + after[i+1:] == before[:i] + before[i+1:] else "the text of another entry changed"
        if len(after) == len(before) - 1 and k in ("eremove_relation", "rremove"):
            return None if after == before[:i] + before[i+1:] else "the text of another entry changed"
        return "the number of entries changed"

    def nontrivial(self, stream, fields, impl):
        return ":ok" in impl.replace("=ok", ":ok").replace("/ok", ":ok")

    def known_class(self, stream, fields, impl, model, why):
        # the former class c11-handle-after-rebuild is repaired (proposed_fixes/C11-10): a handle
        # that goes stale is a violation again
        # Relations::replace / Entry::replace called with an operand that is a LIVE handle of a
        # field splice the node itself, so it leaves the place it came from (insert / push copy
        # it). Only when the first failing operation is such a replace AND the faithful model
        # shows the same records (anything else the code does there is still reported).
        m = re.match(r"^(?:fresh handles|earlier handles|" + re.escape(STALE) + r"): (replace_live|ereplace_live): ", why or "")
        if m and stream == "rel-edit" and model == impl:
            return "c11-replace-live-operand-moved"
        return None

    def shrink_field(self, stream):
        return None

    def neighbours(self, stream, fields):
        meta = g.decode_meta(fields[2]) if len(fields) > 2 else None
        if meta is None: return []
        entries, ops, seed = meta["entries"], meta["ops"], meta["seed"]
        out = []
        cands = [ops[:i] for i in range(1, len(ops))] + [ops[:i] + ops[i+1:] for i in range(len(ops))]
        for c in cands:
            m = g.ListModel(entries); ok = True
            for op in c:
                if not m.valid(op): ok = False; break
                m.apply(op)
            if not ok: continue
            progs, _ = g.compile_programs(entries, c, seed, frozen=(len(fields) > 5))
            out.append(fields[:2] + [g.encode_meta(entries, c, seed)] + progs)
        return out

PROP = C11()
