import re
from ..run import Prop
from .. import gen, gen_sat, core
from ..core import rec_fields, unhex, hexs
from ..gen_sat import (ref_parse, ref_cmp, ref_satisfied, last_binding, cmp_panics, panic_reason, struct_of_text,
                       dec_struct, dec_assignment, OPS, sat_case, has_big_run)

CLS_OP = "c12-nonstandard-operator"          # lossless evaluator reaches an alternative whose operator is none of the five
CLS_I32 = "c12-debversion-i32-digit-run"     # a comparison of two versions reaches a digit run above i32::MAX
CLS_EPOCH = "c12-unreadable-version-epoch"   # lossless evaluator reaches an alternative whose version text debversion rejects
CLASS_OF_REASON = {"op": CLS_OP, "epoch": CLS_EPOCH, "i32": CLS_I32}

def _show(v):
    """debversion's Display of a version text (the epoch re-printed in canonical decimal)"""
    e, u, r = ref_parse(v)
    return ("" if e is None else str(e) + ":") + u + ("" if r is None else "-" + r)

def _dump_text(d):
    """the text of a tree dump `(kind child ...)` / `kind:hex`"""
    return bytes.fromhex("".join(re.findall(r"\d:([0-9a-f]*)", d))).decode("utf-8")

def _expected_built_text(struct, through_set_version):
    def alt(i, r):
        n, v = r
        if v is None: return n
        c = f" ({v[0]} {_show(v[1])})"
        if through_set_version and i % 4 == 2: return f"{n}:any{c}"
        if through_set_version and i % 4 == 3: return f"{n}:any{c} [amd64] <!nocheck>"
        return n + c
    return ", ".join(" | ".join(alt(i, r) for i, r in enumerate(e)) for e in struct)

def wrap_panic_reason(struct, asg, lookup, lossless_text):
    """Why Relations::wrap_and_sort() followed by satisfied_by panics, if it does.  wrap_and_sort calls
    name()/version() on EVERY alternative (not only those an evaluation reaches), so an unreadable
    operator or version anywhere in the field is hit; its sort compares Version values, and the
    evaluation then runs over the sorted field: with a digit run above i32::MAX among the required
    or the installed versions a comparison may reach it in either step (the exact step is the
    model's business: the correspondence compares it).  Reasons as gen_sat.panic_reason."""
    for e in struct:
        for (_, ver) in e:
            if ver is not None:
                if ver[0] not in OPS:
                    return "op" if lossless_text else "untyped"
                if ref_parse(ver[1]) is None:
                    return "epoch" if lossless_text else "untyped"
    names = {n for e in struct for (n, _) in e}
    if any(ver is not None and has_big_run(ver[1]) for e in struct for (_, ver) in e) \
       or any(k in names and has_big_run(v) for k, v in asg):
        return "i32"
    return panic_reason(struct, lookup, lossless_text)

def _triple(rec):
    """'e:u:r' from a record -> (epoch|None, upstream, revision|None)"""
    e, u, r = rec.split(":")
    return (None if e == "-" else int(e), unhex(u), None if r == "-" else unhex(r[1:]))

class C12(Prop):
    id = "C12"
    coq_targets = ["props/C12.vo"]
    props_file = "props/C12.v"
    design_ref = "DESIGN.md §4 C12"
    level_text = ('Coq theorems over all fields (lists of lists of alternatives, unbounded), all five operators, all lookup values and an '
                  'abstract version type with a total-preorder comparison: the lossless evaluator (on the typed view of the tree, on trees '
                  'built by the constructors, and through name()/version() with their unwrap sites) and the lossy evaluator both return '
                  'Ok of the Policy decision table (forall entries exists alternative: installed and operator holds); they agree '
                  'unconditionally (same panics in the same order); the answer depends only on the function a lookup induces (closure for the '
                  'field/entry-level evaluators; map / closure / pair for lossy::Relation::satisfied_by and the alternative-by-alternative nesting around it). DebVersion.v: the dpkg ordering is proved a total preorder and '
                  "the transcription of debversion's Ord is proved equal to it whenever no digit run exceeds i32::MAX (beyond that the crate "
                  'panics: recorded finding). Relation::set_version (as modelled by the C11 cone) writes a constraint that version() reads back; '
                  'every field the reader accepts without error and whose accessors do not panic (C10: racc) has the typed view the theorems are about. '
                  'After Relations::wrap_and_sort (the C13 cone, RelWrap.v): on C13\'s safe domain the returned object is evaluated exactly like the object it was called on, '
                  'for every tree whose accessors do not panic and for every well-formed field (C12_wrap_invariant, C12_wrap_invariant_any_tree: the accessor content of the C13 cone is the typed view of this cone, the decision table does not depend on the order of entries or alternatives). '
                  'Lookup forms: the field/entry-level evaluators take `impl VersionLookup + Copy`, i.e. a closure; the map and pair forms exist for '
                  'lossy::Relation::satisfied_by only, and the theorems say so. Ordering of the real crate: modelled external, validated by the vercmp stream.')
    level_note = ('Model: Entry/Relations::satisfied_by, Relation::name/version/new/set_version(Some), From<Vec<..>> in debian-control/src/lossless/relations.rs; '
                  'Relation/Relations::satisfied_by in lossy/relations.rs; VersionLookup impls in lib.rs; VersionConstraint in relations.rs; '
                  'debversion 0.4.4 FromStr/Ord (external crate, transcribed). Architecture restrictions and build profiles are ignored by both '
                  'evaluators and by the statement. Since /repo 0eb8794 the lossless reader accepts versions with an epoch; '
                  'the constructors and set_version/set_archqual are the definitions of the C11 cone (RelEdit.v, RelEditTree.v).')
    rule = ("vercmp: corpus x corpus, every pair of strings of length <= 2 (3 thorough) over a 9(8)-symbol version alphabet, generated "
            "versions and their near mutants, malformed strings; sat: the exhaustive operator x presence decision table for shapes "
            "1x1, 1x2, 2x1 (2x2 sampled in quick, exhaustive in thorough) + generated fields with assignments (absent / lower / equal / "
            "equal-written-differently / higher / unrelated / duplicate bindings), epochs, empty entries, the three finding classes and "
            "their neighbourhood (a big digit run that is never compared, or decided before it is reached); the records carry the tree "
            "dumps of the constructor-built and set_version-built fields (kinds and positions of every token), and the answers of "
            "Relations::satisfied_by AFTER Relations::wrap_and_sort() on the parsed field (lw) and on the constructor-built field (cw), judged against the same Debian-semantics expectation; "
            "sat-text: repo literals, exhaustive short strings, whitespace-rich generated fields and their mutations. "
            "non-trivial = a versioned alternative whose package is installed (sat), both versions parse (vercmp)")
    trusted = ["Coq 8.16.1 kernel",
               "hand-written Coq transcription of satisfied_by (both evaluators), Relation::name/version and the three VersionLookup impls; the constructors and set_version/set_archqual are the C11 cone's (RelEdit.v, RelEditTree.v); tied to the code by the sat (answers and tree dumps) and sat-text correspondence streams",
               "for the lw / cw keys of the sat stream: the model of Relations::wrap_and_sort of the C13 cone (RelWrap.v, variant fixed = the code /repo has; its trusted base is C13's), compared on every sat case",
               "debversion 0.4.4 (FromStr regex, Ord) transcribed in DebVersion.v and validated by the vercmp stream; the dpkg reference ordering is additionally compared with an independent Python transcription of dpkg's verrevcmp",
               "the relations lexer/parser model of C09 (RelLex.v, RelParse.v), the accessor model and grammars of C10 (RelAcc.v, RelGrammar.v, RelGrammarAll.v) for the parsed path",
               "std: Iterator::all/any short-circuit order, PartialOrd provided methods, HashMap insert/get (association list with unique keys)",
               "extraction (ExtrOcamlBasic only), OCaml runner, Rust harness, Python driver"]
    assumptions = ["the version comparison is a total preorder (proved for the dpkg reference; debversion's agrees with it when no digit run exceeds 2^31-1)",
                   "versions are ASCII strings accepted by debversion's FromStr"]

    def streams(self, tier, rng):
        yield "vercmp", gen_sat.vercmp_cases(tier, rng)
        yield "sat", gen_sat.decision_table(tier, rng)
        yield "sat", gen_sat.sat_cases(tier, rng)
        yield "sat", gen_sat.sat_known_cases(tier, rng)
        yield "sat-text", gen_sat.sat_text_cases(tier, rng)

    def shrink_field(self, stream):
        return None

    # ------------------------------------------------------------ oracle
    def oracle(self, stream, fields, impl):
        if impl in ("PANIC", "HANG", "ABORT", "MISSING", "BADCASE"):
            return "implementation " + impl
        r = rec_fields(impl)
        if stream == "vercmp":
            return self._oracle_vercmp(fields, r)
        if stream == "sat":
            return self._oracle_sat(fields, r)
        return self._oracle_text(fields, r)

    def _oracle_vercmp(self, fields, r):
        a, b = unhex(fields[0]), unhex(fields[1])
        for k, s in (("a", a), ("b", b)):
            want = ref_parse(s)
            got = None if r[k] == "ERR" else _triple(r[k])
            if want != got:
                return f"version reader: {s!r} read as {got}, expected {want}"
        pa, pb = ref_parse(a), ref_parse(b)
        if pa is None or pb is None:
            return None
        for k in ("cmp", "rev", "eq"):
            if r[k] in ("PANIC", "HANG"):
                return f"comparison {r[k]}"
        want = ref_cmp(pa, pb)
        names = {-1: "LT", 0: "EQ", 1: "GT"}
        if r["cmp"] != names[want]:
            return f"{a!r} vs {b!r}: {r['cmp']}, dpkg ordering says {names[want]}"
        if r["rev"] != names[-want]:
            return "comparison is not antisymmetric"
        if (r["eq"] == "1") != (want == 0):
            return "== disagrees with cmp"
        return None

    def _oracle_sat(self, fields, r):
        struct = dec_struct(fields[1]); asg = dec_assignment(fields[2])
        has_text = fields[0] != "!"
        typable = all(v is None or (v[0] in OPS and ref_parse(v[1]) is not None) for e in struct for (_, v) in e)
        if (r["ty"] == "1") != typable:
            return "harness could not build the typed field" if typable else "harness built a typed field from an unreadable structure"
        keys = ["ll", "lr", "ly", "rt", "lc", "yc", "ym", "yp", "sv", "lw", "cw"]
        for k in keys:
            # a tree the tolerant reader produced together with errors is not a field: lr (and lw,
            # the same tree after wrap_and_sort) is compared with the model (correspondence) but not judged
            if r[k] in ("PANIC", "HANG") and not (k in ("lr", "lw") and r["ne"] != "0"):
                return f"implementation {r[k]} in {k}"
        if "P" in r["le"] and r["ne"] == "0":
            return "implementation PANIC in le"
        if not typable:
            return None                      # outside the quantifier (not one of the five operators)
        look = last_binding(asg)
        want = "1" if ref_satisfied(struct, look) else "0"
        for k in ("lc", "yc", "ym", "sv"):
            if r[k] != want:
                return f"{k} = {r[k]}, Debian semantics say {want}"
        # the constructor-built field after Relations::wrap_and_sort(): the same dependencies
        # (C13), so the same answer (props/C12.v, C12_wrap_invariant_any_tree)
        if r["cw"] != want:
            return f"after wrap_and_sort the constructor-built field evaluates to {r['cw']}, Debian semantics say {want} (before: {r['lc']})"
        for k, via in (("lcd", False), ("svd", True)):
            if _dump_text(r[k]) != _expected_built_text(struct, via):
                return f"{k}: the built field prints as {_dump_text(r[k])!r}, expected {_expected_built_text(struct, via)!r}"
            if "3:7c" in r[k]:
                return f"{k}: '|' stored under kind COMMA"
        if asg:
            k0, v0 = asg[0]
            wantp = "1" if ref_satisfied(struct, lambda n: v0 if n == k0 else None) else "0"
            if r["yp"] != wantp:
                return f"pair form: {r['yp']}, expected {wantp}"
            if len(asg) == 1 and r["yp"] != r["yc"]:
                return "pair form and closure form disagree on a single installed package"
        elif r["yp"] != "-":
            return "pair form evaluated without a pair"
        if has_text:
            if r["ly"] != want:
                return f"lossy reader + evaluator = {r['ly']}, expected {want}"
            if r["rt"] != "1":
                return "lossy reader does not read the rendered field back as the structure"
            if r["ll"] == "ERR" or r["ne"] != "0":
                return "lossless reader rejects a well-formed field"
            else:
                if r["ll"] != want or r["lr"] != want:
                    return f"lossless reader + evaluator = {r['ll']}/{r['lr']}, expected {want}"
                if r["lw"] != want:
                    return f"after wrap_and_sort the parsed field evaluates to {r['lw']}, Debian semantics say {want} (before: {r['lr']})"
                per = "".join("1" if ref_satisfied([e], look) else "0" for e in struct)
                if r["le"] != per:
                    return f"per-entry answers {r['le']}, expected {per}"
        # lookup forms
        probes = [] if fields[3] == "-" else [unhex(h) for h in fields[3].split(",")]
        got = r["lk"].split(",") if r["lk"] else []
        if len(got) != len(probes):
            return "probe count"
        for n, g in zip(probes, got):
            m, c, p = g.split("/")
            w = look(n)
            wt = None if w is None else ref_parse(w)
            for form, x in (("map", m), ("closure", c)):
                gt = None if x == "-" else _triple(x)
                if gt != wt:
                    return f"{form} lookup of {n!r}: {gt}, expected {wt}"
            wp = ref_parse(asg[0][1]) if asg and asg[0][0] == n else None
            gp = None if p == "-" else _triple(p)
            if gp != wp:
                return f"pair lookup of {n!r}: {gp}, expected {wp}"
        return None

    def _oracle_text(self, fields, r):
        # strict reader accepted the text: the evaluator must answer (no panic), the tolerant
        # reader must give the same answer, and for generated fields the answer is the expected one
        if r["ll"] in ("PANIC", "HANG"):
            return f"implementation {r['ll']} on a field the strict reader accepted"
        if r["ll"] != "ERR":
            if r["lr"] != r["ll"]:
                return "strict and tolerant readers' trees evaluate differently"
            exp = fields[2] if len(fields) > 2 else "?"
            if exp in ("0", "1") and r["ll"] != exp:
                return f"answer {r['ll']}, Debian semantics say {exp}"
            want_all = "1" if all(c == "1" for c in r["le"]) else "0"
            if "P" not in r["le"] and r["ll"] != want_all:
                return "Relations::satisfied_by is not the conjunction of Entry::satisfied_by"
        return None

    def nontrivial(self, stream, fields, impl):
        if stream == "vercmp":
            return "ERR" not in impl.split("|cmp=")[0]
        if stream == "sat":
            struct = dec_struct(fields[1]); names = {k for k, _ in dec_assignment(fields[2])}
            return any(v is not None and n in names for e in struct for (n, v) in e)
        return "ll=ERR" not in impl and "(" in unhex(fields[0])

    # ------------------------------------------------------------ known findings
    def known_class(self, stream, fields, impl, model, why):
        """The class of a failure = the reason of the FIRST panic on the evaluation path, recomputed here
        from the case (gen_sat.panic_reason walks entries and alternatives in the evaluators' order).
        Nothing else is forgiven: a panic the walk does not predict, or predicts for another reason,
        stays a fresh failure."""
        if "PANIC" not in (why or "") and "PANIC" not in impl:
            return None
        if stream == "vercmp":
            a, b = unhex(fields[0]), unhex(fields[1])
            return CLS_I32 if (cmp_panics(a, b) or cmp_panics(b, a)) else None
        r = rec_fields(impl)
        if stream == "sat":
            struct = dec_struct(fields[1]); asg = dec_assignment(fields[2])
            look = last_binding(asg)
            pair = (lambda n: asg[0][1] if n == asg[0][0] else None) if asg else (lambda n: None)
            clean = r.get("ne") == "0"      # a tolerant-reader tree with errors is not judged
            reasons = []
            for k in ("ll", "lr", "ly", "rt", "lc", "yc", "ym", "yp", "sv"):
                if r.get(k) != "PANIC" or (k == "lr" and not clean):
                    continue
                reasons.append(panic_reason(struct, pair if k == "yp" else look, lossless_text=k in ("ll", "lr")))
            for k in ("lw", "cw"):
                if r.get(k) != "PANIC" or (k == "lw" and not clean):
                    continue
                reasons.append(wrap_panic_reason(struct, asg, look, lossless_text=(k == "lw")))
            if "P" in r.get("le", "") and clean:
                for e, c in zip(struct, r["le"]):
                    if c == "P":
                        reasons.append(panic_reason([e], look, lossless_text=True))
            # every panic in the record must be one the walk predicts; the failure is filed under the
            # first of them (the field-level evaluator's, when it panicked)
            if reasons and all(x in CLASS_OF_REASON for x in reasons):
                return CLASS_OF_REASON[reasons[0]]
            return None
        # sat-text: the strict reader accepted the text and the evaluator panicked
        struct = struct_of_text(unhex(fields[0]))
        if struct is None:
            return None
        return CLASS_OF_REASON.get(panic_reason(struct, last_binding(dec_assignment(fields[1])), lossless_text=True))

    # ------------------------------------------------------------ search support
    def neighbours(self, stream, fields):
        out = []
        if stream == "vercmp":
            a, b = unhex(fields[0]), unhex(fields[1])
            for s in (a, b):
                for i in range(len(s) + 1):
                    for c in "01a~+.-:":
                        out.append((s[:i] + c + s[i:], b if s is a else a))
                    if i < len(s):
                        out.append((s[:i] + s[i+1:], b if s is a else a))
            return [[hexs(x), hexs(y)] for x, y in dict.fromkeys(out)][:3000]
        if stream == "sat":
            struct = dec_struct(fields[1]); asg = dec_assignment(fields[2])
            res = []
            for i in range(len(struct)):
                res.append((struct[:i] + struct[i+1:], asg))
                for j in range(len(struct[i])):
                    e = struct[i][:j] + struct[i][j+1:]
                    res.append((struct[:i] + [e] + struct[i+1:], asg))
                    n, v = struct[i][j]
                    if v is not None:
                        for op in OPS:
                            res.append((struct[:i] + [struct[i][:j] + [(n, (op, v[1]))] + struct[i][j+1:]] + struct[i+1:], asg))
            for i in range(len(asg)):
                res.append((struct, asg[:i] + asg[i+1:]))
            return [sat_case("n", s, a)[1] for s, a in res][:2000]
        s = unhex(fields[0])
        for i in range(len(s) + 1):
            out.append(s[:i])
            if i < len(s): out.append(s[:i] + s[i+1:])
        return [[hexs(x)] + fields[1:] for x in dict.fromkeys(out)][:2000]

PROP = C12()
