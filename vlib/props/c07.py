import functools
from ..run import Prop
from .. import gen_wrap, gen, core
from ..core import rec_fields, unhex, hexs
from .c06 import parse_doc_items

# char::is_whitespace (White_Space), for the oracle's own reading of the Uploaders formatter
RUST_WS = "".join(chr(c) for c in [9, 10, 11, 12, 13, 32, 0x85, 0xA0, 0x1680] + list(range(0x2000, 0x200B)) + [0x2028, 0x2029, 0x202F, 0x205F, 0x3000])
# relationship fields of a control file that Control::wrap_and_sort normalises (the list of format_field, spelt as in Policy)
REL_FIELDS = ["Build-Depends", "Build-Depends-Indep", "Build-Depends-Arch", "Build-Conflicts", "Build-Conflicts-Indep",
              "Build-Conflicts-Arch", "Depends", "Recommends", "Suggests", "Enhances", "Pre-Depends", "Breaks"]

CLS_UPL = "c07-uploaders-hash-piece"
CLS_REL = "c07-unparsable-relation-panics"
CLS_OP = "c07-nonstandard-operator-panics"      # C12's class c12-nonstandard-operator, reached through format_field
import re
_OP = re.compile(r"\(\s*([<>=]*)")

def nonstandard_operator(text):
    """some relationship field of the text has a version constraint whose operator is not one of << <= = >= >>"""
    cur = None; vals = []
    for l in text.replace("\r", "\n").split("\n"):
        if l[:1] in (" ", "\t"):
            if cur is not None and not l.lstrip(" \t").startswith("#"): cur.append(l)
        elif l[:1] == "#" or l == "":
            if l == "": cur = None
        elif ":" in l:
            k, v = l.split(":", 1); cur = None
            if k.rstrip(" \t") in REL_FIELDS: cur = [v]; vals.append(cur)
        else: cur = None
    for ls in vals:
        for m in _OP.finditer("\n".join(ls)):
            if m.group(1) not in ("<<", "<=", "=", ">=", ">>"): return True
    return False

def uploaders_hash_piece(text):
    """some Uploaders field of the text has a piece, not the first one, that starts with '#'"""
    cur = None; vals = []
    for l in text.replace("\r", "\n").split("\n"):
        if l[:1] in (" ", "\t"):
            if cur is not None and not l.lstrip(" \t").startswith("#"): cur.append(l.strip(" \t"))
        elif l[:1] == "#" or l == "": 
            if l == "": cur = None
        elif ":" in l:
            k, v = l.split(":", 1); cur = None
            if k.rstrip(" \t") == "Uploaders": cur = [v.strip(" \t")]; vals.append(cur)
        else: cur = None
    for ls in vals:
        ps = [x.strip(RUST_WS) for x in "\n".join(ls).split(",")]
        if any(x.startswith("#") for x in ps[1:]): return True
    return False

def nbstrip(v):
    """the non-blank lines of a value, up to surrounding whitespace"""
    return [l.strip(" \t") for l in v.split("\n") if l.strip(" \t") != ""]

def parse_cfg(s):
    p = s.split(":")
    return {"ind": p[0], "iel": p[1] == "1", "mll": None if p[2] == "-" else int(p[2]), "psort": p[3], "esort": p[4],
            "fmt": p[5], "pws": (p[6] != "0") if len(p) > 6 else True}

def fmt_py(code, k, v, table=None):
    """the formatter, as the oracle reads it; None = cannot tell"""
    if code == "i": return v
    if code == "s": return v.replace(";", "\n")
    if code == "u": return ",\n".join(x.strip(RUST_WS) for x in v.split(","))
    if code == "c":
        if k == "Uploaders":
            # pieces one per line; a piece that starts with '#' on the line of the piece before it (C07-21: on a line of its
            # own it would be a comment line)
            ps = [x.strip(RUST_WS) for x in v.split(",")]
            out = ps[0]
            for x in ps[1:]: out += (", " if x.startswith("#") else ",\n") + x
            return out
        if k in REL_FIELDS:
            if table is None or v.strip(" \t\n") not in table: return None
            o = table[v.strip(" \t\n")]
            return v if o is None else o        # a value the relations parser rejects is left as it is (C07-22)
        return v
    return v

def opt_key(o):
    return (0, b"") if o is None else (1, o.encode("utf-8"))

def para_cmp(code):
    def get(p, k):
        for n, v in p:
            if n == k: return v
        return None
    def first_value(a, b):
        ka = opt_key(a[0][1] if a else None); kb = opt_key(b[0][1] if b else None)
        return (ka > kb) - (ka < kb)
    def control(a, b):
        a_src = get(a, "Source") is not None; b_src = get(b, "Source") is not None
        if a_src and not b_src: return -1
        if not a_src and b_src: return 1
        ka, kb = (opt_key(get(a, "Source")), opt_key(get(b, "Source"))) if a_src else (opt_key(get(a, "Package")), opt_key(get(b, "Package")))
        return (ka > kb) - (ka < kb)
    return {"v": first_value, "c": control}.get(code)

def skeleton(text):
    """the line structure of a text without CR: blocks (separated by empty lines) of
    ('#', comment line) | ('F', field name) | ('v#', comment line inside a value, stripped)"""
    lines = text.split("\n")
    if lines and lines[-1] == "": lines.pop()
    blocks = []; cur = None
    for l in lines:
        if l == "":
            if cur is not None: blocks.append(cur); cur = None
            continue
        if cur is None: cur = []
        if l[0] == "#": cur.append(("#", l))
        elif l[0] in " \t":
            s = l.lstrip(" \t")
            if s.startswith("#"): cur.append(("v#", s))
        else: cur.append(("F", l.split(":", 1)[0].rstrip(" \t")))
    if cur is not None: blocks.append(cur)
    return blocks

def structure(text, p0):
    """(paragraphs, trailing): each paragraph = {pre: doc-level comment lines in front of it, groups: [(comments, name, value
    comments, (name, value) of it0)], trailing: comments after its last field}; None when the oracle's line reading does not
    line up with the implementation's own reading of the input (it0)"""
    if "\r" in text: return None
    paras = []; pending = []
    for b in skeleton(text):
        if not any(e[0] == "F" for e in b):
            pending += [e[1] for e in b if e[0] == "#"]; continue
        i = 0
        while b[i][0] != "F":
            if b[i][0] == "#": pending.append(b[i][1])
            i += 1
        p = {"pre": pending, "groups": [], "trailing": []}; pending = []
        com = []
        for e in b[i:]:
            if e[0] == "#": com.append(e[1])
            elif e[0] == "F": p["groups"].append([com, e[1], [], None]); com = []
            else:
                if com: return None      # a value comment after a comment line: not a shape the reader produces
                p["groups"][-1][2].append(e[1])
        p["trailing"] = com
        paras.append(p)
    if len(paras) != len(p0): return None
    for p, items in zip(paras, p0):
        if [g[1] for g in p["groups"]] != [k for k, _ in items]: return None
        for g, kv in zip(p["groups"], items): g[3] = kv
    return paras, pending

def expected_paragraph(p, cfg, sort_entries=True):
    gs = list(p["groups"])
    if cfg["pws"] and sort_entries and cfg["esort"] == "k":
        gs.sort(key=lambda g: g[1].encode("utf-8"))
    return gs

def block_of(pre, gs, trailing):
    out = [("#", c) for c in pre]
    for com, name, vcs, _ in gs:
        out += [("#", c) for c in com] + [("F", name)] + [("v#", c) for c in vcs]
    return out + [("#", c) for c in trailing]

def check_values(gs, items1, cfg, table=None, excluded=()):
    """names in order; every value's non-blank lines up to surrounding whitespace, or exactly the formatter's output
    (not for the fields in [excluded]: formatter output the property does not speak about)"""
    if [g[1] for g in gs] != [k for k, _ in items1]:
        return "field names/order changed: expected %r, got %r" % ([g[1] for g in gs], [k for k, _ in items1])
    for j, (g, (k, v1)) in enumerate(zip(gs, items1)):
        if j in excluded: continue
        v0 = g[3][1]
        if cfg["pws"] and cfg["fmt"] != "n" and not g[2]:
            exp = fmt_py(cfg["fmt"], k, v0, table)
            if exp is None: continue
        else:
            exp = v0
        if nbstrip(v1) != nbstrip(exp):
            return "value of %r changed: expected lines %r, got %r" % (k, nbstrip(exp), nbstrip(v1))
    return None

def fmt_outside_domain(gs, cfg, table=None):
    """formatter output the property does not speak about, field by field.  Returns (excluded, lead): excluded = the indices
    of the fields whose formatter output has a continuation line that starts with '#' (a comment line to every reader: the
    value cannot be written) or ends with a blank line (the streams' ';' formatter on "A:;": nothing but line breaks) --
    only for the streams' test formatters; the control formatter is checked on every field (a '#' piece of Uploaders stays
    on its line, C07-21; a value that ends with ',' is like any other) --; lead: some continuation line has leading
    whitespace (more indentation than requested, the formatter's own).  For an excluded field its value, its re-read value,
    the comment lines its value shows and the second application (a clause about the whole text) are not checked;
    everything else about the document is."""
    excluded = set(); lead = False
    if not cfg["pws"] or cfg["fmt"] == "n": return excluded, False
    for idx, g in enumerate(gs):
        if g[2]: continue
        out = fmt_py(cfg["fmt"], g[1], g[3][1], table)
        if out is None: continue
        if cfg["fmt"] != "c" and "\n" in out and out.split("\n")[-1].strip(" \t") == "": excluded.add(idx)
        seen = False
        for j, l in enumerate(out.split("\n")):
            if j > 0 and l[:1] in (" ", "\t"): lead = True
            if l.strip(" \t") == "": continue
            if seen and l.lstrip(" \t").startswith("#") and cfg["fmt"] != "c": excluded.add(idx)
            seen = True
    return excluded, lead

def drop_value_comments(block, excluded):
    """the block without the ('v#', ..) lines of its fields number j in [excluded]"""
    out = []; j = -1
    for e in block:
        if e[0] == "F": j += 1
        if e[0] == "v#" and j in excluded: continue
        out.append(e)
    return out

def indent_ok(t1, cfg, exact):
    cur = None
    for l in t1.split("\n"):
        if l == "" or l[0] == "#": continue
        if l[0] in " \t":
            n = int(cfg["ind"][1:]) if cfg["ind"] != "f" else (len(cur.encode("utf-8")) if cur is not None else 1)
            if not l.startswith(" " * n):
                return "continuation line %r is not indented by %d spaces" % (l, n)
            rest = l[n:]
            if exact and rest[:1] in (" ", "\t"):
                return "continuation line %r is indented by more than %d columns" % (l, n)
        else:
            cur = l.split(":", 1)[0].rstrip(" \t")
    return None

def separation_ok(t1, nparas):
    if t1 == "": return None if nparas == 0 else "paragraphs vanished"
    lines = t1.split("\n")
    if lines[-1] == "": lines.pop()
    blanks = [i for i, l in enumerate(lines) if l == ""]
    if len(blanks) != max(0, nparas - 1):
        return "%d blank lines for %d paragraphs" % (len(blanks), nparas)
    if blanks and (blanks[0] == 0 or blanks[-1] == len(lines) - 1 or any(b - a == 1 for a, b in zip(blanks, blanks[1:]))):
        return "blank lines are not single separators between paragraphs"
    return None

class C07(Prop):
    id = "C07"
    coq_targets = ["props/C07.vo"]
    props_file = "props/C07.v"
    design_ref = "DESIGN.md §4 C07"
    level_text = ("Coq theorems for the code with the eight repairs (variant `fixed` of coq/model/Deb822Wrap.v: six are in /repo, C07-21 "
                  "-- an Uploaders piece that starts with '#' stays on its line -- and C07-22 -- a relationship field the relations parser rejects is "
                  "left as it is instead of a panic -- are proposed, proposed_fixes/C07-2x; until they are in /repo the two classes are known "
                  "findings c07-uploaders-hash-piece / c07-unparsable-relation-panics, C07_uploaders_hash_piece, "
                  "C07_control_unparsable_relation_panics / _kept), over all well-formed "
                  "documents (Grammar.wf_doc) and all settings (Spaces(n>=1)/FieldNameLength, either immediate_empty_line, any one-line limit, any "
                  "comparators that depend only on names and values and give consistent answers): C07_holds = no panic; the result is exactly the tree of "
                  "the layout WrapSpec describes (comment lines stay in front of the same field/paragraph, groups sorted stably, fields rebuilt by the "
                  "rebuild_value case analysis); the returned object reports the sorted content; the printed result parses strictly and re-reads to that "
                  "content; continuation lines indented by exactly the requested width; exactly one blank line between paragraphs; a second application "
                  "changes nothing. Entry and paragraph level separately (C07_rebuild_value, C07_entry, C07_entry_idem, C07_paragraph, C07_paragraph_idem). "
                  "With a formatter (C07_formatter, C07_formatter_idem, C07_identity_formatter, C07_formatter_tokens): for formatters whose output is "
                  "`shaped` (no CR, no empty/indented/'#' continuation line) the same clauses with 'exactly the lines of the formatter's output'; "
                  "idempotence under the explicit premise that a second field step is a no-op, discharged for the identity formatter and for every formatter "
                  "that absorbs the re-layout, which the Uploaders formatter of format_field is proved to be (C07_absorbing_formatter_idem, "
                  "C07_uploaders_absorbing); Control::wrap_and_sort is the deb822-level reformatting with control order and the control formatter "
                  "(C07_control). The shipped code "
                  "is refuted (C07_shipped_refuted, C07_repairs_needed, C07_shipped_witnesses, C07_moved_paragraph, C07_formatter_lines, "
                  "C07_build_conflicts_arch). The control wrappers WITHOUT a parameter (C07_control_real, C07_source_binary, C07_control_field, "
                  "C07_relation_formatter): format_field with C13's model of parse_relaxed + Relations::wrap_and_sort in it; on every control file whose "
                  "relationship fields are well-formed fields of C10's grammar in C13's safe domain (Uploaders without empty piece, other fields "
                  "arbitrary) Control/Source/Binary::wrap_and_sort satisfy every clause, idempotence through C13_idem. Idempotence for ANY formatter that "
                  "absorbs the re-layout on the document (C07_formatter_idem_absorbs; the premise is needed: C07_formatter_idem_needs_premise). Outside "
                  "the abstract grammar: every document the strict reader returns is a token document (C07_error_free_is_token_doc) and on every such "
                  "document, no formatter: no panic, comment lines stay in front of the same field/paragraph, fields and paragraphs reported are those of "
                  "the input in the stable sorted order, VALUE and COMMENT texts kept, INDENT exactly as requested, second application returns the same "
                  "tree (C07_tokens_entry, C07_tokens_rebuild_value, C07_tokens_paragraph, C07_tokens_document, C07_error_free, C07_error_free_paragraph). "
                  "The image of the strict reader (coq/proofs/ParseImageP.v, for every cone): XGrammar.v's layouts (Grammar.v's plus LF/CR line ends, "
                  "blanks before the colon, comment/empty lines inside values, values that start on a continuation line) are, when well-formed, lexed to "
                  "exactly their tokens and parsed without error to exactly their tree with their content (C07_parse_image_accept), and every tree "
                  "from_str returns is the tree of such a layout of the text (C07_parse_image_complete); so the reader is the inverse of `text` on its image "
                  "(C07_image; C03's documents are the special case C07_grammar_in_image). With it the re-read clause for EVERY error-free document, no "
                  "formatter, no premise on the comparators (C07_error_free_reread, C07_error_free_full, field step C07_error_free_field): the text of the "
                  "reformatted tree is the rendering of a well-formed layout D, so the strict reader accepts it and returns a tree with exactly the "
                  "reported content; in D every continuation line is indented by the requested width, every line is terminated, and paragraphs are "
                  "separated by exactly one empty line (xsingle_blanks), none at the start or the end; likewise for the control wrappers on "
                  "C07_control_real's domain (C07_control_real_image). "
                  "STANDING of the statements (all vocabulary in coq/model, none in proof files): against an independent specification -- "
                  "everything on Grammar.v's documents (WrapSpec.v layout functions written from the documentation), the reader's image, and for "
                  "error-free documents the re-read / indentation / empty-line / termination clauses, the field step (C07_error_free_field vs "
                  "XWrapSpec.x_ws_field) and the reported content (C07_error_free_content, C07_error_free_paragraph: grouping, the caller's "
                  "comparators, reported pairs); RESTATING THE MODEL -- C07_tokens_*, C07_error_free's 'the result is d_out' (WrapTokSpec.v part B "
                  "calls rebuild_value): there the theorem is 'no panic + closed form', and where comment lines end up in a document outside "
                  "Grammar.v is checked by the oracle only. "
                  "PARTIAL (streams + oracle only): a second application to the tree re-read from the printed text (t2p); Deb822::wrap_and_sort "
                  "without a paragraph function (wrap_and_sort_paragraph = None; only the moved-paragraph witness is a theorem); formatters (the "
                  "control formatter included) on error-free documents outside Grammar.wf_doc and formatters with unshaped output; relationship "
                  "fields outside C13's domain (unparsable ones are kept field-wise: C07_control_unparsable_relation_kept; a non-standard "
                  "operator panics in the relations code: known class c07-nonstandard-operator-panics = C12's); the comparator premise "
                  "cmp_consistent has no transitivity -- the theorems are about the model's stable insertion sort, its agreement with "
                  "Vec::sort_by needs a total order (assumption); see docs/cones/C07.md 'What remains'.")
    level_note = ("Model: Entry/Paragraph/Deb822::wrap_and_sort, rebuild_value, inject (src/lossless.rs), lex_inline (src/lex.rs), format_field and "
                  "Control/Source/Binary::wrap_and_sort (debian-control/src/lossless/control.rs), the relations branch being C13's RelWrap.ctl_rel. "
                  "Six repairs of this cone are in /repo (6a001af c25b7d1 a95d981 88b9361 101ca2e 5a3c57b), two are proposed (C07-21, C07-22): "
                  "`./check C07` compares the model of the repaired code (variant `fixed`) with /repo -- on /repo 5517d72 the cases of the two proposed "
                  "repairs fall into their known-finding classes, on a copy with the patches nothing differs; VERIF_C07_MODEL=shipped (or eight 0/1 "
                  "flags; 11111100 = /repo 5517d72) evaluates other variants; "
                  "VERIF_C07_REL=table makes the control-wrap model take the relations formatter's values from the case instead of C13's model.")
    rule = ("hand-written edge cases (one per clause/defect) + /repo test literals + generated Grammar.doc inhabitants (every layout knob, values "
            "with ',' ';' '#') + exotic error-free texts (CR, blank/comment lines in values, blanks before ':') + control-file documents "
            "(relationship fields, Uploaders, misspelt/unknown names, unparsable relations) + mutated/malformed texts, each x sampled settings from "
            "the grid {Spaces 1,2,4,8,FieldNameLength} x iel x {None,10,79,10^6} x {none, first value, control order} x {none, by name} x "
            "{none, identity, ';'->LF, Uploaders} (+ Spaces(0), + no paragraph function) (thorough: the whole grid of 960 on a part), + every string "
            "of length <= 5 (thorough 6) over {A : SP LF # ;}; non-trivial = strictly parsed input with at least one paragraph")
    trusted = ["Coq 8.16.1 kernel",
               "hand-written Coq transcription of Entry/Paragraph/Deb822::wrap_and_sort, rebuild_value (src/lossless.rs), format_field and the control "
               "wrappers (debian-control/src/lossless/control.rs), tied to the code by the para-wrap / doc-wrap / control-wrap correspondence streams on every run",
               "models of coq/model/Deb822Lex.v, Deb822Parse.v, Deb822Edit.ensure_nl (other cones; same streams)",
               "rowan GreenNodeBuilder / SyntaxNode::children_with_tokens / clone_for_update / splice_children modelled as lists of children; inject = identity",
               "Vec::sort_by modelled as a stable insertion sort (equal to any stable sort for comparators that are total preorders)",
               "str::split_inclusive, str::trim, char::is_whitespace, str::split(','), join modelled (own definitions, validated by the streams)",
               "the relations branch of format_field is C13's model RelWrap.ctl_rel (coq/model/RelWrap.v, tied to the code by C13's streams and by control-wrap); the table computed by the harness helper control-fmt-table is used by the oracle only",
               "extraction (ExtrOcamlBasic only), OCaml runner, Rust harness, Python driver/generators/oracle"]
    assumptions = ["inputs are valid UTF-8 (Rust &str)", "field names shorter than 4 GiB (the `as u32` cast of FieldNameLength is not modelled)",
                   "comparators and formatters passed by the caller return (do not panic); comparators are total preorders (Vec::sort_by's contract: "
                   "the theorems need only that a<b and b<a are never both answered, the agreement of the model's stable insertion sort with Vec::sort_by needs transitivity too)",
                   "relationship fields of control files: well-formed fields of C10's grammar in C13's safe domain (no digit run above 2^31-1 in a version)"]
    case_ms = 6000

    def streams(self, tier, rng):
        yield "doc-wrap", gen_wrap.wrap_cases(tier, rng, "doc-wrap")
        yield "para-wrap", gen_wrap.wrap_cases(tier, rng, "para-wrap")
        yield "control-wrap", gen_wrap.control_cases(tier, rng)
        yield "doc-wrap-any", gen_wrap.any_cases(tier, rng)

    # ------------------------------------------------------------ oracle
    def oracle(self, stream, fields, impl):
        text = unhex(fields[0]); cfg = parse_cfg(fields[1])
        if impl in ("HANG", "ABORT", "MISSING"):
            return "implementation " + impl
        if stream == "doc-wrap-any":
            return None      # texts with syntax errors: outside the property (the tree has ERROR nodes); correspondence only
        if impl == "PANIC":
            if cfg["ind"] == "s0": return None          # Spaces(0): outside the property (assert!)
            return "implementation PANIC"               # also on a relationship field the relations parser rejects (C07-22)
        r = rec_fields(impl)
        if r.get("strict") != "OK": return None         # not an error-free document
        p0 = parse_doc_items(r["it0"])
        if stream == "para-wrap": return self._para(text, cfg, r, p0)
        table = None
        if stream == "control-wrap":
            table = self._table(fields)
            cfg = dict(cfg, psort="c", esort="n", fmt="c", pws=True)
        return self._doc(text, cfg, r, p0, table, stream)

    def _table(self, fields):
        t = {}
        tab = fields[2] if len(fields) > 2 else "-"
        if tab not in ("-", ""):
            for e in tab.split(","):
                v, o = e.split(":")
                t[unhex(v).strip(" \t\n")] = None if o == "ERR" else unhex(o)
        return t

    def _rel_unparsable(self, text, fields, panicked=False):
        """some relationship field of the document has a value the relations reader rejects (format_field unwraps)"""
        tab = fields[2] if len(fields) > 2 else "-"
        if tab in ("-", ""): return False
        bad = set()
        for e in tab.split(","):
            v, o = e.split(":")
            if o == "ERR": bad.add(unhex(v).strip(" \t\n"))
        if not bad: return False
        if "\r" in text and panicked: return True     # CR line ends inside values: the oracle's line reading cannot be aligned with the table
        # the oracle's own reading: a field of one of the names with such a value
        cur = None; vals = {}
        for l in text.replace("\r", "\n").split("\n"):
            if l[:1] in (" ", "\t"):
                if cur is not None and not l.lstrip(" \t").startswith("#"): vals[cur].append(l.strip(" \t"))
            elif l[:1] == "#" or l == "":
                if l == "": cur = None
            elif ":" in l:
                k, v = l.split(":", 1); cur = (len(vals), k.rstrip(" \t")); vals[cur] = [v.strip(" \t")]
        for (_, k), ls in vals.items():
            if k in REL_FIELDS and "\n".join(x for x in ls).strip(" \t\n") in bad:
                return True
        return False

    def _doc(self, text, cfg, r, p0, table, stream):
        t1 = unhex(r["t1"]); t2 = unhex(r["t2"])
        p1 = parse_doc_items(r["it1"])
        # paragraphs kept, in the requested order (stable) or the original one
        order = list(range(len(p0)))
        cmp = para_cmp(cfg["psort"])
        if cmp: order.sort(key=functools.cmp_to_key(lambda i, j: cmp(p0[i], p0[j])))
        if len(p1) != len(p0): return "number of paragraphs changed"
        st = structure(text, p0)
        lead = False
        todo = []; excl = {}
        for rank, i in enumerate(order):
            if st is not None:
                gs = expected_paragraph(st[0][i], cfg)
            else:
                gs = [[[], k, [], (k, v)] for k, v in p0[i]]
                if cfg["pws"] and cfg["esort"] == "k": gs.sort(key=lambda g: g[1].encode("utf-8"))
            ex, l = fmt_outside_domain(gs, cfg, table); lead |= l
            if ex: excl[rank] = ex
            todo.append((gs, rank))
        for gs, rank in todo:
            if st is None and cfg["pws"] and cfg["fmt"] != "n":
                # cannot tell whether the formatter applies (comment lines inside a value): names only
                if [g[1] for g in gs] != [k for k, _ in p1[rank]]: return "field names/order changed"
                continue
            why = check_values(gs, p1[rank], cfg, table, excl.get(rank, ()))
            if why: return why
        # the printed result parses strictly and re-reads to what the returned object reports (field by field; not the value
        # of a field whose formatter output cannot be written)
        if not r["rr"].startswith("OK:"):
            return "printed result does not parse strictly (rr=%s)" % r["rr"][:80]
        if r["rr"] != "OK:" + r["it1"]:
            prr = parse_doc_items(r["rr"][3:])
            if len(prr) != len(p1): return "printed result re-reads to another number of paragraphs (rr=%s)" % r["rr"][:80]
            for rank, (a, b) in enumerate(zip(prr, p1)):
                if [k for k, _ in a] != [k for k, _ in b]: return "printed result re-reads to other fields (rr=%s)" % r["rr"][:80]
                for j, ((_, va), (k, vb)) in enumerate(zip(a, b)):
                    if va != vb and j not in excl.get(rank, ()):
                        return "printed result does not re-read to the content the returned object reports: field %r (rr=%s)" % (k, r["rr"][:80])
        # a second application changes nothing -- promised for comparators that do not depend on what is being
        # rewritten: the requested paragraph order of the result must be the order it already has
        stable = True
        if cmp:
            o1 = sorted(range(len(p1)), key=functools.cmp_to_key(lambda i, j: cmp(p1[i], p1[j])))
            stable = o1 == list(range(len(p1)))
        if stable and not excl:
            if t2 != t1: return "second application changes the text"
            if "t2p" in r and not lead and unhex(r["t2p"]) != t1: return "application to the re-read result changes the text"
        if "\r" not in t1:
            why = separation_ok(t1, len(p1))
            if why: return why
            if cfg["pws"]:
                why = indent_ok(t1, cfg, exact=not lead and cfg["fmt"] == "n")
                if why: return why
        # comments: on a line of their own, in front of the same field / paragraph
        if st is not None and "\r" not in t1:
            paras, trailing = st
            exp = []
            for i in order:
                p = paras[i]
                exp.append(block_of(p["pre"], expected_paragraph(p, cfg), p["trailing"]))
            if trailing:
                if exp: exp[-1] = exp[-1] + [("#", c) for c in trailing]
                else: exp = [[("#", c) for c in trailing]]
            got = skeleton(t1)
            if excl and len(got) == len(exp):
                got = [drop_value_comments(b, excl.get(rank, ())) for rank, b in enumerate(got)]
                exp = [drop_value_comments(b, excl.get(rank, ())) for rank, b in enumerate(exp)]
            if got != exp:
                return "comment/field line structure changed: expected %r, got %r" % (exp, got)
        if stream == "control-wrap":
            if r.get("same") != "1": return "Source/Binary::wrap_and_sort changed the document"
            ps = [x for x in ([r["src"]] if r["src"] != "-" else []) + (r["bin"].split("/") if r["bin"] else [])]
            for rec in ps:
                a = rec.split("~")
                if a[2] != a[0]: return "second application of a paragraph wrapper changes the text"
        return None

    def _para(self, text, cfg, r, p0):
        cfg = dict(cfg, pws=True)
        recs = r["p"].split("/") if r["p"] else []
        if len(recs) != len(p0): return "number of paragraphs differs"
        st = structure(text, p0)
        for i, rec in enumerate(recs):
            t1h, it1, t2h, rr, es = rec.split("~")
            t1 = unhex(t1h)
            items1 = parse_doc_items("[" + it1 + "]")[0]
            lead = False
            if st is not None:
                gs = expected_paragraph(st[0][i], cfg)
                excl, lead = fmt_outside_domain(gs, cfg)
                why = check_values(gs, items1, cfg, None, excl)
                if why: return why
            else:
                gs0 = [[[], k, [], (k, v)] for k, v in p0[i]]
                if cfg["esort"] == "k": gs0.sort(key=lambda g: g[1].encode("utf-8"))
                excl, lead = fmt_outside_domain(gs0, cfg)
                names = [k for k, _ in p0[i]]
                if cfg["esort"] == "k": names.sort(key=lambda k: k.encode("utf-8"))
                if names != [k for k, _ in items1]: return "field names/order changed"
                if cfg["fmt"] == "n":
                    gs = [[[], k, [], (k, v)] for k, v in p0[i]]
                    if cfg["esort"] == "k": gs.sort(key=lambda g: g[1].encode("utf-8"))
                    why = check_values(gs, items1, cfg)
                    if why: return why
            if rr != "OK:[" + it1 + "]" and not (it1 == "" and rr == "OK:"):
                if not rr.startswith("OK:"): return "printed paragraph does not parse strictly"
                prr = parse_doc_items(rr[3:]) if rr != "OK:" else []
                if len(prr) != 1 or [k for k, _ in prr[0]] != [k for k, _ in items1]:
                    return "printed paragraph does not re-read to the fields the returned object reports"
                for j, ((_, va), (k, vb)) in enumerate(zip(prr[0], items1)):
                    if va != vb and j not in excl:
                        return "printed paragraph does not re-read to the content the returned object reports: field %r" % k
            if t2h != t1h and not excl: return "second application changes the paragraph"
            if "\r" not in t1:
                why = indent_ok(t1, cfg, exact=not lead and cfg["fmt"] == "n")
                if why: return why
                if st is not None:
                    p = st[0][i]
                    exp = [drop_value_comments(block_of([], expected_paragraph(p, cfg), p["trailing"]), excl)]
                    if [drop_value_comments(b, excl) for b in skeleton(t1)] != exp:
                        return "comment/field line structure of a paragraph changed: expected %r, got %r" % (exp, skeleton(t1))
            # entries
            ents = es.split(";") if es else []
            if len(ents) != len(p0[i]): return "number of entries differs"
            for (k0, v0), e in zip(p0[i], ents):
                e1, kv, e2 = e.split(",")
                has_out = False
                if cfg["fmt"] != "n":
                    o = fmt_py(cfg["fmt"], k0, v0)
                    has_out = ("\n" in o and o.split("\n")[-1].strip(" \t") == "") or any(l.lstrip(" \t").startswith("#") for l in o.split("\n")[1:])
                if e2 != e1 and not has_out: return "second application changes an entry"
                k1, v1 = kv.split("=", 1)
                if k1 != "+" + hexs(k0): return "entry name changed"
                has_vc = st is not None and any(g[2] for g in st[0][i]["groups"] if g[1] == k0 and g[3] == (k0, v0))
                if cfg["fmt"] == "n" or st is None or has_vc:
                    if cfg["fmt"] == "n" and nbstrip(unhex(v1)) != nbstrip(v0): return "entry value changed"
                elif nbstrip(unhex(v1)) != nbstrip(fmt_py(cfg["fmt"], k0, v0)):
                    o = fmt_py(cfg["fmt"], k0, v0).split("\n")
                    if not any(l.lstrip(" \t").startswith("#") for l in o[1:]):     # else: output that cannot be written
                        return "entry value is not the formatter's output"
        return None

    def shrink_field(self, stream):
        # a control-wrap case carries the formatter table computed for its text: shrinking the text would leave it stale
        return None if stream == "control-wrap" else 0

    def nontrivial(self, stream, fields, impl):
        if stream == "doc-wrap-any": return False
        r = rec_fields(impl)
        if r.get("strict") != "OK" or not r.get("it0"): return False
        return True

    def known_class(self, stream, fields, impl, model, why):
        """the two classes of the audit of cone-c07c, until proposed_fixes/C07-21 / C07-22 are in /repo"""
        if stream != "control-wrap": return None
        text = unhex(fields[0])
        if "PANIC" in (impl or "") and nonstandard_operator(text): return CLS_OP
        if "PANIC" in (impl or "") and self._rel_unparsable(text, fields, True): return CLS_REL
        if uploaders_hash_piece(text): return CLS_UPL
        return None

    def neighbours(self, stream, fields):
        s = unhex(fields[0])
        out = []
        alphabet = ["A", ":", " ", "\n", "#", ";", ",", "\r"]
        for i in range(len(s) + 1):
            out.append(s[:i])
            for c in alphabet:
                out.append(s[:i] + c + s[i:])
                if i < len(s): out.append(s[:i] + c + s[i+1:])
        res = [[hexs(x)] + fields[1:] for x in dict.fromkeys(out)][:1500]
        if stream != "control-wrap":
            for cfg in ["s1:0:-:n:n:n:1", "s2:1:-:v:k:n:1", "f:0:10:c:n:i:1", "s4:1:79:n:k:s:1", "s2:0:-:v:n:u:1"]:
                res.append([fields[0], cfg])
        return res

PROP = C07()
