from ..run import Prop
from .. import gen, core
from ..core import rec_fields, unhex, hexs

class C09(Prop):
    id = "C09"
    coq_targets = ["props/C09.vo"]
    props_file = "props/C09.v"
    design_ref = "DESIGN.md §4 C09"
    level_text = 'Coq theorems over all strings and both allow_substvar settings: relations lexer partition+totality; the parser (a state-machine transcription with explicit panic/fuel flags) conserves all token text, never bumps on an empty token list and every loop terminates within its fuel; hence parse_relaxed prints the input, from_str succeeds exactly when no error is reported, and Entry/Relation::from_str print a contiguous substring. Tied to the code by the rel-parse correspondence stream.'
    level_note = 'Model: Lexer in debian-control/src/relations.rs; fn parse and FromStr impls in debian-control/src/lossless/relations.rs.'
    rule = ("corpus (repo test literals, /verif/corpus/rel) + every string of length <= n over the 20-symbol relation "
            "alphabet (n=4 quick, 5 thorough) + grammar-generated relationship fields and their mutations; "
            "non-trivial = at least 2 tokens")
    trusted = ["Coq 8.16.1 kernel",
               "hand-written Coq transcription of debian-control/src/relations.rs (Lexer) and of fn parse / FromStr impls in debian-control/src/lossless/relations.rs, tied to the code by the rel-parse correspondence stream on every run",
               "rowan GreenNodeBuilder/SyntaxNode::text modelled as an inductive tree with concatenated token text",
               "extraction (ExtrOcamlBasic only), OCaml runner, Rust harness (hook Relations::verif_depth), Python driver"]
    assumptions = ["inputs are valid UTF-8 (Rust &str)"]

    def streams(self, tier, rng):
        yield "rel-parse", gen.rel_text_cases(tier, rng, "r")

    def oracle(self, stream, fields, impl):
        inp = fields[0]
        if impl in ("PANIC", "HANG", "ABORT", "MISSING"):
            return "implementation " + impl
        r = rec_fields(impl)
        for k in ("lex", "r0", "r1", "strict", "entry", "relation"):
            if r.get(k) in ("PANIC", "HANG", None):
                return f"implementation {r.get(k)} in {k}"
        toks = r["lex"]
        cat = "".join(t.split(":", 1)[1] for t in toks.split(",")) if toks else ""
        if cat != inp:
            return "token texts do not concatenate to the input"
        for k in ("r0", "r1"):
            if r[k].split(":")[0] != inp:
                return f"parse_relaxed(s, {k[1]}).0.to_string() != s"
        nerr0 = r["r0"].split(":")[1]
        if (nerr0 == "0") != r["strict"].startswith("OK"):
            return "strict reader result disagrees with tolerant reader's error list"
        if r["strict"].startswith("OK") and r["strict"][3:] != inp:
            return "from_str(s).to_string() != s"
        for k in ("entry", "relation"):
            if r[k].startswith("OK") and r[k][3:] not in inp:
                return f"{k} reader prints text that is not a substring of the input"
            if r[k].startswith("OK") and not r["strict"].startswith("OK"):
                return f"{k} reader accepts what the strict field reader rejects"
        return None

    def nontrivial(self, stream, fields, impl):
        return impl.split("|")[0].count(",") >= 1

    def neighbours(self, stream, fields):
        s = unhex(fields[0])
        out = []
        for i in range(len(s) + 1):
            out.append(s[:i])
            for c in gen.REL_ALPHABET:
                out.append(s[:i] + c + s[i:])
                if i < len(s): out.append(s[:i] + c + s[i+1:])
        return [[hexs(x)] for x in dict.fromkeys(out)][:3000]

PROP = C09()
