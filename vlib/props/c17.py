import os, re
from ..run import Prop
from .. import gen, core
from .. import gen_copyright as gc
from ..core import rec_fields, unhex, hexs

# oracle messages that name a recorded class start with "[class] "
NONUTF8 = "[non-utf8-path] implementation panics on a file path that is not valid UTF-8"
INVALID = "[invalid-glob-escape] implementation panics on a Files pattern with an invalid escape instead of answering from the other patterns"
KEY_RE = re.compile(r"^[!-9;-~]+$")

def mini_parse(text):
    """Paragraphs [(key, value)] of a *plainly laid out* deb822 text, or None when the layout is
    anything the oracle does not want to second-guess (then only the lookups are judged, on the
    paragraphs the implementation itself reports)."""
    if "\r" in text or "\x01" in text:
        return None
    lines = text.split("\n")
    if lines and lines[-1] == "":
        lines.pop()
    paras, cur, curkey = [], [], None
    for i, line in enumerate(lines):
        if line == "":
            if cur: paras.append(cur)
            cur, curkey = [], None
            continue
        if line.startswith("#"):
            # a comment between fields / paragraphs; not followed by a continuation line
            if i + 1 < len(lines) and lines[i + 1][:1] in (" ", "\t"):
                return None
            continue
        if line[0] in " \t":
            rest = line.lstrip(" \t")
            if curkey is None or rest == "" or rest.startswith("#"):
                return None
            cur[-1][1].append(rest)
            continue
        if ":" not in line:
            return None
        key, rest = line.split(":", 1)
        if not KEY_RE.match(key) or key[0] in "-#":
            return None
        rest = rest.lstrip(" \t")
        cur.append((key, [rest] if rest != "" else []))
        curkey = key
    if cur: paras.append(cur)
    return [[(k, "\n".join(v)) for k, v in p] for p in paras]

def pget(p, key):
    """the specification's field lookup: names are not case-sensitive (Policy 5.1)"""
    for k, v in p:
        if k.lower() == key.lower(): return v
    return None

def lic_repr(value):
    """the License enum the crate should build from a field value, in record syntax"""
    if "\n" in value:
        name, rest = value.split("\n", 1)
        return ("T:" + hexs(rest)) if name == "" else ("M:" + hexs(name) + ":" + hexs(rest))
    return "N:" + hexs(value)

def lic_name(l):
    if l.startswith("N:"): return l[2:]
    if l.startswith("M:"): return l[2:].split(":")[0]
    return None
def lic_has_text(l):
    return l.startswith("T:") or l.startswith("M:")

def opt_hex(v):
    return "-" if v is None else "+" + hexs(v)

def source_variant():
    """which of the two proposed patches does the repository under test have?  (the first four
    fixes are commits aa779ad 03f3b49 9fb8927 c9dae02 of /repo)  -> flags for the runner"""
    def read(rel):
        try:
            return open(os.path.join(core.REPO, "debian-copyright", "src", rel), encoding="utf-8").read()
        except Exception:
            return ""
    g = read("glob.rs")
    def b(x): return "1" if x else "0"
    dotall = '"(?s)^"' in g
    lossy_ws = "text.split_whitespace()" in read("lossy.rs")
    ll = read("lossless.rs")
    lp_name = "None => Some(x.to_string())" in ll
    skip = ll.count(".skip(1)") >= 2
    lenient = "fn try_glob_to_regex" in g and "fn glob_matches" in g
    lossy_path = "to_string_lossy()" in g
    return b(dotall) + b(lossy_ws) + b(lp_name) + b(skip) + b(lenient) + b(lossy_path)

class C17(Prop):
    id = "C17"
    coq_targets = ["props/C17.vo"]
    props_file = "props/C17.v"
    design_ref = "DESIGN.md §4 C17"
    level_text = ('Coq theorems, no bound on documents, patterns or paths: (1) for every glob with valid escapes, glob_to_regex returns a regex whose '
                  'backtracking match equals the declarative DEP-5 relation (\'*\' any run incl. \'/\' and LF, \'?\' one character, backslash-escapes, literals), it panics '
                  'exactly on an invalid escape, and glob_matches() of the patched code is true exactly when the relation holds, for EVERY pattern (an invalid one matches nothing); '
                  '(2) over every document (list of paragraphs of (field, value) pairs, as the deb822 reader returns them; patterns with invalid escapes included) that spells the field names '
                  'Files/License/Copyright/Format in exactly this case (hypothesis exact_case: the specification looks names up modulo case, Policy 5.1, the code exactly — finding field-name-case, '
                  'witness theorem) and every path, find_files of both readers returns the last non-header paragraph with a Files field one of whose whitespace-separated patterns matches, and never panics; '
                  'for the code WITHOUT the proposed patch C17-invalid-glob-escape the same holds only under the additional hypothesis doc_valid (every pattern of every Files paragraph has valid escapes; '
                  'C17_lookup_committed), and C17_invalid_escape_witness shows it fails without it (both readers panic for every path the bad paragraph is asked about); '
                  '(3) find_license_for_file returns that paragraph\'s own licence when it has text, otherwise the first stand-alone paragraph of that name, otherwise nothing; '
                  '(4) whenever the lossy reader accepts a document its find_files index, matches, find_license_by_name and find_license_for_file equal the lossless reader\'s (no hypothesis), and it accepts every well-formed exact_case document; '
                  '(5) all three text entry points answer NotMachineReadable exactly when the text does not start with the seven characters "Format:", and otherwise look up in Deb822Parse.doc_items of the parsed text. '
                  'The theorems are about the code with the four committed fixes and the two proposed patches (C17-invalid-glob-escape, C17-non-utf8-path); each defect has a _refuted lemma on the variant of the model lacking that fix. '
                  'Tied to the code by the glob and copyright correspondence streams on every run; the model variant compared is chosen from the sources of the repository under test.')
    level_note = ('Model: debian-copyright/src/glob.rs, lossless.rs (lookup functions), lossy.rs (from_str conversion, lookup functions), lib.rs (License). '
                  'regex crate: modelled external (anchored list of literal / "." / ".*" atoms, backtracking semantics; Regex::new assumed to succeed, which the crate refuses when the compiled pattern exceeds 10 MiB — '
                  '32 bytes per UTF-8 byte of literal, about 1 KiB per wildcard: finding glob-regex-size-limit). A path that is not valid UTF-8 is seen through to_string_lossy() (patch C17-non-utf8-path).')
    rule = ("glob stream: the repo's glob unit tests + every Files value of length <= 3 (thorough 4) over {a . + ( [ * ? \\ / SP LF} x every path of length <= 3 "
            "(thorough: also length 4) over {a . + ( [ * ? \\ / LF} + random patterns (regex metacharacters, Unicode, invalid escapes, several per field, Unicode separators) "
            "with paths instantiated from them + patterns with invalid escapes next to valid ones + paths that are not valid UTF-8 + the regex-size class (wildcards, 4-byte literals, a mixture) and controls; "
            "copyright stream: the repo's copyright test literals + hand-written edge cases + every arrangement of <= 2 (thorough 3) "
            "Files paragraphs over 5 patterns x 3 licence forms x 4 stand-alone licence configurations + generated documents (1-5 paragraphs, 1-3 patterns on one or several "
            "lines, inline/stand-alone/header licences, duplicate fields, comments) + documents with an invalid pattern in a later/earlier paragraph + field names in another case + "
            "a malformed stream (mutations, texts not starting with Format:); non-trivial = some pattern matched some path")
    trusted = ["Coq 8.16.1 kernel (vm_compute used for finite witnesses only)",
               "hand-written Coq transcription of debian-copyright/src/{glob,lossless,lossy,lib}.rs lookup code and of the derived from_paragraph (deb822-derive) for the three lossy structs, tied to the code by the glob and copyright correspondence streams on every run",
               "regex crate (Regex::new, is_match, regex::escape) modelled as an anchored atom list with backtracking semantics; validated exhaustively on short patterns x paths by the glob stream",
               "Rust std: split_whitespace (Unicode White_Space written out), split('\\n'), split_once, starts_with, Path::to_string_lossy (the case file carries Python's errors='replace' conversion; the correspondence run checks it is Rust's) — executable definitions validated by correspondence",
               "coq/model/Deb822Parse.v (from_str, doc_items) for the text entry points: proved total in C01's cone",
               "extraction (ExtrOcamlBasic only), OCaml runner, Rust harness, Python driver and the oracle's reference matcher"]
    assumptions = ["exact_case d: the document spells the field names Files, License, Copyright, Format in exactly this case (the code compares field names exactly; other spellings are the recorded finding field-name-case)",
                   "doc_valid d (every pattern of every Files paragraph has valid escapes) — ONLY for the code without proposed_fixes/C17-invalid-glob-escape.patch; with it the lookup theorems have no such hypothesis",
                   "a path that is not valid UTF-8 is looked up as its lossy conversion (with proposed_fixes/C17-non-utf8-path.patch; without it the lookup panics)",
                   "Regex::new succeeds: the compiled pattern is within the regex crate's default 10 MiB limit (class glob-regex-size-limit: 1100 x wildcards + 32 x UTF-8 bytes >= 10^7)",
                   "the positive theorems are about the code with the two proposed patches applied; on the code without them the check reports the violations"]
    case_ms = 20000

    def streams(self, tier, rng):
        if "VERIF_C17_MODEL" not in os.environ or os.environ.get("VERIF_C17_MODEL_AUTO") == "1":
            os.environ["VERIF_C17_MODEL"] = source_variant()
            os.environ["VERIF_C17_MODEL_AUTO"] = "1"
            core.log(f"[C17] model variant from the sources of {core.REPO}: {os.environ['VERIF_C17_MODEL']} (dotall lossy_ws lp_name skip_header lenient lossy_path)")
        yield "glob", gc.glob_cases(tier, rng)
        yield "glob", gc.glob_size_limit_cases()
        yield "glob", gc.glob_nonutf8_cases()
        yield "glob", gc.glob_invalid_escape_cases()
        yield "copyright", gc.copyright_nonutf8_cases()
        yield "copyright", gc.copyright_invalid_escape_cases()
        yield "copyright", gc.copyright_field_case_cases()
        yield "copyright", gc.copyright_cases(tier, rng)
        yield "copyright", gc.copyright_malformed_cases(tier, rng)

    # ------------------------------------------------------------ oracle
    def oracle(self, stream, fields, impl):
        if impl in ("PANIC", "HANG", "ABORT", "MISSING", "ERR"):
            return "implementation " + impl
        if stream == "glob":
            return self.oracle_glob(fields, impl)
        return self.oracle_copyright(fields, impl)

    def oracle_glob(self, fields, impl):
        pats = gc.split_ws(unhex(fields[0]))
        bits = rec_fields(impl).get("m", "")
        if len(bits) != len(fields) - 1:
            return "record length"
        for f, b in zip(fields[1:], bits):
            p = gc.path_of_field(f)
            exp = gc.field_matches(pats, p)
            if b == exp:
                continue
            if b == "P" and f.startswith("!") and not gc.reaches_invalid(pats, p):
                return NONUTF8
            if b == "P" and gc.reaches_invalid(pats, p):
                return INVALID
            return f"patterns {pats!r} vs path {p!r}: implementation says {b}, DEP-5 says {exp}"
        return None

    def parse_copyright_record(self, impl):
        r = rec_fields(impl)
        lf = []
        if r.get("lf"):
            for x in r["lf"].split(","):
                files, lic, com = x.split("~")
                lf.append(([unhex(h) for h in files.split(".")] if files else [], lic, com, x))
        ls = []
        if r.get("ls"):
            for x in r["ls"].split(","):
                n, t, lic = x.split("~")
                ls.append((n, t, lic))
        return r, lf, ls

    def oracle_copyright(self, fields, impl):
        text = unhex(fields[0])
        k = int(fields[1])
        pfields = fields[2:2 + k]
        paths = [gc.path_of_field(p) for p in pfields]
        names = [unhex(p) for p in fields[2 + k:]]
        try:
            r, lf, ls = self.parse_copyright_record(impl)
        except Exception as e:
            return "implementation " + ("PANIC" if "PANIC" in impl else "record unreadable")
        # (5) the Format gate; a Format field is a Format field in any case (Policy 5.1)
        starts = text[:7].lower() == "format:"
        for key in ("ll", "rx", "ly"):
            if r.get(key) in ("PANIC", "HANG", None):
                return f"implementation {r.get(key)} in {key}"
            if (r[key] == "ERR:nmr") != (not starts):
                return f"Format gate: text {'starts' if starts else 'does not start'} with a Format field but {key}={r[key]}"
        if r["ll"] != "OK":
            mp = mini_parse(text) if starts else None
            if mp and all(re.match(r"^[A-Za-z][A-Za-z0-9-]*$", kk) for p in mp for kk, _ in p):
                return "plainly laid out document rejected by the lossless reader"
            return None
        if "PANIC" in (r.get("lf"), r.get("ls")):
            return "implementation PANIC in iter_files/iter_licenses"
        # the paragraphs the reader reports, against the oracle's own reading of a plain layout
        mp = mini_parse(text)
        wellformed = False
        if mp is not None and mp:
            body = mp[1:]
            exp_lf = [(gc.split_ws(pget(p, "Files")), "-" if pget(p, "License") is None else lic_repr(pget(p, "License")),
                       opt_hex(pget(p, "Comment"))) for p in body if pget(p, "Files") is not None]
            exp_ls = [lic_repr(pget(p, "License")) for p in body if pget(p, "Files") is None and pget(p, "License") is not None]
            if [(a, b, c) for a, b, c, _ in lf] != exp_lf:
                return "iter_files does not list the non-header paragraphs that have a Files field (patterns, licence, comment)"
            if [l for _, _, l in ls] != exp_ls:
                return "iter_licenses does not list the stand-alone licence paragraphs"
            wellformed = (pget(mp[0], "Format") is not None and
                          all((pget(p, "Files") is not None and pget(p, "Copyright") is not None and pget(p, "License") is not None)
                              or (pget(p, "Files") is None and pget(p, "License") is not None) for p in body))
        for n, t, lic in ls:
            en = lic_name(lic)
            if n != ("-" if en is None else "+" + en):
                return "LicenseParagraph::name() is not the licence's name"
            if (t != "-") != lic_has_text(lic):
                return "LicenseParagraph::text() disagrees with the licence"
        def standalone(name_hex):
            for _, _, lic in ls:
                if lic_name(lic) == name_hex:
                    return lic
            return "-"
        lq = r["lq"].split(";") if r.get("lq") else []
        if len(lq) != len(paths):
            return "record length (lq)"
        ll_answers = []
        for pf, path, q in zip(pfields, paths, lq):
            bits, ff, fl = q.split("/")
            exp_bits = "".join(gc.field_matches(pats, path) for pats, _, _, _ in lf)
            if "P" in q:
                # a panic: which recorded defect is it?
                if any(gc.reaches_invalid(pats, path) for pats, _, _, _ in lf):
                    return INVALID
                if pf.startswith("!"):
                    return NONUTF8
                return f"implementation panics looking up {path!r}"
            if exp_bits != bits:
                return f"FilesParagraph::matches({path!r}) = {bits}, DEP-5 says {exp_bits} for {[p for p, _, _, _ in lf]!r}"
            last = bits.rfind("1")
            # (2) last matching paragraph wins
            if ff != ("-" if last < 0 else lf[last][3]):
                return f"find_files({path!r}) is not the last matching Files paragraph"
            # (3) the licence rule
            if last < 0 or lf[last][1] == "-":
                exp = "-"
            elif lic_has_text(lf[last][1]):
                exp = lf[last][1]
            else:
                exp = standalone(lic_name(lf[last][1]))
            if fl != exp:
                return f"find_license_for_file({path!r}) = {fl}, expected {exp}"
            ll_answers.append((bits, last, fl))
        ln = r["ln"].split(";") if r.get("ln") else []
        if names and len(ln) != len(names):
            return "record length (ln)"
        for name, got in zip(names, ln):
            if got != standalone(hexs(name)):
                return f"find_license_by_name({name!r}) = {got}, expected {standalone(hexs(name))}"
        # (4) the lossy reader
        if r["ly"] != "OK":
            if wellformed:
                return "well-formed copyright file rejected by the lossy reader"
            return None
        if r["yc"] != f"{len(lf)}.{len(ls)}":
            return f"lossy reader has {r['yc']} files.licenses paragraphs, lossless {len(lf)}.{len(ls)}"
        yq = r["yq"].split(";") if r.get("yq") else []
        for path, q, a in zip(paths, yq, ll_answers):
            bits, idx, fl = q.split("/")
            if bits != a[0]:
                return f"lossy and lossless FilesParagraph::matches({path!r}) differ: {bits} vs {a[0]}"
            if idx != ("-" if a[1] < 0 else str(a[1])):
                return f"lossy find_files({path!r}) returns paragraph {idx}, lossless {a[1]}"
            if fl != a[2]:
                return f"lossy find_license_for_file({path!r}) = {fl}, lossless {a[2]}"
        yn = r["yn"].split(";") if r.get("yn") else []
        if yn != ln:
            return "lossy and lossless find_license_by_name differ"
        return None

    # ------------------------------------------------------------ bookkeeping
    def nontrivial(self, stream, fields, impl):
        if stream == "glob":
            return "1" in impl and any(c in unhex(fields[0]) for c in "*?")
        return impl.startswith("ll=OK") and re.search(r"[;=][01P]*1[01P]*/", impl) is not None

    def known_class(self, stream, fields, impl, model, why):
        """each class is a narrow decidable predicate over the case, checked here — the message
        alone does not put a failure into a class"""
        why = why or ""
        if stream == "glob":
            pats = gc.split_ws(unhex(fields[0]))
            all_pats = [pats]
            text = ""
        else:
            text = unhex(fields[0])
            try:
                _, lf, _ = self.parse_copyright_record(impl)
                all_pats = [p for p, _, _, _ in lf]
            except Exception:
                all_pats = []
        npaths = fields[1:] if stream == "glob" else fields[2:2 + int(fields[1])]
        if why.startswith("[non-utf8-path]") and any(p.startswith("!") for p in npaths):
            return "non-utf8-path"
        if why.startswith("[invalid-glob-escape]") and any(gc.has_invalid(p) for p in all_pats):
            return "invalid-glob-escape"
        if any(gc.in_regex_size_class(p) for p in all_pats):
            # refused by the regex crate: a panic, or (with C17-invalid-glob-escape) "no match"
            return "glob-regex-size-limit"
        if stream == "copyright" and gc.field_name_case_class(text):
            return "field-name-case"
        return None

    def shrink_field(self, stream):
        return 0

    def neighbours(self, stream, fields):
        s = unhex(fields[0])
        alpha = gc.GLOB_FIELD_ALPHABET if stream == "glob" else gen.DEB822_ALPHABET + ["*", "?", "\\", "/"]
        out = []
        for i in range(len(s) + 1):
            out.append(s[:i])
            for c in alpha:
                out.append(s[:i] + c + s[i:])
                if i < len(s): out.append(s[:i] + c + s[i + 1:])
        return [[hexs(x)] + fields[1:] for x in dict.fromkeys(out)][:3000]

PROP = C17()
