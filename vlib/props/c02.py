from ..run import Prop
from .. import gen_total, core
from ..core import rec_fields, unhex, hexs

class C02(Prop):
    id = "C02"
    coq_targets = ["props/C02.vo"]
    props_file = "props/C02.v"
    design_ref = "DESIGN.md §4 C02"
    level_text = ("Coq theorems over all strings (models with explicit Panic / OutOfFuel outcomes): a value or an error — never a panic site, never "
                  "fuel exhaustion — for Deb822::{from_str, from_str_relaxed, read, read_relaxed} and Paragraph::from_str (also: at most 3 errors "
                  "per character, nesting depth <= 4), lossy::{Deb822, Paragraph}::from_str, lossless Relations::{from_str, parse_relaxed x2}, "
                  "Entry::from_str, Relation::from_str, strip_pgp_signature, the seven keyword enumerations (tables regenerated from the sources) "
                  "ParsedVcs::from_str, lossy::{Relation, Relations}::from_str (for any version parser) and the nine lossy typed documents read "
                  "through the derive macro (Control, copyright, apt Release/Source/Package, removal, buildinfo, DEP-3, APT sources; for any "
                  "external field parsers). Byte level (str slicing panics off a character boundary): byte-offset transcriptions of lex_ "
                  "(src/lex.rs), ParsedVcs::from_str (vcs.rs) and the source[..1] of get_pool_path, whose arms / slice constants / predicates are "
                  "re-read from the source on every run (translate/bytesites.py), are proved never to slice off a boundary or out of range and to "
                  "equal the char-level models for every string (C02_bytelex_safe, C02_bytelex_source, C02_parsed_vcs_bytes, "
                  "C02_one_byte_guards over the generated character classes; C02_bytelex_prefix_refuted: the pre-d200b95 lexer panics on every "
                  "leading multi-byte character). PARTIAL: (a) wall-clock time, real stack and allocator are measured, not proved: the totality stream "
                  "runs all ~58 public entry points on every case under a supervisor (panic / hang / abort are violations) and totality-scale "
                  "times every entry point on adversarial seeds of growing size (worse-than-quadratic growth or > 5 s is a violation), and totality-stack "
                  "runs every entry point on the repeated seeds in a thread with a 256 KiB stack (stack use growing with the input overflows it: ABORT); (b) the remaining readers (relations lexer: chars().peekable(); lossy readers, pgp, codecs) contain no byte-range slicing "
                  "expression at all — C02_slice_sites_complete: the translator's scan of the library code of the five crates finds exactly the "
                  "transcribed sites (lex.rs 7, vcs.rs 5, changes.rs 1) — and rest on std str methods returning character boundaries (trusted) and on the streams; (c) the "
                  "external parsers themselves (url, chrono, debversion, regex) and the remaining small FromStr impls (checksum/record types, "
                  "lossless typed wrappers, which only wrap Deb822::from_str) are decided by the stream.")
    level_note = ("Models: the cones of C01, C06, C09, C14, C17, C18, C19, C20 (their own notes apply); model/Utf8.v (byte offsets, is_boundary proved equal to "
                  "core::str's test on the encoded bytes), ByteLex.v, ByteVcs.v; the regex Match offsets are a modelled external (byte lengths of the hand matcher's parts). Trusted in addition: the harness supervisor "
                  "(per-case time budget VERIF_CASE_MS, kills and restarts the worker), timing thresholds of totality-scale.")
    rule = ("totality: every one of the ~58 public text-parsing entry points of the five crates on the same input: hand-written snippets of "
            "every file kind with all their truncations, CRLF / trailing-CR / non-ASCII / upper-case variants; every string up to length n over "
            "{A : SP LF - # U+00E9 ( < [}; generated and mutated deb822 documents and relationship fields; totality-scale: wall-clock of every "
            "entry point on adversarial seeds repeated r, 4r, 16r times; totality-stack: the same seeds x 6000 (thorough x 40000) on a 256 KiB thread stack; non-trivial = at least one entry point accepts the input")
    trusted = ["Coq 8.16.1 kernel", "the per-cone models (see the cones' own evidence) — C02 collects their totality theorems",
               "wall-clock, real stack and allocator behaviour are measured by the harness (supervisor kills a case after VERIF_CASE_MS), not proved",
               "extraction, OCaml runner, Rust harness, Python driver"]
    assumptions = ["external parsers reached from the entry points (url, chrono, debversion, regex) are modelled only by their outcome class; they are exercised by the stream"]
    case_ms = 8000

    def streams(self, tier, rng):
        yield "totality", gen_total.cases(tier, rng, "t")
        yield "totality-scale", gen_total.scale_cases(tier, "s")
        yield "totality-stack", gen_total.stack_cases(tier, "k")

    def same(self, stream, model, impl):
        if stream in ("totality-scale", "totality-stack"):
            return True
        if model in ("HANG", "PANIC") or impl in ("HANG", "PANIC", "ABORT", "MISSING"):
            return model == impl
        m = rec_fields(model); i = rec_fields(impl)
        return all(i.get(k) == v for k, v in m.items())

    def oracle(self, stream, fields, impl):
        if impl in ("PANIC", "HANG", "ABORT", "MISSING"):
            return "implementation " + impl
        r = rec_fields(impl)
        if stream in ("totality", "totality-stack"):
            bad = [k for k, v in r.items() if v not in ("OK", "ERR")]
            return ("entry point(s) " + ",".join(bad) + " did not return a value or an error") if bad else None
        for k, v in r.items():
            ts = [x.split(":") for x in v.split(",")]
            if any(t[0] not in ("OK", "ERR") for t in ts):
                return f"entry point {k} did not return a value or an error on a large input"
            us = [int(t[1]) for t in ts]
            if us[-1] > 5_000_000:
                return f"entry point {k} needs {us[-1]/1e6:.1f}s on the largest input"
            if us[-1] > 200_000 and us[-2] > 0 and us[-1] / us[-2] > 40:
                return f"entry point {k}: time grows by x{us[-1]/us[-2]:.0f} for x4 input (worse than quadratic)"
        return None

    def known_class(self, stream, fields, impl, model, why):
        return None

    def nontrivial(self, stream, fields, impl):
        return "=OK" in impl

PROP = C02()
