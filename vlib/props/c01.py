from ..run import Prop
from .. import gen, core
from ..core import rec_fields, unhex, hexs

class C01(Prop):
    id = "C01"
    coq_targets = ["props/C01.vo"]
    props_file = "props/C01.v"
    design_ref = "DESIGN.md §4 C01"
    level_text = 'Coq theorems over all strings (no length bound): the modelled lexer partitions the input into non-empty tokens, the modelled parser keeps every token text in order, both are total (no panic site, fuel suffices), hence from_str_relaxed returns a tree whose text is the input and from_str succeeds exactly when the error list is empty. The lexer is also transcribed at BYTE level (every slice at a byte offset, Panic off a character boundary; arms re-read from src/lex.rs by translate/bytesites.py) and proved to return the same token list for every input (C01_lex_partition_bytes). Tied to the code by a correspondence run (token lists of both lexer models, printed text, error counts, strict result, paragraph items) on every check.'
    level_note = 'Model: src/lex.rs (char level Deb822Lex.v and byte level ByteLex.v), src/common.rs, fn parse of src/lossless.rs.'
    rule = ("corpus (repo test literals, testdata, /verif/corpus/deb822) + every string of length <= n over the "
            "class alphabet {A - : # SP TAB LF CR U+00E9 U+0001} (n=5 quick, 6 thorough) + grammar-generated "
            "documents and their mutations; a case is non-trivial when its implementation record is distinct "
            "and the input has at least 2 tokens")
    trusted = ["Coq 8.16.1 kernel (coqc, vm_compute used for finite witnesses only)",
               "hand-written Coq transcription of src/lex.rs, src/common.rs and fn parse of src/lossless.rs, tied to the code by the deb822-parse correspondence stream on every run",
               "rowan 0.16 GreenNodeBuilder/SyntaxNode::text modelled as an inductive tree with concatenated token text",
               "extraction (ExtrOcamlBasic only), the OCaml runner, the Rust harness and the Python driver",
               "std::io::Read::read_to_string (read/read_relaxed delegate to from_str/from_str_relaxed after it)"]
    assumptions = ["inputs are valid UTF-8 (Rust &str); invalid bytes reach read()/read_relaxed() only as an io::Error"]

    def streams(self, tier, rng):
        yield "deb822-parse", gen.deb822_text_cases(tier, rng, "p")

    def oracle(self, stream, fields, impl):
        inp = fields[0]
        if impl in ("PANIC", "HANG", "ABORT", "MISSING"):
            return "implementation " + impl
        r = rec_fields(impl)
        if "PANIC" in impl.split("|") or r.get("lex") == "PANIC" or r.get("strict") == "PANIC":
            return "implementation panics"
        if r.get("text") != inp:
            return "from_str_relaxed(s).0.to_string() != s"
        toks = r.get("lex", "")
        cat = "".join(t.split(":", 1)[1] for t in toks.split(",")) if toks else ""
        if cat != inp:
            return "token texts do not concatenate to the input"
        if toks and any(t.split(":", 1)[1] == "" for t in toks.split(",")):
            return "empty token"
        strict = r.get("strict", "")
        if (r.get("nerr") == "0") != strict.startswith("OK"):
            return "strict reader result disagrees with tolerant reader's error list"
        if strict.startswith("OK"):
            if strict.split(":")[1] != inp:
                return "from_str(s).to_string() != s"
        # Deb822::read / read_relaxed over the same bytes behave like from_str / from_str_relaxed
        rd, rdr = r.get("read", ""), r.get("readr", "")
        if rdr != f"{inp}:{r.get('nerr')}":
            return "read_relaxed over the same bytes differs from from_str_relaxed (text or error count)"
        if rd.startswith("OK") != strict.startswith("OK") or (rd.startswith("OK") and rd[3:] != inp):
            return "read over the same bytes differs from from_str"
        return None

    def nontrivial(self, stream, fields, impl):
        return impl.count(",") >= 1

    def neighbours(self, stream, fields):
        s = unhex(fields[0])
        out = []
        for i in range(len(s) + 1):
            out.append(s[:i])
            for c in gen.DEB822_ALPHABET:
                out.append(s[:i] + c + s[i:])
                if i < len(s): out.append(s[:i] + c + s[i+1:])
        return [[hexs(x)] for x in dict.fromkeys(out)][:3000]

PROP = C01()
