"""C04H — store-level counterpart of C04/C05: edits through handles obtained at any earlier time.
A helper check for the cone coq/props/C04H.v (to be folded into C04's and C05's checks): proof
cone + the deb822-store correspondence stream (runner = coq/model/Deb822Store.v) + an oracle that
replays the list-of-lists model with paragraph IDENTITIES."""
from ..run import Prop
from .. import gen_store
from ..core import rec_fields, unhex
from .c06 import parse_doc_items

def parse_items(s):
    fs = []
    if s:
        for f in s.split(","):
            k, v = f.split("=", 1)
            fs.append((unhex(k), unhex(v)))
    return fs

def pairs1(enc):
    return [] if enc in ("-", "") else parse_items(enc)

class C04H(Prop):
    id = "C04H"
    claimed = False
    coq_targets = ["props/C04H.vo"]
    props_file = "props/C04H.v"
    design_ref = "DESIGN.md §3 C04/C05 (handles)"
    level_text = ("Coq theorems (coq/props/C04H.v): the store-level model of the deb822 editing API (coq/model/Deb822Store.v: trees + re-based handles, "
                  "splice_children / detach / attach as rowan 0.16.1 performs them) refines the pure model of C04/C05 for every history issued through "
                  "paragraph handles obtained at any earlier time.")
    level_note = "Model: coq/model/Deb822Store.v."
    rule = ("deb822-store: initial document (new / from pairs / parsed well-formed or arbitrary text) x 4 paragraph registers x program of 1-16 "
            "instructions: take a handle to paragraph i into a register, build a free-standing paragraph, set/insert/remove/rename through a register, "
            "add/insert_paragraph (result handle into a register), remove_paragraph; non-trivial = at least one instruction")
    trusted = ["Coq 8.16.1 kernel", "rowan 0.16.1 red-layer semantics (detach, attach_child, splice_children, lazy sibling iteration, index) as modelled by the store of Deb822Store.v, validated by the stream",
               "hand transcription of the editing functions of src/lossless.rs", "extraction, OCaml runner, Rust harness, Python driver and oracle"]
    assumptions = []
    case_ms = 20000

    def streams(self, tier, rng):
        n = {"quick": 20000, "search": 50000, "thorough": 200000}[tier]
        yield "deb822-store", gen_store.corpus_cases()
        yield "deb822-store", gen_store.store_cases(n, rng, "h")
        yield "deb822-store", gen_store.store_cases(n // 3, rng, "a", wf=False, canon=False)

    empty_renames = 0
    def oracle(self, stream, fields, impl):
        if impl in ("PANIC", "HANG", "ABORT", "MISSING", "ERR"):
            return "implementation " + impl
        r = rec_fields(impl)
        if "init" not in r: return "no record"
        text0, items0 = r["init"].split("~", 1)
        doc = [list(p) for p in parse_doc_items(items0)]      # paragraph OBJECTS: identity matters
        nregs = int(fields[1])
        regs = [None] * nregs
        ops = [o for o in fields[2].split(" ") if o and o != "-"]
        steps = r.get("steps", "").split("/") if ops else []
        if len(steps) != len(ops): return "wrong number of step records"
        for op, st in zip(ops, steps):
            code, rest = st.split(":", 1)
            text, items, rs = rest.split("~", 2)
            parts = op.split(":")
            o = parts[0]; want = "0"
            if o == "G":
                i = int(parts[2]); regs[int(parts[1])] = doc[i] if i < len(doc) else None
                want = "4" if i < len(doc) else "5"
            elif o == "P":
                regs[int(parts[1])] = pairs1(parts[2]); want = "4"
            elif o in "SIRN":
                p = regs[int(parts[1])]
                if p is None: want = "1"
                else:
                    k = unhex(parts[2])
                    if o == "S":
                        v = unhex(parts[3]); idx = next((i for i, (n, _) in enumerate(p) if n == k), None)
                        if idx is None: p.append((k, v))
                        else: p[idx] = (k, v)
                    elif o == "I": p.append((k, unhex(parts[3])))
                    elif o == "R": p[:] = [(n, v) for n, v in p if n != k]
                    else:
                        idx = next((i for i, (n, _) in enumerate(p) if n == k), None)
                        if idx is None: want = "3"
                        else:
                            p[idx] = (unhex(parts[3]), p[idx][1]); want = "2"
                            if p[idx][1] == "": self.empty_renames += 1
            elif o == "A":
                p = []; doc.append(p); regs[int(parts[1])] = p
            elif o == "J":
                p = []; i = int(parts[2]); doc.insert(min(i, len(doc)), p); regs[int(parts[1])] = p
            elif o == "D":
                i = int(parts[1])
                if i < len(doc): del doc[i]
            if code != want: return f"{o}: outcome {code}, the model with identities says {want}"
            if parse_doc_items(items) != doc: return f"{o}: the document does not report what the edits through the handles amount to"
            got = rs.split(".")
            for k in range(nregs):
                if regs[k] is None:
                    if got[k] != "-": return f"{o}: register {k} should be empty"
                else:
                    if got[k] == "-": return f"{o}: register {k} lost its paragraph"
                    _, its = got[k][1:].split("!", 1)
                    if parse_items(its) != regs[k]: return f"{o}: the handle in register {k} no longer denotes its paragraph"
        return None

    def nontrivial(self, stream, fields, impl):
        return "=" in impl and fields[2] != "-"
    def shrink_field(self, stream):
        return None

PROP = C04H()
