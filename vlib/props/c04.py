from ..run import Prop
from .. import gen_edit, core
from ..core import rec_fields, unhex, hexs
from .c06 import parse_doc_items, parse_ldoc_enc, nb

def comment_lines(text):
    return [l for l in text.split("\n") if l.startswith("#")]

def tagged_comment_lines(text):
    """(comment line, is it inside a paragraph?) in text order"""
    out = []; in_para = False
    for l in text.split("\n"):
        if l.startswith("#"): out.append((l, in_para))
        elif l == "": in_para = False
        else: in_para = True
    return out

def comments_ok_after_remove(before, after):
    """removing a paragraph may only drop comment lines that were inside a paragraph"""
    b = tagged_comment_lines(before); a = comment_lines(after)
    i = 0
    for c, inside in b:
        if i < len(a) and a[i] == c: i += 1
        elif not inside: return False
    return i == len(a)

def same_or_terminated(a, b):
    """appending after an unterminated last line first terminates it: the only change allowed to another paragraph"""
    return a == b or (len(a) == len(b) and a[:-1] == b[:-1] and len(b) > 0 and not b[-1].endswith("\n") and a[-1] == b[-1] + "\n")

def replay_field_op(doc, op):
    """the list-of-lists reading of one operation; returns (new doc, note)"""
    parts = op.split(":")
    o = parts[0]
    d = [list(p) for p in doc]
    if o in "SIRN":
        p = int(parts[1])
        if p >= len(d): return d, "skip"
        k = unhex(parts[2])
        if o == "S":
            v = unhex(parts[3])
            idx = next((i for i, (n, _) in enumerate(d[p]) if n == k), None)
            if idx is None: d[p].append((k, v))
            else: d[p][idx] = (k, v)
        elif o == "I":
            d[p].append((k, unhex(parts[3])))
        elif o == "R":
            d[p] = [(n, v) for n, v in d[p] if n != k]
        else:
            new = unhex(parts[3])
            idx = next((i for i, (n, _) in enumerate(d[p]) if n == k), None)
            if idx is None: return d, "notfound"
            d[p][idx] = (new, d[p][idx][1])
            return d, "renamed" if d[p][idx][1] else "renamed-empty"
        return d, ""
    if o == "A":
        d.append([]); return d, ""
    if o == "J":
        i = int(parts[1]); d.insert(min(i, len(d)), []); return d, ""
    if o == "D":
        i = int(parts[1])
        if i < len(d): del d[i]
        return d, ""
    raise ValueError(op)

class EditProp(Prop):
    para_ops = False
    empty_renames = 0
    @property
    def extra_coverage(self):
        from .c04h import PROP as H
        return {"renames_of_a_field_without_value": {"deb822-edit": self.empty_renames, "deb822-store": H.empty_renames}}
    extra_props_files = ["props/C04H.v"]       # store-level handle aliasing (docs/cones/C04H.md)
    def store_streams(self, tier, rng):
        from .. import gen_store
        n = {"quick": 6000, "search": 20000, "thorough": 100000}[tier]
        yield "deb822-store", gen_store.corpus_cases()
        yield "deb822-store", gen_store.store_cases(n, rng, "h")
        yield "deb822-store", gen_store.store_cases(n // 3, rng, "a", wf=False, canon=False)
    def oracle(self, stream, fields, impl):
        if stream == "deb822-store":
            from .c04h import PROP as H
            return H.oracle(stream, fields, impl)
        if impl in ("PANIC", "HANG", "ABORT", "MISSING"):
            return "implementation " + impl
        if stream.endswith("-any"):
            return None if "HANDLE-MISMATCH" not in impl else "a handle obtained earlier no longer denotes its paragraph"
        r = rec_fields(impl)
        if "init" not in r: return "no record"
        text0, items0, pt0 = r["init"].split("~", 2)
        doc = parse_doc_items(items0)
        # a document built from name/value pairs reports exactly those pairs
        if fields[0].startswith("F:") and doc != parse_ldoc_enc(fields[0][2:]):
            return "the paragraph built from name/value pairs does not report those pairs"
        if fields[0] == "N" and doc != []:
            return "the new document is not empty"
        text = unhex(text0)
        ptx = [unhex(x) for x in pt0.split(".")[:-1]]
        ops = [o for o in fields[1].split(" ") if o and o != "-"]
        steps = r.get("steps", "").split("/") if ops else []
        if len(steps) != len(ops): return "wrong number of step records"
        for op, st in zip(ops, steps):
            pre, items, pt = st.split("~", 2)
            note = ""
            for nt in ("skip", "renamed", "notfound", "HANDLE-MISMATCH"):
                if pre.startswith(nt): note = nt; pre = pre[len(nt):]
            if "HANDLE-MISMATCH" in st: return "a handle obtained earlier does not see the edit"
            doc, want_note = replay_field_op(doc, op)
            if want_note == "renamed-empty":
                want_note = "renamed"; self.empty_renames += 1
            if note != want_note: return f"{op.split(':')[0]}: outcome {note!r}, list model says {want_note!r}"
            got = parse_doc_items(items)
            if got != doc:
                return f"{op.split(':')[0]} does not act like the list operation"
            new_text = unhex(pre)
            new_ptx = [unhex(x) for x in pt.split(".")[:-1]]
            o = op.split(":")[0]
            # frame: the text of every other paragraph, and every comment outside the touched paragraph
            if o in "SIRN" and want_note != "skip":
                p = int(op.split(":")[1])
                if new_ptx[:p] + new_ptx[p+1:] != ptx[:p] + ptx[p+1:]: return f"{o} changed the text of another paragraph"
                if comment_lines(new_text) != comment_lines(text): return f"{o} changed a comment line"
            elif o == "A":
                if not same_or_terminated(new_ptx[:-1], ptx): return "A changed the text of an existing paragraph"
                if comment_lines(new_text) != comment_lines(text): return "A changed a comment line"
            elif o == "J":
                i = min(int(op.split(":")[1]), len(ptx))
                rest = new_ptx[:i] + new_ptx[i+1:]
                if not (rest == ptx or (i == len(ptx) and same_or_terminated(rest, ptx))): return "J changed the text of an existing paragraph"
                if comment_lines(new_text) != comment_lines(text): return "J changed a comment line"
            elif o == "D":
                i = int(op.split(":")[1])
                removed = ptx[i] if i < len(ptx) else ""
                want = ptx[:i] + ptx[i+1:]
                if new_ptx != want: return "D changed the text of another paragraph"
                cb = comment_lines(text); ca = comment_lines(new_text); cr = comment_lines(removed)
                # the comments after = the comments before minus those inside the removed paragraph
                it = iter(cb)
                if sorted(ca + cr) != sorted(cb) or not all(c in it for c in ca):
                    return "D changed a comment line outside the removed paragraph"
            text = new_text; ptx = new_ptx
        rr = r.get("reread", "")
        if not rr.startswith("OK"): return "the printed document does not re-read without error"
        if parse_doc_items(rr[3:]) != [p for p in doc if p]:
            return "the printed document re-reads to different content than the live object reports"
        return None
    def nontrivial(self, stream, fields, impl):
        return "=" in impl and fields[1] != "-"
    def shrink_field(self, stream):
        return None

class C04(EditProp):
    id = "C04"
    coq_targets = ["props/C04.vo", "props/C04H.vo"]
    props_file = "props/C04.v"
    design_ref = "DESIGN.md §4 C04, §8"
    level_text = ("Coq theorems: (1) refinement for EVERY tree, name, value and history: doc_items after the tree edits = the list edits "
                  "(set replaces the first field of the name in place or appends, insert appends, remove deletes all, rename changes the first "
                  "field's name keeping position and value); (2) frame for every tree: an edit of paragraph n leaves every other child of the "
                  "root untouched, set replaces exactly one entry or appends after terminating the last line (at most one LF added before it); "
                  "(3) every parsed well-formed document and every paragraph built from canonical pairs is a live document (LiveDoc.lwf); "
                  "(4) for every history with arguments in the domain (set/insert: valid name, canonical non-empty value; rename: valid new name, "
                  "whatever value the renamed field carries, also none), from every live document: the result is a live document whose printed "
                  "text re-reads without error to the non-empty paragraphs the live object reports; (5) handle aliasing (props/C04H.v): a "
                  "store-level model of the editing API (Deb822Store.v: mutable trees with node identities, splice_children / detach / attach as "
                  "rowan 0.16.1 performs them) refines the pure model for every history issued through paragraph handles obtained at ANY "
                  "earlier time - no panic, the document is the pure model's result with each edit applied where its handle's paragraph "
                  "currently is, every handle keeps denoting its paragraph (a removed paragraph lives on detached: Dead), so (4) holds for "
                  "such histories (C04_handles_history_every, C05_handles_history_every); the deb822-store stream runs that model against the code with four handle registers, and deb822-edit "
                  "performs every edit through handles obtained before all earlier edits. "
                  "Rename of a field whose value is empty is inside (4): Entry::new then writes one empty VALUE token, which the reader never "
                  "produces, so (4) says live_tree (coq/model/LiveTree.v): the tree with its empty VALUE tokens dropped is the tree of the "
                  "live layout - same text, same content, same re-read; every later edit (also a rename through that entry) keeps it. "
                  "C04_history_exact keeps the older exact statement (tree = layout tree) for histories whose renamed fields carry a value.")
    level_note = "Model: Entry::new, Paragraph::{set,insert,remove,rename}, ensure_trailing_newline in src/lossless.rs over the rowan tree model (coq/model/Deb822Edit.v)."
    rule = ("deb822-edit: initial document (Deb822::new / FromIterator of pairs / parsed well-formed Grammar document with all layout knobs) x random "
            "history (1-12 ops) of set/insert/remove/rename on paragraphs 0-3 with values in the property's domain; renames aim at fields without a "
            "value (40% when the document has one; 15% of the parsed documents get such fields on purpose) and at the result of an earlier rename, "
            "plus a fixed corpus of such histories (gen_edit.corpus_cases); the evidence counts them (renames_of_a_field_without_value); deb822-edit-any: arbitrary and "
            "malformed initial text and values (correspondence + handle check only); non-trivial = at least one op on a document with a field")
    trusted = ["Coq 8.16.1 kernel", "rowan 0.16.1 mutable-tree semantics as modelled in coq/model/Deb822Edit.v (splice/detach/iteration, aliasing of handles), validated by the stream",
               "hand transcription of the editing functions", "extraction, OCaml runner, Rust harness, Python driver"]
    assumptions = ["values: non-empty lines without LF/CR, not starting with space/tab, continuation lines not starting with '#'; names valid"]
    def streams(self, tier, rng):
        n = {"quick": 6000, "search": 20000, "thorough": 200000}[tier]
        yield "deb822-edit", gen_edit.corpus_cases()
        yield "deb822-edit", gen_edit.edit_cases(n, rng, "e", para_ops=False)
        yield "deb822-edit-any", gen_edit.edit_cases(n // 3, rng, "a", para_ops=True, wf=False, canon=False)
        yield from self.store_streams(tier, rng)

PROP = C04()
