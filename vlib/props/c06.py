from ..run import Prop
from .. import gen, gen_grammar, core
from ..core import rec_fields, unhex, hexs

def parse_doc_items(s):
    """'[k=v,k=v][k=v]' (hex) -> list of paragraphs of (name, value) strings"""
    out = []
    if s == "":
        return out
    assert s[0] == "[" and s[-1] == "]", s[:50]
    for p in s[1:-1].split("]["):
        fs = []
        if p:
            for f in p.split(","):
                k, v = f.split("=", 1)
                fs.append((unhex(k), unhex(v)))
        out.append(fs)
    return out

def parse_ldoc_enc(s):
    """the INPUT encoding of lossy documents: paragraphs ';' fields ',' name=value (hex)"""
    out = []
    if s in ("", "-"):
        return out
    for p in s.split(";"):
        fs = []
        if p:
            for f in p.split(","):
                k, v = f.split("=", 1)
                fs.append((unhex(k), unhex(v)))
        out.append(fs)
    return out

def nb(v):
    return [l for l in v.split("\n") if l.strip(" \t") != ""]

class C06(Prop):
    id = "C06"
    coq_targets = ["props/C06.vo"]
    props_file = "props/C06.v"
    design_ref = "DESIGN.md §4 C06"
    level_text = ("Coq theorems: for every well-formed document (Grammar.wf_doc) the lossy reader accepts render d and returns exactly "
                  "lossy_content d (per field: first line, LF, continuation lines joined by LF), whose non-blank value lines, names and paragraph "
                  "structure equal those of the lossless reader's content d (joint acceptance + agreement on all well-formed documents); the lossy "
                  "reader is total (no panic, fuel suffices) on every input. The full statement is proved too (C06_lossy_implies_lossless, C06_full): "
                  "for EVERY text, well-formed or not, if the lossy reader accepts it then the lossless reader accepts it without a syntax error and "
                  "the two report the same paragraphs, names and non-blank value lines (via an automaton over token kinds that every lexer output "
                  "satisfies, LexInvP.v, and a step-by-step simulation of the two readers, AgreeP.v). The lossy-parse stream (every string up to "
                  "length 5/6 over the lexer's character classes, generated and mutated documents) ties both models to the code and evaluates the "
                  "agreement oracle on the implementation.")
    level_note = "Model: src/lossy.rs (FromStr for Deb822/Paragraph), src/lex.rs, fn parse of src/lossless.rs; Grammar.v as the definition of well-formed."
    rule = ("lossy-parse: the C01 case set (corpus, exhaustive-small over class alphabet, generated + mutated docs); lossy-wf: rendered random "
            "Grammar.doc inhabitants; non-trivial = both readers accept and at least one field")
    trusted = ["Coq 8.16.1 kernel", "hand transcription of src/lossy.rs reader (validated by lossy-parse correspondence)",
               "Grammar.v", "extraction, OCaml runner, Rust harness, Python driver"]
    assumptions = ["non-blank line = a line of the value, split at LF, that is not empty after removing spaces and tabs"]

    def streams(self, tier, rng):
        yield "lossy-parse", gen.deb822_text_cases(tier, rng, "l")
        n = {"quick": 5000, "search": 20000, "thorough": 100000}[tier]
        yield "lossy-wf", [(cid, [f[0]]) for cid, f in gen_grammar.doc_cases(n, rng, "w")]

    def oracle(self, stream, fields, impl):
        if impl in ("PANIC", "HANG", "ABORT", "MISSING"):
            return "implementation " + impl
        r = rec_fields(impl)
        for k in ("lossy", "lpara", "strict"):
            if r.get(k) in ("PANIC", "HANG", None):
                return f"implementation {r.get(k)} in {k}"
        lo, st = r["lossy"], r["strict"]
        if stream == "lossy-wf":
            if not lo.startswith("OK"): return "lossy reader rejects a well-formed document"
            if not st.startswith("OK"): return "lossless reader rejects a well-formed document"
        if lo.startswith("OK") and st.startswith("OK"):
            a = parse_doc_items(lo[3:]); b = parse_doc_items(st[3:])
            if len(a) != len(b): return "readers disagree on the number of paragraphs"
            for pa, pb in zip(a, b):
                if [k for k, _ in pa] != [k for k, _ in pb]: return "readers disagree on field names/order"
                for (_, va), (_, vb) in zip(pa, pb):
                    if nb(va) != nb(vb): return "readers disagree on the non-blank lines of a value"
        # lossy::Paragraph::from_str = the single paragraph
        if lo.startswith("OK"):
            a = parse_doc_items(lo[3:])
            want_ok = len(a) == 1
            if r["lpara"].startswith("OK") != want_ok: return "lossy Paragraph::from_str disagrees with lossy Deb822::from_str"
        elif r["lpara"].startswith("OK"):
            return "lossy Paragraph::from_str accepts what lossy Deb822::from_str rejects"
        return None

    def nontrivial(self, stream, fields, impl):
        r = rec_fields(impl)
        return r.get("lossy", "").startswith("OK") and r.get("strict", "").startswith("OK") and "=" in r["lossy"]

    def neighbours(self, stream, fields):
        s = unhex(fields[0]); out = []
        for i in range(len(s) + 1):
            out.append(s[:i])
            for c in gen.DEB822_ALPHABET:
                out.append(s[:i] + c + s[i:])
        return [[hexs(x)] for x in dict.fromkeys(out)][:3000]

PROP = C06()
