from ..run import Prop
from .. import gen_lossy, core
from ..core import rec_fields, unhex, hexs
from .c06 import parse_doc_items, parse_ldoc_enc, nb

class C08(Prop):
    id = "C08"
    coq_targets = ["props/C08.vo"]
    props_file = "props/C08.v"
    design_ref = "DESIGN.md §4 C08"
    level_text = ("Coq theorems over every canonical lossy document (LossySpec.canon_doc, no size bound): print_doc d is the rendering of a "
                  "well-formed layout with exactly one blank line between paragraphs; the lossy reader turns it back into d exactly; the lossless "
                  "reader accepts it and reports the same names and non-blank value lines (exact values given by content (layout_doc d)); get is the "
                  "first match, set replaces the first match in place or appends, insert appends, remove deletes every match, all other fields and "
                  "their order untouched (for every paragraph, no side condition); C08_paragraph: the same round trip for a single non-empty paragraph "
                  "through Paragraph::from_str. The canonical domain excludes three kinds of value the English admits (continuation line starting "
                  "with '#', CR inside a line, empty paragraph inside a document): each is a recorded known finding, not a silent exclusion, and "
                  "each guard is shown necessary by a witness. Tied to the "
                  "code by the lossy-rt stream (print, both re-reads, and get/set/insert/remove histories compared step by step).")
    level_note = "Model: src/lossy.rs (Display for Field/Paragraph/Deb822 incl. str::lines, FromStr, Paragraph::{get,set,insert,remove}); Grammar.v / LossySpec.v as specification."
    rule = ("lossy-rt: random canonical lossy documents (1-3 paragraphs, 1-5 fields, values with 0-5 lines incl. empty values, empty first "
            "lines, trailing spaces, Unicode, ':' and '#' inside lines) each with a random get/set/insert/remove history of length 0-12; a "
            "second stream lossy-rt-any adds non-canonical values (correspondence only); non-trivial = at least one multi-line value or one op")
    trusted = ["Coq 8.16.1 kernel", "hand transcription of src/lossy.rs printer incl. the model of str::lines() (validated by lossy-rt)",
               "Grammar.v/LossySpec.v", "extraction, OCaml runner, Rust harness, Python driver"]
    assumptions = ["the theorems' domain LossySpec.canon_doc is narrower than the property's English in three places, each a recorded finding class "
                   "generated on purpose and shown necessary by a witness: a continuation line starting with '#' (printed indented it is a comment to both "
                   "readers: C08_hash_guard_needed), a CR inside a value line (printed, it ends the line: C08_cr_guard_needed), an empty paragraph "
                   "inside a document (prints nothing: C08_empty_paragraph_guard_needed)"]

    def streams(self, tier, rng):
        n = {"quick": 8000, "search": 30000, "thorough": 300000}[tier]
        yield "lossy-rt", gen_lossy.rt_cases(n, rng, "c", canon=True)
        yield "lossy-rt-any", gen_lossy.rt_cases(n // 4, rng, "n", canon=False)
        yield "lossy-rt", gen_lossy.edge_cases(max(300, n // 20), rng, "x")

    def known_class(self, stream, fields, impl, model, why):
        """values the English admits and the code does not turn back into an equal value: recorded, narrow classes"""
        if stream != "lossy-rt" or not why or not ("printed" in why or "lossless reader" in why or "blank line" in why):
            return None
        d = parse_ldoc_enc(fields[0])
        if any(any(l.startswith("#") for l in v.split("\n")[1:]) for p in d for _, v in p):
            return "c08-hash-continuation-line"
        if any("\r" in v for p in d for _, v in p):
            return "c08-cr-in-value"
        if any(p == [] for p in d):
            return "c08-empty-paragraph"
        return None

    def oracle(self, stream, fields, impl):
        if impl in ("PANIC", "HANG", "ABORT", "MISSING"):
            return "implementation " + impl
        if stream == "lossy-rt-any":
            return None
        r = rec_fields(impl)
        d = parse_ldoc_enc(fields[0])
        if not r.get("reread", "").startswith("OK"):
            return "lossy reader rejects the printed form of a canonical value"
        if parse_doc_items(r["reread"][3:]) != d:
            return "lossy reader does not turn the printed text back into an equal value"
        if not r.get("lossless", "").startswith("OK"):
            return "lossless reader rejects the printed form of a canonical value"
        ll = parse_doc_items(r["lossless"][3:])
        if [[(k, nb(v)) for k, v in p] for p in ll] != [[(k, nb(v)) for k, v in p] for p in d]:
            return "lossless reader reports different content for the printed text"
        text = unhex(r["text"])
        if "\n\n\n" in text or text.startswith("\n"):
            return "paragraphs not separated by exactly one blank line"
        # the edit history against a plain list of pairs
        p = list(d[0]) if d else []
        ops = [o for o in fields[1].split(" ") if o and o != "-"]
        outs = r.get("ops", "").split("/") if ops else []
        if len(outs) != len(ops):
            return "edit history: wrong number of step records"
        for op, got in zip(ops, outs):
            parts = op.split(":")
            k = unhex(parts[1])
            if parts[0] == "g":
                want = next((v for n, v in p if n == k), None)
                exp = "g-" if want is None else "g+" + hexs(want)
            else:
                v = unhex(parts[2]) if len(parts) > 2 else None
                if parts[0] == "s":
                    idx = next((i for i, (n, _) in enumerate(p) if n == k), None)
                    if idx is None: p.append((k, v))
                    else: p[idx] = (k, v)
                elif parts[0] == "i":
                    p.append((k, v))
                else:
                    p = [(n, x) for n, x in p if n != k]
                exp = parts[0] + ",".join(hexs(n) + "=" + hexs(x) for n, x in p)
            if got != exp:
                return f"edit history: {parts[0]} does not act like the list operation"
        return None

    def nontrivial(self, stream, fields, impl):
        return "0a" in fields[0] or fields[1] != "-"

    def shrink_field(self, stream):
        return None

PROP = C08()
