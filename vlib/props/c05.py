from .. import gen_edit
from .c04 import EditProp

class C05(EditProp):
    id = "C05"
    coq_targets = ["props/C05.vo", "props/C04H.vo"]
    props_file = "props/C05.v"
    design_ref = "DESIGN.md §4 C05, §8"
    level_text = ("Coq theorems, for every finite history of add / insert(i) / remove(i) (every index, in and out of range) interleaved with "
                  "the field edits of C04 in C04's full domain (rename of any field, also one without value: the tree is then the live layout's tree "
                  "up to the empty VALUE tokens Entry::new writes, LiveTree.live_tree; C05_history_exact: exactly that tree when every renamed field "
                  "carries a value), from the empty document or any parsed well-formed document (any live document): the live object "
                  "reports exactly the list-model content (push, insert(i) with append beyond the end, remove(i) with no-op beyond the end); "
                  "each step changes the layout exactly as a_add/a_insert_para/a_remove_para say (new empty paragraph + one blank line, resp. the "
                  "removed paragraph + one following blank line; every other paragraph, comment and blank line untouched, except that appending "
                  "first terminates an unterminated last line); the result is again a live document, so paragraphs stay separated by a blank "
                  "line and the printed text re-reads without error to the same non-empty paragraphs in order. Handle aliasing (the Paragraph "
                  "returned by add/insert edits the document) is checked by the deb822-edit stream. Handles: the store-level model (props/C04H.v, C05_handles_history_every / C05_handles_history) shows the same for histories issued through handles obtained at any earlier time, including the paragraph handles returned by add/insert_paragraph.")
    level_note = "Model: Deb822::{add_paragraph, insert_paragraph, remove_paragraph, convert_index, delete_trailing_space, FromIterator} in src/lossless.rs over coq/model/Deb822Edit.v."
    rule = ("deb822-edit: initial document (new / from pairs / parsed well-formed document incl. leading/trailing comments, several blank lines, "
            "missing final newline) x random history (1-12 ops) of add/insert(i)/remove(i) with i in and out of range interleaved with field edits; "
            "non-trivial = at least one op")
    trusted = ["Coq 8.16.1 kernel", "rowan 0.16.1 mutable-tree semantics as modelled in coq/model/Deb822Edit.v, validated by the stream",
               "hand transcription of the editing functions", "extraction, OCaml runner, Rust harness, Python driver"]
    assumptions = ["a freshly added paragraph is empty and prints nothing: the re-read clause compares the non-empty paragraphs"]
    def streams(self, tier, rng):
        n = {"quick": 6000, "search": 20000, "thorough": 200000}[tier]
        yield "deb822-edit", gen_edit.corpus_cases()
        yield "deb822-edit", gen_edit.edit_cases(n, rng, "p", para_ops=True)
        yield from self.store_streams(tier, rng)

PROP = C05()
