"""Case generators and reference definitions for the lossy relations cone (C14).
Every random choice derives from the rng handed in.

A lossy value is kept as plain Python data:
  relation  = {"name": str, "q": None|str, "ver": None|(op, epoch|None, upstream, revision|None),
               "archs": None|[str], "profs": [[(negated: bool, name: str)]]}
  relations = [[relation]]
and travels in case files / records in the syntax documented in harness/src/s_rellossy.rs."""
import itertools, re
from . import gen
from .core import hexs, unhex

OPS = {"ge": ">=", "le": "<=", "eq": "=", "gt": ">>", "lt": "<<"}
IDENT_CHARS = "abcdefghijklmnopqrstuvwxyzABCDEFGHIJKLMNOPQRSTUVWXYZ0123456789-.+~"
U32_MAX = 4294967295

# ---------------------------------------------------------------- value syntax
def opt_s(x):
    return "-" if x is None else "+" + hexs(x)
def opt_of(s):
    return None if s == "-" else unhex(s[1:])

def ver_s(v):
    op, ep, up, rev = v
    return "%s:%s:%s:%s" % (op, "-" if ep is None else str(ep), hexs(up), opt_s(rev))

def rel_s(r):
    ver = "-" if r["ver"] is None else ver_s(r["ver"])
    archs = "-" if r["archs"] is None else ",".join(["L"] + [hexs(a) for a in r["archs"]])
    profs = ";".join(["P"] + [",".join(["G"] + [("d." if neg else "e.") + hexs(n) for neg, n in g]) for g in r["profs"]])
    return "~".join([hexs(r["name"]), opt_s(r["q"]), ver, archs, profs])
def entry_s(e):
    return "/".join(["E"] + [rel_s(r) for r in e])
def rels_s(rs):
    return "&".join(["R"] + [entry_s(e) for e in rs])

def rel_of(s):
    n, q, v, a, p = s.split("~")
    ver = None
    if v != "-":
        op, ep, up, rev = v.split(":")
        ver = (op, None if ep == "-" else int(ep), unhex(up), opt_of(rev))
    archs = None if a == "-" else [unhex(x) for x in a.split(",")[1:]]
    profs = [[(t[0] == "d", unhex(t[2:])) for t in g.split(",")[1:]] for g in p.split(";")[1:]]
    return {"name": unhex(n), "q": opt_of(q), "ver": ver, "archs": archs, "profs": profs}
def entry_of(s):
    return [rel_of(x) for x in s.split("/")[1:]]
def rels_of(s):
    return [entry_of(e) for e in s.split("&")[1:]]

def mk(name, q=None, ver=None, archs=None, profs=()):
    return {"name": name, "q": q, "ver": ver, "archs": archs,
            "profs": [[(t.startswith("!"), t.lstrip("!")) if isinstance(t, str) else t for t in g] for g in profs]}

# ---------------------------------------------------------------- reference printer (the patched Display)
def print_version(v):
    _, ep, up, rev = v
    return ("" if ep is None else "%d:" % ep) + up + ("" if rev is None else "-" + rev)
def print_relation(r, sep=" "):
    t = r["name"]
    if r["q"] is not None: t += ":" + r["q"]
    if r["ver"] is not None: t += " (%s %s)" % (OPS[r["ver"][0]], print_version(r["ver"]))
    if r["archs"] is not None: t += " [" + " ".join(r["archs"]) + "]"
    for g in r["profs"]:
        t += " <" + sep.join(("!" if neg else "") + n for neg, n in g) + ">"
    return t
def print_relations(rs, sep=" "):
    return ", ".join(" | ".join(print_relation(r, sep) for r in e) for e in rs)

# ---------------------------------------------------------------- the domain (mirror of RelLossy.relations_okb)
def ident_ok(s):
    return len(s) > 0 and all(c in IDENT_CHARS for c in s)
def arch_ok(s):
    return ident_ok(s[1:]) if s.startswith("!") else ident_ok(s)
REV_CHARS = set(IDENT_CHARS) - {"-"}
def version_canonical(v):
    _, ep, up, rev = v
    if ep is not None and not (0 <= ep <= U32_MAX): return False
    if up == "": return False
    for c in up:
        if c == ":":
            if ep is None: return False
        elif c == "-":
            if rev is None: return False
        elif c not in IDENT_CHARS:
            return False
    if rev is not None and (rev == "" or any(c not in REV_CHARS for c in rev)): return False
    return True
def relation_valid(r):
    return (ident_ok(r["name"]) and (r["q"] is None or ident_ok(r["q"]))
            and (r["ver"] is None or version_canonical(r["ver"]))
            and (r["archs"] is None or all(arch_ok(a) for a in r["archs"]))
            and all(ident_ok(n) for g in r["profs"] for _, n in g))
def relations_valid(rs):
    return all(len(e) > 0 and all(relation_valid(r) for r in e) for e in rs)

def max_digit_run(v):
    """largest number written by a run of digits in the upstream version or the revision"""
    _, _, up, rev = v
    runs = re.findall(r"[0-9]+", up) + (re.findall(r"[0-9]+", rev) if rev else [])
    return max([int(x) for x in runs] or [0])
def has_big_digit_run(rs):
    return any(r["ver"] is not None and max_digit_run(r["ver"]) >= 2 ** 31 for e in rs for r in e)

# independent reading of debversion's pattern (Python's re has the same leftmost-first semantics)
_DV = re.compile(r"^(?:(\d+):)?([A-Za-z0-9.+:~-]+?)(?:-([A-Za-z0-9+.~]+))?\Z")
def py_debversion(s):
    m = _DV.match(s)
    if not m: return None
    ep, up, rev = m.groups()
    if ep is not None:
        if not all(c in "0123456789" for c in ep) or int(ep) > U32_MAX: return None
        ep = int(ep)
    return (ep, up, rev)

# ---------------------------------------------------------------- random values
NAMES = ["a", "b", "libc6", "python3-dulwich", "g++", "x.y", "foo~bar", "0ad", "libstdc++6", "A-Z.9"]
QUALS = ["any", "native", "amd64"]
ARCHS = ["amd64", "i386", "any", "linux-any", "kfreebsd-amd64", "hurd-i386"]
PROFS = ["nocheck", "stage1", "cross", "pkg.foo.bar", "nodoc"]
UPSTREAMS = ["1", "1.0", "2.0", "0.19.0+dfsg", "1.0~rc1", "2021.03.04", "1.2.3a", "0", "09", "1+b1", "r5"]
REVS = ["1", "2~bpo10+1", "0ubuntu1", "1.1", "3+b2"]

def rand_ident(rng, first=None):
    n = rng.choice([1, 1, 2, 3, 5, 8, 12])
    return "".join(rng.choice(first or IDENT_CHARS) if i == 0 else rng.choice(IDENT_CHARS) for i in range(n))

def rand_version(rng, big=False):
    ep = rng.choice([None, None, None, 0, 1, 7, 2 ** 31, U32_MAX])
    rev = rng.choice([None, None] + REVS) if rng.random() < 0.8 else rand_ident(rng).replace("-", "~")
    if rng.random() < 0.6:
        up = rng.choice(UPSTREAMS)
    else:
        up = rand_ident(rng)
        if rev is None: up = up.replace("-", ".")
    if ep is not None and rng.random() < 0.15: up += ":" + rng.choice(UPSTREAMS)
    if ep is not None and rng.random() < 0.15: up = rng.choice(UPSTREAMS) + ":" + up
    if ep is not None and rng.random() < 0.02: up = rng.choice([up + ":", ":" + up, up + "::" + up, ":"])     # empty segment
    if rev is not None and rng.random() < 0.15: up += "-" + rng.choice(["1", "x", "2.0"])
    if big:
        up = rng.choice(["20230101120000", "2147483648", "1.99999999999", "0~4294967296"])
    return (rng.choice(list(OPS)), ep, up, rev)

def rand_relation(rng, big=False):
    name = rng.choice(NAMES) if rng.random() < 0.6 else rand_ident(rng)
    q = rng.choice(QUALS + [rand_ident(rng)]) if rng.random() < 0.3 else None
    ver = rand_version(rng, big) if (big or rng.random() < 0.5) else None
    archs = None
    if rng.random() < 0.45:
        n = rng.choice([0, 1, 1, 2, 3, 5])
        neg = rng.choice(["none", "all", "mixed"])
        archs = [("!" if neg == "all" or (neg == "mixed" and rng.random() < 0.5) else "")
                 + (rng.choice(ARCHS) if rng.random() < 0.7 else rand_ident(rng)) for _ in range(n)]
    profs = []
    for _ in range(rng.choice([0, 0, 0, 1, 1, 2, 3])):
        n = rng.choice([1, 1, 2, 3]) if rng.random() < 0.95 else 0
        profs.append([(rng.random() < 0.5, rng.choice(PROFS) if rng.random() < 0.7 else rand_ident(rng)) for _ in range(n)])
    return {"name": name, "q": q, "ver": ver, "archs": archs, "profs": profs}

def rand_relations(rng, big=False):
    n = rng.choice([0, 1, 1, 1, 2, 3, 5])
    return [[rand_relation(rng, big and rng.random() < 0.5) for _ in range(rng.choice([1, 1, 1, 2, 3]))] for _ in range(n)]

BAD_STRINGS = ["", " ", "a b", "a,b", "a|b", "a(", "é", "a\n", "!", "!!x", "!", "a:b", "a<", "a]", "=", "$x", "a ", "\t"]
def corrupt_relation(rng, r):
    """one component replaced by something outside the domain"""
    r = dict(r, profs=[list(g) for g in r["profs"]])
    k = rng.choice(["name", "q", "arch", "prof", "ver", "ver", "ver"])
    if k == "name": r["name"] = rng.choice(BAD_STRINGS)
    elif k == "q": r["q"] = rng.choice(BAD_STRINGS)
    elif k == "arch": r["archs"] = (r["archs"] or []) + [rng.choice(BAD_STRINGS)]
    elif k == "prof": r["profs"] = r["profs"] + [[(rng.random() < 0.5, rng.choice(BAD_STRINGS))]]
    else:
        op = rng.choice(list(OPS))
        r["ver"] = rng.choice([
            (op, None, "1:2", None), (op, None, "1-2", None), (op, None, "", None), (op, 1, "", "1"),
            (op, None, "1", "2-3"), (op, None, "1", "2:3"), (op, None, "1", ""), (op, None, "1 2", None),
            (op, None, "a)", None), (op, None, "12:", None), (op, 0, ":", None), (op, None, "-", None),
            (op, None, "1_0", None), (op, None, "é", None), (op, None, "20230101120000", None),
            (op, None, "1", "99999999999")])
    return r

def exhaustive_relations():
    quals = [None, "any"]
    vers = [None, ("ge", None, "1", None), ("lt", 1, "2.0~rc1", "3"), ("eq", 0, "1:2-3", "4"), ("gt", 7, "09:09:1", None)]
    archs = [None, [], ["amd64"], ["!amd64"], ["amd64", "!i386"], ["!a", "!b", "!c"]]
    profs = [[], [["x"]], [["!x"]], [["x", "!y"]], [["x"], ["y"]], [["x", "y"], ["!z"]], [["x"], ["!y"], ["z"]], [["x", "!y", "z"]]]
    for q, v, a, p in itertools.product(quals, vers, archs, profs):
        yield mk("a", q, v, a, p)

def value_cases(tier, rng, prefix, conv=False):
    """cases for rel-lossy and (conv=True: about half as many random ones) rel-lossy-conv; both streams take
    the malformed values too -- the conversions are modelled (RelConv.v), not only specified"""
    cases = []
    seen = set()
    def add(rs):
        s = rels_s(rs)
        if s in seen: return
        seen.add(s); cases.append((f"{prefix}{len(cases)}", [s]))
    # hand-picked corners
    a, b, c = mk("a"), mk("b", "any"), mk("c", None, ("le", None, "1.0", "1"))
    for rs in [[], [[a]], [[a, b]], [[a], [b]], [[a, b], [c]], [[a], [b], [c]], [[a, b, c]], [[c, c], [c, c], [c, c]]]:
        add(rs)
    for op in OPS:
        add([[mk("a", None, (op, None, "1", None))]])
    for up in ["1:2:3", "0:0:0.0", "1::2", ":", "1:", ":1", "::"]:       # colons in the upstream part (needs an epoch)
        add([[mk("a", None, ("eq", 3, up, None), ["!amd64", "i386"])]])
        add([[mk("a", "any", ("le", 0, up, "1"))]])
    ex = list(exhaustive_relations())
    for r in ex: add([[r]])
    for i in range(0, len(ex) - 2, 7):
        add([[ex[i], ex[i + 1]], [ex[i + 2]]])
    for rs in [[[]], [[a], []], [[], [a]]]: add(rs)              # empty entries: outside the domain
    n = {"quick": 15000, "search": 30000, "thorough": 500000}[tier]
    if conv: n //= 2
    for _ in range(n):
        add(rand_relations(rng))
    nbig = {"quick": 150, "search": 300, "thorough": 4000}[tier]
    for _ in range(nbig):
        add(rand_relations(rng, big=True))
    if True:
        nbad = {"quick": 6000, "search": 12000, "thorough": 200000}[tier] // (2 if conv else 1)
        for _ in range(nbad):
            rs = rand_relations(rng) or [[rand_relation(rng)]]
            i = rng.randrange(len(rs)); j = rng.randrange(len(rs[i]))
            rs[i][j] = corrupt_relation(rng, rs[i][j])
            add(rs)
    return cases

# ---------------------------------------------------------------- text cases
TOKENS = ["a", " ", "!", "<", ">", "[", "]", ",", "|", ":", "(", ")", ">=", "1", "\n", "=", "\t"]
UNICODE_WS = ["\u00a0", "\u2003", "\u3000", "\u0085", "\x0b", "\x0c", "\u1680", "\u2028", "\ufeff", "\u200b"]

def noisy_print(rng, rs):
    """the printed form with the layout varied in ways the reader should tolerate or reject"""
    def w(): return rng.choice(["", "", " ", " ", "  ", "\t", "\r", "\n", " \n "] + ([rng.choice(UNICODE_WS)] if rng.random() < 0.1 else []))
    out = []
    for e in rs:
        alts = []
        for r in e:
            t = r["name"] + w()
            if r["q"] is not None: t += ":" + (w() if rng.random() < 0.1 else "") + r["q"]
            if r["ver"] is not None:
                t += w() + "(" + w() + OPS[r["ver"][0]] + w() + print_version(r["ver"]) + (w() if rng.random() < 0.2 else "") + ")"
            if r["archs"] is not None:
                t += w() + "[" + w() + (" " + w()).join(r["archs"]) + w() + "]"
            for g in r["profs"]:
                t += w() + "<" + w() + (rng.choice([" ", " ", ", ", ","]) + w()).join(("!" if neg else "") + n for neg, n in g) + w() + ">"
            alts.append(t + w())
        out.append((w() + "|" + w()).join(alts))
    return w() + ("," + w()).join(out) + w()

def text_cases(tier, rng, prefix):
    cases = []
    seen = set()
    def add(s):
        if s in seen: return
        seen.add(s); cases.append((f"{prefix}{len(cases)}", [hexs(s)]))
    for s in gen.corpus_files("rel"): add(s)
    for s in gen.corpus_files("rellossy"): add(s)
    for s in gen.repo_rel_corpus(): add(s)
    for s in ["", " ", ",", "|", "a", "a [!amd64]", "a <x y>", "a < x >", "a <x, y>", "a <> <>", "a []", "a [!]", "a [! b]",
              "a (>= 1:2.0-1)", "a (>= 1 )", "a (>=1)", "a ( >= 1)", "a (> 1)", "a (>== 1)", "a (1)", "a ()", "a (>= )",
              "a (>= 20230101120000)", "a (= 1:)", "a:any", "a :any", "a: any", "a\n", "\na", "a\u00a0", "\u00a0a\u2003, b\u3000",
              "a | b", "a |", "| a", "a,", ",a", "a,,b", "a, , b", "a <!x> <y !z>", "a <!x>b", "a [b]<c>", "a[b]", "a(= 1)"]:
        add(s)
    # str::trim: every White_Space code point and its neighbours, at both ends of an entry and of an alternative
    cps = set()
    for lo, hi in [(8, 14), (0x1b, 0x21), (0x84, 0x86), (0x9f, 0xa1), (0x167f, 0x1681), (0x180d, 0x180f), (0x1fff, 0x200c),
                   (0x2027, 0x202a), (0x202e, 0x2030), (0x205e, 0x2061), (0x2fff, 0x3001), (0xfefe, 0xff00)]:
        cps.update(range(lo, hi + 1))
    for cp in sorted(cps):
        c = chr(cp)
        add(c + "a" + c); add("a, " + c + "b" + c + " | " + c + "c" + c + ","); add("a" + c + "b")
    # every ASCII character (and a few others) in every syntactic position
    for c in [chr(i) for i in range(128)] + ["é", "٣", "中", "\U0001f600"]:
        for t in ["a%sb", "a, b%s", "%sa", "a %s b", "a%s| b", "a:%sany", "a (>=%s1)", "a (>= 1%s)", "a (>= 1%s2)", "a [%s]", "a [b%sc]",
                  "a <%s>", "a <b%sc>", "a <b> %s<c>", "a%s"]:
            add(t % c)
    # every token sequence after a name, up to a length
    n = {"quick": 4, "search": 4, "thorough": 5}[tier]
    for k in range(0, n + 1):
        for tup in itertools.product(TOKENS, repeat=k):
            add("a" + "".join(tup))
    m = {"quick": 3, "search": 3, "thorough": 4}[tier]
    for s in gen.exhaustive(gen.REL_ALPHABET, m): add(s)
    ngen = {"quick": 15000, "search": 30000, "thorough": 400000}[tier]
    for _ in range(ngen):
        rs = rand_relations(rng)
        add(print_relations(rs))
        add(noisy_print(rng, rs))
        if rng.random() < 0.5:
            t, _ = gen.gen_rel_field(rng, substvars=rng.random() < 0.2); add(t)
        if rng.random() < 0.6:
            x = print_relations(rs, sep=rng.choice([" ", ", "]))
            for _ in range(rng.choice([1, 1, 2, 3])): x = gen.mutate(rng, x, gen.REL_ALPHABET + UNICODE_WS[:3])
            add(x)
    return cases

# ---------------------------------------------------------------- debversion cases
DV_ALPHABET = ["1", "0", "a", ":", "-", ".", "~", "+", " ", "٣"]
def debversion_cases(tier, rng, prefix):
    cases = []
    seen = set()
    def add(s):
        if s in seen: return
        seen.add(s); cases.append((f"{prefix}{len(cases)}", [hexs(s)]))
    for s in ["", "1", "1.0-1", "1:2.0-1", "12:", ":1", "1:", "-1", "1-", "1--2", "1-2-3", "1:2:3", "1:2-3:4", "007:1", "0:0",
              "4294967295:1", "4294967296:1", "00000000000000000001:1", "99999999999999999999:1", "1_0", "1.0 ", " 1.0", "1.0\n",
              "a", "A-Z", "~", "+", ".", "1:-", "1:-1", "1:1-", "٣:1", "1٣:1", "1:٣", "١", "1-١", "é"]:
        add(s)
    n = {"quick": 4, "search": 5, "thorough": 6}[tier]
    for s in gen.exhaustive(DV_ALPHABET, n): add(s)
    ngen = {"quick": 8000, "search": 15000, "thorough": 200000}[tier]
    for _ in range(ngen):
        v = rand_version(rng, big=rng.random() < 0.05)
        s = print_version(v)
        add(s)
        if rng.random() < 0.5:
            add(gen.mutate(rng, s, DV_ALPHABET + ["9", "Z", "_"]))
    return cases
