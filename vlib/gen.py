"""Case generators. Every random choice derives from the rng handed in (seeded by VERIF_SEED)."""
import itertools, os, re
from .core import hexs, REPO, VERIF

DEB822_ALPHABET = ["A", "-", ":", "#", " ", "\t", "\n", "\r", "é", "\x01", "\u00a0"]   # U+00A0: Unicode (non-ASCII) whitespace

def exhaustive(alphabet, n):
    for k in range(0, n + 1):
        for tup in itertools.product(alphabet, repeat=k):
            yield "".join(tup)

def corpus_files(sub):
    d = os.path.join(VERIF, "corpus", sub)
    out = []
    if os.path.isdir(d):
        for f in sorted(os.listdir(d)):
            try:
                out.append(open(os.path.join(d, f), encoding="utf-8", newline="").read())
            except Exception:
                pass
    return out

def rust_string_literals(path):
    """string literals (ordinary and raw) in a Rust file, unescaped approximately"""
    try:
        src = open(path, encoding="utf-8").read()
    except Exception:
        return []
    out = []
    for m in re.finditer(r'r(#*)"(.*?)"\1', src, re.S):
        out.append(m.group(2))
    for m in re.finditer(r'(?<![r#\'])"((?:[^"\\]|\\.)*)"', src, re.S):
        s = m.group(1)
        try:
            s2 = re.sub(r'\\\n\s*', '', s)
            s2 = s2.replace('\\n', '\n').replace('\\t', '\t').replace('\\r', '\r').replace('\\"', '"').replace("\\\\", "\\")
            out.append(s2)
        except Exception:
            pass
    return out

def repo_deb822_corpus():
    out = []
    for rel in ["src/lossless.rs", "src/lossy.rs", "src/lex.rs", "src/convert.rs",
                "debian-control/src/lossless/control.rs", "debian-control/src/lossy/control.rs",
                "debian-control/src/lossless/apt.rs", "debian-control/src/lossy/apt.rs",
                "debian-control/src/lossless/changes.rs", "debian-control/src/lossless/buildinfo.rs",
                "debian-copyright/src/lossless.rs", "debian-copyright/src/lossy.rs",
                "dep3/src/lossless.rs", "dep3/src/lossy.rs", "apt-sources/src/lib.rs"]:
        for s in rust_string_literals(os.path.join(REPO, rel)):
            if ("\n" in s or ":" in s) and len(s) < 6000:
                out.append(s)
    try:
        out.append(open(os.path.join(REPO, "debian-control/testdata/ruff.buildinfo"), encoding="utf-8").read()[:20000])
    except Exception:
        pass
    try:
        src = open(os.path.join(REPO, "bench/Sources"), encoding="utf-8").read()
        paras = src.split("\n\n")
        out.append("\n\n".join(paras[:5]) + "\n")
        out.append("\n\n".join(paras[100:103]))
    except Exception:
        pass
    return list(dict.fromkeys(out))

# ---- structured deb822 documents ----
NAME_CHARS = "ABab09-_.+/!$%&'()*,;<=>?@[]^`{|}~\"\\"
def gen_name(rng):
    first = rng.choice("ABCXYZabz019_.+/!$%&*@")
    n = rng.choice([0, 0, 1, 2, 5, 12])
    return first + "".join(rng.choice(NAME_CHARS + "#") for _ in range(n))

LINE_ATOMS = ["a", "b", "foo", "1.0", " ", "  ", "\t", ":", "#", "-", ",", "(>= 1)", "é", "中", "\U0001f600", "\x01", "=", "."]
def gen_line(rng, allow_empty=False):
    n = rng.choice([0] if allow_empty and rng.random() < 0.3 else [1, 1, 2, 3, 6])
    return "".join(rng.choice(LINE_ATOMS) for _ in range(n))

def gen_ws(rng, allow_empty=True):
    opts = ["", " ", " ", "  ", "\t", " \t "] if allow_empty else [" ", " ", "  ", "\t", " \t"]
    return rng.choice(opts)

def gen_field(rng, names=None):
    """returns (text, name, value-as-the-lossless-reader-should-report-it)"""
    name = rng.choice(names) if names and rng.random() < 0.7 else gen_name(rng)
    first = gen_line(rng, allow_empty=True).strip(" \t")
    # the first line's leading whitespace belongs to the colon spacing; trailing ws may be kept or not by the reader
    text = name + ":" + gen_ws(rng) + first + "\n"
    lines = [first] if first != "" else []
    for _ in range(rng.choice([0, 0, 0, 1, 2, 4])):
        body = gen_line(rng).strip(" \t")
        if body == "" or body[0] in "#":
            body = "x" + body
        if rng.random() < 0.08:
            # an indented '#' line or a whitespace-only line inside the value: not a value line for either reader
            text += gen_ws(rng, allow_empty=False) + rng.choice(["#c", "# x y", "", " "]) + "\n"
        text += gen_ws(rng, allow_empty=False) + body + "\n"
        lines.append(body)
    return text, name, "\n".join(lines)

def gen_comment(rng):
    return "#" + gen_line(rng, allow_empty=True).replace("\n", "") + "\n"

def gen_doc(rng, comments=True, final_newline_optional=True):
    names = [gen_name(rng) for _ in range(3)] + ["Source", "Package", "Depends"]
    text = ""
    paras = []
    nparas = rng.choice([0, 1, 1, 2, 3])
    def blanks():
        t = ""
        for _ in range(rng.choice([0, 0, 1])):
            if comments and rng.random() < 0.5: t += gen_comment(rng)
            else: t += "\n"
        return t
    text += blanks()
    for i in range(nparas):
        if i > 0:
            text += "\n" + blanks()
        fields = []
        if comments and rng.random() < 0.2: text += gen_comment(rng)
        for j in range(rng.choice([1, 1, 2, 3, 5])):
            ft, n, v = gen_field(rng, names)
            text += ft
            fields.append((n, v))
            if comments and rng.random() < 0.15 and j >= 0:
                text += gen_comment(rng)
        paras.append(fields)
    if nparas and rng.random() < 0.5:
        text += "\n" + blanks()
    if final_newline_optional and text.endswith("\n") and rng.random() < 0.2:
        text = text[:-1]
    return text, paras

# characters that only the generated / mutated texts use (not the exhaustive enumeration): byte-order
# mark, further Unicode line/space separators, a 3- and a 4-byte character
MUT_EXTRA = ["\ufeff", "\u2028", "\x0b", "\u0085", "\u20ac", "\U0001f600"]
def mutate(rng, s, alphabet=None):
    if alphabet is None: alphabet = DEB822_ALPHABET + MUT_EXTRA
    if not s: return rng.choice(alphabet)
    k = rng.choice(["del", "ins", "rep", "dup", "swapnl", "trunc"])
    i = rng.randrange(len(s))
    if k == "del": return s[:i] + s[i+1:]
    if k == "ins": return s[:i] + rng.choice(alphabet) + s[i:]
    if k == "rep": return s[:i] + rng.choice(alphabet) + s[i+1:]
    if k == "dup":
        j = min(len(s), i + rng.choice([1, 2, 5])); return s[:j] + s[i:j] + s[j:]
    if k == "swapnl": return s.replace("\n", "\r\n", 1) if rng.random() < 0.5 else s.replace("\n", "\r")
    return s[:i]

def deb822_text_cases(tier, rng, prefix):
    """the case set shared by the deb822 reader streams"""
    cases = []
    seen = set()
    def add(s):
        if s in seen: return
        seen.add(s); cases.append((f"{prefix}{len(cases)}", [hexs(s)]))
    for s in corpus_files("deb822"): add(s)
    for s in repo_deb822_corpus(): add(s)
    for s in list(corpus_files("deb822"))[:40] + ["A: b\n", "", "\n"]:
        for x in MUT_EXTRA: add(x + s); add(s + x)
    n = {"quick": 5, "search": 5, "thorough": 6}[tier]
    for s in exhaustive(DEB822_ALPHABET, n): add(s)
    ngen = {"quick": 6000, "search": 20000, "thorough": 150000}[tier]
    for _ in range(ngen):
        t, _ = gen_doc(rng); add(t)
        if rng.random() < 0.7:
            m = t
            for _ in range(rng.choice([1, 1, 2, 3])): m = mutate(rng, m)
            add(m)
    return cases

# ---------------------------------------------------------------- relationship fields
REL_ALPHABET = ["a", "1", ":", "|", ",", "(", ")", "[", "]", "!", "<", ">", "=", "$", "{", "}", " ", "\t", "\r", "\n", "@", "\u00a0"]

def repo_rel_corpus():
    out = []
    for rel in ["debian-control/src/lossless/relations.rs", "debian-control/src/lossy/relations.rs",
                "debian-control/src/lossless/control.rs"]:
        for s in rust_string_literals(os.path.join(REPO, rel)):
            if len(s) < 400 and "\n\n" not in s and "{:?}" not in s:
                out.append(s)
    return list(dict.fromkeys(out))

REL_NAMES = ["a", "b", "libc6", "python3-dulwich", "g++", "x.y", "foo~bar", "0ad"]
REL_VERS = ["1", "1.0", "2.0-1", "1:2.0", "1.0~rc1", "0.19.0+dfsg-2~bpo1"]
REL_ARCH = ["amd64", "i386", "any", "linux-any", "kfreebsd-amd64"]
REL_PROF = ["nocheck", "stage1", "cross", "pkg.foo.bar"]
REL_OPS = [">=", "<=", "=", ">>", "<<"]

def rws(rng, allow_nl=True):
    return rng.choice(["", "", " ", " ", "  ", "\t"] + (["\n ", " \n", "\n"] if allow_nl else []))

def gen_relation(rng, ws=True):
    """returns (text, structure)"""
    w = (lambda nl=False: rws(rng, nl)) if ws else (lambda nl=False: "")
    name = rng.choice(REL_NAMES)
    t = name
    st = {"name": name, "archqual": None, "version": None, "archs": None, "profiles": []}
    if rng.random() < 0.25:
        q = rng.choice(["any", "native", "amd64"])
        t += ":" + q; st["archqual"] = q
    if rng.random() < 0.5:
        op = rng.choice(REL_OPS); v = rng.choice(REL_VERS)
        t += (w() or (" " if rng.random() < 0.8 else "")) + "(" + w() + op + w() + v + ")"
        st["version"] = (op, v)
    if rng.random() < 0.3:
        n = rng.choice([1, 1, 2, 3])
        neg = rng.random() < 0.4
        archs = [("!" if neg else "") + rng.choice(REL_ARCH) for _ in range(n)]
        t += (w() or " ") + "[" + w() + (" " + w()).join(archs) + w() + "]"
        st["archs"] = archs
    for _ in range(rng.choice([0, 0, 0, 1, 2])):
        n = rng.choice([1, 1, 2])
        terms = [("!" if rng.random() < 0.5 else "") + rng.choice(REL_PROF) for _ in range(n)]
        t += (w() or " ") + "<" + w() + (" " + w()).join(terms) + w() + ">"
        st["profiles"].append(terms)
    return t, st

def gen_rel_field(rng, substvars=True, empty_entries=True, ws=True):
    entries = []
    parts = []
    n = rng.choice([0, 1, 1, 2, 3, 5])
    for _ in range(n):
        if substvars and rng.random() < 0.12:
            sv = "${" + rng.choice(["misc:Depends", "shlibs:Depends", "x"]) + "}"
            parts.append(sv); entries.append(("substvar", sv)); continue
        if empty_entries and rng.random() < 0.06:
            parts.append(""); entries.append(("empty",)); continue
        alts = [gen_relation(rng, ws) for _ in range(rng.choice([1, 1, 1, 2, 3]))]
        w = (lambda: rws(rng)) if ws else (lambda: "")
        parts.append((w() + "|" + (w() or " ")).join(a[0] for a in alts))
        entries.append(("entry", [a[1] for a in alts]))
    w = (lambda: rws(rng)) if ws else (lambda: "")
    text = (w() if ws else "")
    text += ("," + (w() or " ")).join(parts)
    if parts and rng.random() < 0.15: text += ","
    text += w()
    return text, entries

def rel_text_cases(tier, rng, prefix):
    cases = []
    seen = set()
    def add(s):
        if s in seen: return
        seen.add(s); cases.append((f"{prefix}{len(cases)}", [hexs(s)]))
    for s in corpus_files("rel"): add(s)
    for s in repo_rel_corpus(): add(s)
    n = {"quick": 4, "search": 4, "thorough": 5}[tier]
    for s in exhaustive(REL_ALPHABET, n): add(s)
    ngen = {"quick": 8000, "search": 30000, "thorough": 200000}[tier]
    for _ in range(ngen):
        t, _ = gen_rel_field(rng); add(t)
        if rng.random() < 0.7:
            m = t
            for _ in range(rng.choice([1, 1, 2, 3])): m = mutate(rng, m, REL_ALPHABET)
            add(m)
    return cases
