"""Case generators. Every random choice derives from the rng handed in (seeded by VERIF_SEED)."""
import itertools, os, re
from .core import hexs, REPO, VERIF

DEB822_ALPHABET = ["A", "-", ":", "#", " ", "\t", "\n", "\r", "é", "\x01"]

def exhaustive(alphabet, n):
    for k in range(0, n + 1):
        for tup in itertools.product(alphabet, repeat=k):
            yield "".join(tup)

def corpus_files(sub):
    d = os.path.join(VERIF, "corpus", sub)
    out = []
    if os.path.isdir(d):
        for f in sorted(os.listdir(d)):
            try:
                out.append(open(os.path.join(d, f), encoding="utf-8", newline="").read())
            except Exception:
                pass
    return out

def rust_string_literals(path):
    """string literals (ordinary and raw) in a Rust file, unescaped approximately"""
    try:
        src = open(path, encoding="utf-8").read()
    except Exception:
        return []
    out = []
    for m in re.finditer(r'r(#*)"(.*?)"\1', src, re.S):
        out.append(m.group(2))
    for m in re.finditer(r'(?<![r#\'])"((?:[^"\\]|\\.)*)"', src, re.S):
        s = m.group(1)
        try:
            s2 = re.sub(r'\\\n\s*', '', s)
            s2 = s2.replace('\\n', '\n').replace('\\t', '\t').replace('\\r', '\r').replace('\\"', '"').replace("\\\\", "\\")
            out.append(s2)
        except Exception:
            pass
    return out

def repo_deb822_corpus():
    out = []
    for rel in ["src/lossless.rs", "src/lossy.rs", "src/lex.rs", "src/convert.rs",
                "debian-control/src/lossless/control.rs", "debian-control/src/lossy/control.rs",
                "debian-control/src/lossless/apt.rs", "debian-control/src/lossy/apt.rs",
                "debian-control/src/lossless/changes.rs", "debian-control/src/lossless/buildinfo.rs",
                "debian-copyright/src/lossless.rs", "debian-copyright/src/lossy.rs",
                "dep3/src/lossless.rs", "dep3/src/lossy.rs", "apt-sources/src/lib.rs"]:
        for s in rust_string_literals(os.path.join(REPO, rel)):
            if ("\n" in s or ":" in s) and len(s) < 6000:
                out.append(s)
    try:
        out.append(open(os.path.join(REPO, "debian-control/testdata/ruff.buildinfo"), encoding="utf-8").read()[:20000])
    except Exception:
        pass
    try:
        src = open(os.path.join(REPO, "bench/Sources"), encoding="utf-8").read()
        paras = src.split("\n\n")
        out.append("\n\n".join(paras[:5]) + "\n")
        out.append("\n\n".join(paras[100:103]))
    except Exception:
        pass
    return list(dict.fromkeys(out))

# ---- structured deb822 documents ----
NAME_CHARS = "ABab09-_.+/!$%&'()*,;<=>?@[]^`{|}~\"\\"
def gen_name(rng):
    first = rng.choice("ABCXYZabz019_.+/!$%&*@")
    n = rng.choice([0, 0, 1, 2, 5, 12])
    return first + "".join(rng.choice(NAME_CHARS + "#") for _ in range(n))

LINE_ATOMS = ["a", "b", "foo", "1.0", " ", "  ", "\t", ":", "#", "-", ",", "(>= 1)", "é", "中", "\U0001f600", "\x01", "=", "."]
def gen_line(rng, allow_empty=False):
    n = rng.choice([0] if allow_empty and rng.random() < 0.3 else [1, 1, 2, 3, 6])
    return "".join(rng.choice(LINE_ATOMS) for _ in range(n))

def gen_ws(rng, allow_empty=True):
    opts = ["", " ", " ", "  ", "\t", " \t "] if allow_empty else [" ", " ", "  ", "\t", " \t"]
    return rng.choice(opts)

def gen_field(rng, names=None):
    """returns (text, name, value-as-the-lossless-reader-should-report-it)"""
    name = rng.choice(names) if names and rng.random() < 0.7 else gen_name(rng)
    first = gen_line(rng, allow_empty=True).strip(" \t")
    # the first line's leading whitespace belongs to the colon spacing; trailing ws may be kept or not by the reader
    text = name + ":" + gen_ws(rng) + first + "\n"
    lines = [first] if first != "" else []
    for _ in range(rng.choice([0, 0, 0, 1, 2, 4])):
        body = gen_line(rng).strip(" \t")
        if body == "" or body[0] in "#":
            body = "x" + body
        text += gen_ws(rng, allow_empty=False) + body + "\n"
        lines.append(body)
    return text, name, "\n".join(lines)

def gen_comment(rng):
    return "#" + gen_line(rng, allow_empty=True).replace("\n", "") + "\n"

def gen_doc(rng, comments=True, final_newline_optional=True):
    names = [gen_name(rng) for _ in range(3)] + ["Source", "Package", "Depends"]
    text = ""
    paras = []
    nparas = rng.choice([0, 1, 1, 2, 3])
    def blanks():
        t = ""
        for _ in range(rng.choice([0, 0, 1])):
            if comments and rng.random() < 0.5: t += gen_comment(rng)
            else: t += "\n"
        return t
    text += blanks()
    for i in range(nparas):
        if i > 0:
            text += "\n" + blanks()
        fields = []
        if comments and rng.random() < 0.2: text += gen_comment(rng)
        for j in range(rng.choice([1, 1, 2, 3, 5])):
            ft, n, v = gen_field(rng, names)
            text += ft
            fields.append((n, v))
            if comments and rng.random() < 0.15 and j >= 0:
                text += gen_comment(rng)
        paras.append(fields)
    if nparas and rng.random() < 0.5:
        text += "\n" + blanks()
    if final_newline_optional and text.endswith("\n") and rng.random() < 0.2:
        text = text[:-1]
    return text, paras

def mutate(rng, s, alphabet=DEB822_ALPHABET):
    if not s: return rng.choice(alphabet)
    k = rng.choice(["del", "ins", "rep", "dup", "swapnl", "trunc"])
    i = rng.randrange(len(s))
    if k == "del": return s[:i] + s[i+1:]
    if k == "ins": return s[:i] + rng.choice(alphabet) + s[i:]
    if k == "rep": return s[:i] + rng.choice(alphabet) + s[i+1:]
    if k == "dup":
        j = min(len(s), i + rng.choice([1, 2, 5])); return s[:j] + s[i:j] + s[j:]
    if k == "swapnl": return s.replace("\n", "\r\n", 1) if rng.random() < 0.5 else s.replace("\n", "\r")
    return s[:i]

def deb822_text_cases(tier, rng, prefix):
    """the case set shared by the deb822 reader streams"""
    cases = []
    seen = set()
    def add(s):
        if s in seen: return
        seen.add(s); cases.append((f"{prefix}{len(cases)}", [hexs(s)]))
    for s in corpus_files("deb822"): add(s)
    for s in repo_deb822_corpus(): add(s)
    n = {"quick": 5, "search": 5, "thorough": 6}[tier]
    for s in exhaustive(DEB822_ALPHABET, n): add(s)
    ngen = {"quick": 6000, "search": 20000, "thorough": 150000}[tier]
    for _ in range(ngen):
        t, _ = gen_doc(rng); add(t)
        if rng.random() < 0.7:
            m = t
            for _ in range(rng.choice([1, 1, 2, 3])): m = mutate(rng, m)
            add(m)
    return cases
