"""Generator for the deb822-store stream (C04H): an initial document, N paragraph registers and a
program that says through which handle, obtained when, every edit goes."""
from .core import hexs
from . import gen_edit, gen_lossy

NREGS = 4

def pairs_enc(p):
    return ",".join(hexs(k) + "=" + hexs(v) for k, v in p) if p else "-"

def program(rng, names, n, canon=True):
    empty = list(getattr(names, "empty", ()))
    names = list(dict.fromkeys(names))[:6] + ["Zz", "New-Field"]
    val = gen_edit.canon_value if canon else gen_edit.any_value
    ops = []
    # handles taken before any edit
    for r in range(rng.choice([0, 1, 2, 3])):
        ops.append(f"G:{r}:{rng.choice([0, 0, 1, 2])}")
    for _ in range(n):
        o = rng.choice("SSSIIRRNNGGGAAJJDDDP")
        k = rng.randrange(NREGS)
        if o == "S": ops.append(f"S:{k}:{hexs(rng.choice(names))}:{hexs(val(rng))}")
        elif o == "I": ops.append(f"I:{k}:{hexs(rng.choice(names))}:{hexs(val(rng))}")
        elif o == "R": ops.append(f"R:{k}:{hexs(rng.choice(names))}")
        elif o == "N": ops.append(f"N:{k}:{hexs(gen_edit.rename_old(rng, names, empty))}:{hexs(rng.choice(names + ['Renamed']))}")
        elif o == "G": ops.append(f"G:{k}:{rng.choice([0, 0, 1, 1, 2, 3, 5])}")
        elif o == "A": ops.append(f"A:{k}")
        elif o == "J": ops.append(f"J:{k}:{rng.choice([0, 0, 1, 2, 3, 5])}")
        elif o == "D": ops.append(f"D:{rng.choice([0, 0, 1, 2, 3, 5])}")
        else:
            p = [(rng.choice(names), val(rng)) for _ in range(rng.choice([0, 1, 2]))]
            ops.append(f"P:{k}:{pairs_enc(p)}")
    return " ".join(ops) if ops else "-"

def store_cases(n, rng, prefix, wf=True, canon=True):
    cases = []
    for i in range(n):
        init, names = gen_edit.init_doc(rng, wf, parsed_paras=False)
        cases.append((f"{prefix}{i}", [init, str(NREGS), program(rng, names, rng.choice([1, 2, 3, 5, 8, 12, 16]), canon)]))
    return cases

def corpus_cases():
    """three handles taken at different times; a stale handle; the handle returned by add/insert"""
    h = hexs
    T = lambda s: "T:" + h(s)
    out = []
    doc = "A: 1\n\nB: 2\n\nC: 3\n"
    out.append(("c0", [T(doc), "4", f"G:0:2 J:1:0 G:2:2 D:1 S:0:{h('X')}:{h('x')} S:1:{h('Y')}:{h('y')} S:2:{h('Z')}:{h('z')}"]))
    out.append(("c1", [T(doc), "4", f"G:0:1 D:1 S:0:{h('X')}:{h('x')} G:1:1 S:1:{h('Y')}:{h('y')} R:0:{h('B')}"]))
    out.append(("c2", [T("A: 1"), "4", f"G:0:0 A:1 S:1:{h('N')}:{h('n')} S:0:{h('M')}:{h('m')} J:2:1 I:2:{h('K')}:{h('k')}"]))
    out.append(("c3", ["N", "4", f"A:0 A:1 S:1:{h('B')}:{h('b')} S:0:{h('A')}:{h('a')} D:0 S:0:{h('C')}:{h('c')} G:2:0 N:2:{h('B')}:{h('D')}"]))
    out.append(("c4", [T("# c\nA: 1\n# d\n\n\nB: 2"), "4", f"G:0:0 G:1:1 R:0:{h('A')} D:0 I:1:{h('E')}:{h('e')} I:0:{h('F')}:{h('f')} A:2 S:2:{h('G')}:{h('g')}"]))
    out.append(("c5", [T(doc), "4", f"P:3:{pairs_enc([('Q', 'q')])} S:3:{h('R')}:{h('r')} G:0:0 G:1:0 R:0:{h('A')} S:1:{h('A')}:{h('2')}"]))
    # renames of fields without a value through handles taken before and after, then again through the new entry
    out.append(("c6", [T("A:\nB: 1\n\nC: \nD:"), "4", f"G:0:0 G:1:1 N:0:{h('A')}:{h('E')} G:2:0 N:2:{h('E')}:{h('F')} N:1:{h('D')}:{h('G')} S:1:{h('H')}:{h('h')} N:1:{h('C')}:{h('C')} R:0:{h('B')} I:2:{h('F')}:{h('f')}"]))
    return out
