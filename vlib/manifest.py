"""Regenerates /verif/MANIFEST.json from the table below:  python3 -m vlib.manifest"""
import json, os, subprocess
VERIF = os.path.dirname(os.path.dirname(os.path.abspath(__file__)))
TECH = "machine-checked proof in Coq over an executable model + extracted-model/implementation correspondence"
COMMON_NOTE = (" Trusted: Coq 8.16.1 kernel; the hand transcription of the named Rust functions (validated on every run by the correspondence stream);"
               " rowan modelled as an inductive tree; extraction (ExtrOcamlBasic only), OCaml runner, Rust harness, Python driver."
               " No axioms (Print Assumptions: closed under the global context).")
def load_checks():
    import importlib
    out = {}
    for i in range(1, 21):
        pid = "C%02d" % i
        try:
            mod = importlib.import_module("vlib.props." + pid.lower())
        except ModuleNotFoundError:
            continue
        p = mod.PROP
        if getattr(p, "claimed", True):
            cone = "docs/cones/%s.md" % pid
            ref = "DESIGN.md §3 (entry %s)" % pid + ("; " + cone if os.path.exists(os.path.join(VERIF, cone)) else "") + "; defects: DESIGN.md §4"
            out[pid] = (p.level_text, p.level_note + COMMON_NOTE, ref)
    return out
CHECKS = load_checks()
NA_REASONS = {}
NOT_YET = "check not built yet (work in progress; the technique applies, see DESIGN.md §4)"

def main():
    hooks = subprocess.run(["git", "-C", "/repo", "log", "--format=%h %s"], capture_output=True, text=True).stdout.splitlines()
    hook_commits = [l.split()[0] for l in hooks if l.split(" ", 1)[1].startswith("verif hook")]
    m = {"version": 1, "setup_cmd": "./setup.sh",
         "hooks": {"guard": "deb822_verif",
                   "enable": "RUSTFLAGS=\"--cfg deb822_verif\" cargo build --release --offline  (done by ./check for the harness crate /verif/harness, which depends on /repo by path)",
                   "baseline_off_cmd": "cd /repo && cargo test --workspace --no-fail-fast --offline",
                   "source_commits": hook_commits, "add_only": True},
         "engines": [
           {"name": "coq-model-and-proofs", "path": "coq/", "serves_properties": sorted(CHECKS), "kind_free_text": "Coq 8.16 models (coq/model), lemmas (coq/proofs), property statements (coq/props), generated tables (coq/gen)"},
           {"name": "correspondence", "path": "check", "serves_properties": sorted(CHECKS), "kind_free_text": "OCaml-extracted model (runner/) vs Rust harness (harness/) on generated case files; property oracle on the implementation; driver vlib/"}],
         "checks": [], "notes": "See DESIGN.md. Every check regenerates translated tables, rebuilds the property's Coq cone (full .vo), greps for Admitted/Axiom/..., re-extracts the model, rebuilds the harness against /repo's working tree (hooks on) and runs the correspondence + oracle streams.",
         "not_applicable": []}
    for pid in sorted(CHECKS):
        text, note, ref = CHECKS[pid]
        m["checks"].append({"property_id": pid, "quick_cmd": f"./check {pid} --quick", "thorough_cmd": f"./check {pid} --thorough",
            "evidence_file": f"evidence/{pid}.json", "replay_cmd_template": f"./check {pid} --replay {{path}}",
            "engine": "coq-model-and-proofs", "level_claimed": {"category": "proof", "text": text, "design_ref": ref},
            "level_note": note, "technique": TECH})
    for i in range(1, 21):
        pid = "C%02d" % i
        if pid not in CHECKS:
            m["not_applicable"].append({"property_id": pid, "reason": NA_REASONS.get(pid, NOT_YET)})
    json.dump(m, open(os.path.join(VERIF, "MANIFEST.json"), "w"), indent=1)
main()
