"""Inputs for the totality stream (C02): every kind of text an entry point may be handed."""
from .core import hexs
from . import gen, gen_grammar

SNIPPETS = [
    "", " ", "\n", "\r\n", "a", "a b c", "abc 123 file.txt", "d41d8cd98f00b204e9800998ecf8427e 0 x", "x y",
    "https://salsa.debian.org/x/y.git -b main [sub/dir]", "https://x -b", "[", " [a]", "u -b b [p]",
    "Joe Example <joe@example.com>", "joe@example.com", "<", "a <b", "somebody",
    "optional", "required", "Optional", "low", "HIGH", "same", "foreign", "no", "yes", "force", "Force",
    "deb", "deb-src", "rpm", ">=", ">>", "=", "><", "!nocheck", "nocheck",
    "not-needed", "yes", "no", "https://bugs.example.com/1", "upstream, http://x", "backport", "vendor: x", "commit:abc", "other",
    "GPL-3+", "GPL-3+\n text\n .\n more", "\ntext", "MIT\n",
    "/usr/share/keyrings/x.gpg", "\n-----BEGIN PGP PUBLIC KEY BLOCK-----\n.\nabc\n-----END PGP PUBLIC KEY BLOCK-----",
    "-----BEGIN PGP SIGNED MESSAGE-----\nHash: SHA256\n\nA: b\n-----BEGIN PGP SIGNATURE-----\nxyz\n-----END PGP SIGNATURE-----\n",
    "-----BEGIN PGP SIGNED MESSAGE-----\n", "-----BEGIN PGP SIGNED MESSAGE-----\n\n-----BEGIN PGP SIGNATURE-----\n",
    "Format: https://www.debian.org/doc/packaging-manuals/copyright-format/1.0/\n\nFiles: *\nCopyright: x\nLicense: MIT\n",
    "Format: x\n", "Format", "Files: *\n",
    "Source: foo\nMaintainer: A <a@b>\n\nPackage: foo\nArchitecture: any\nDepends: a (>= 1), b | c\nDescription: x\n y\n",
    "Package: foo\n", "Source: a\n\nSource: b\n", "Foo: bar\n",
    "Types: deb\nURIs: http://deb.debian.org/debian\nSuites: stable\nComponents: main\nPDiffs: yes\n",
    "Types: deb deb-src\nURIs: http://a http://b\nSuites: s\nComponents: c\nSigned-By:\n -----BEGIN PGP PUBLIC KEY BLOCK-----\n .\n x\n -----END PGP PUBLIC KEY BLOCK-----\n",
    "From: A <a@b>\nSubject: fix\nOrigin: upstream, http://x\nForwarded: not-needed\nLast-Update: 2024-01-01\nApplied-Upstream: 1.2\nBug-Debian: http://bugs/1\n",
    "Description: short\n long\nAuthor: x\n", "Last-Update: 2024-13-45\n", "Date: 2024-01-01\nSuite: stable\nCodename: x\nNotAutomatic: yes\n",
    "Origin: Debian\nLabel: Debian\nMD5Sum:\n abc 12 main/x\nSHA256:\n def 3 y\n",
    "Package: a\nVersion: 1:2.0-1~x\nInstalled-Size: 12\nSize: x\nDepends: ${a}, b [!amd64] <!x y>\n",
    "Format: 1.8\nDate: Mon, 01 Jan 2024 00:00:00 +0000\nSource: x\nBinary: a b\nArchitecture: source\nVersion: 1\nDistribution: unstable\nUrgency: medium\nMaintainer: a\nChanged-By: b\nDescription:\n a - b\nChanges:\n x\nChecksums-Sha1:\n abc 1 f\nChecksums-Sha256:\n abc 1 f\nFiles:\n abc 1 sec prio f\n",
    "Build-Environment:\n a (= 1),\n b (= 2)\nEnvironment:\n A=\"b\"\n C=d\n", "Environment:\n x\n",
    "a (>= 1:2.0)", "a (>= 99999999999999999999)", "a (= 1.0~rc1-2+b1) [!amd64 i386] <!nocheck> <a b>", "${misc:Depends}, a | b (<< 2) , ,", "a [", "${", "a (", "a <", "a:",
]

def cases(tier, rng, prefix):
    out = []; seen = set()
    def add(s):
        if s in seen: return
        seen.add(s); out.append((f"{prefix}{len(out)}", [hexs(s)]))
    for s in SNIPPETS:
        add(s)
        for i in range(0, len(s) + 1, max(1, len(s) // 12)):   # truncations
            add(s[:i])
        add(s.replace("\n", "\r\n")); add(s + "\r"); add(s.replace("a", "é")); add(s.upper())
        for w in ("\u00a0", "\x0c", "\x0b", "\u2003", "\u0085"):   # Unicode whitespace outside the ASCII classes
            add(s.replace(" ", w, 1)); add(s + w)
    n = {"quick": 4, "search": 4, "thorough": 5}[tier]
    for s in gen.exhaustive(["A", ":", " ", "\n", "-", "#", "é", "(", "<", "[", "\u00a0"], n): add(s)
    m = {"quick": 2500, "search": 8000, "thorough": 60000}[tier]
    for _ in range(m):
        k = rng.random()
        if k < 0.3:
            t, _ = gen.gen_doc(rng)
        elif k < 0.5:
            t, _ = gen.gen_rel_field(rng)
        else:
            t = rng.choice(SNIPPETS)
        for _ in range(rng.choice([0, 1, 1, 2, 4])):
            t = gen.mutate(rng, t, gen.DEB822_ALPHABET + ["(", ")", "[", "]", "<", ">", "=", "|", ",", "$", "{", "}", "1", "@"])
        add(t)
    return out

SCALE_SEEDS = ["A: b\n", " x\n", "a, ", "a | ", "a (>= 1) [x] <y>, ", "${a} ", "<", "# c\n", "\n", "x", " ", "\r", "-", ":",
               "A: b\n c\n\n", "é", "[", "(", "abc 1 f\n"]
def scale_cases(tier, prefix):
    reps = {"quick": "100,400,1600", "search": "100,400,1600", "thorough": "1000,4000,16000"}[tier]
    return [(f"{prefix}{i}", [hexs(s), reps]) for i, s in enumerate(SCALE_SEEDS)]

# totality-stack: the same adversarial seeds, repeated, parsed on a small thread stack
def stack_cases(tier, prefix):
    r, kib = {"quick": (6000, 256), "search": (6000, 256), "thorough": (40000, 256)}[tier]
    return [(f"{prefix}{i}", [hexs(s), str(r), str(kib)]) for i, s in enumerate(SCALE_SEEDS)]
