"""Case generators and Python mirrors of the Coq validity / canonical-text predicates for the
`codec` stream (C18).  Every random choice derives from the rng handed in."""
import importlib.util, itertools, os, re
from .core import hexs, REPO, VERIF

# ---------------------------------------------------------------- enum tables, read through the translator
_TR = None
def translator():
    global _TR
    if _TR is None:
        p = os.path.join(VERIF, "translate", "enums.py")
        spec = importlib.util.spec_from_file_location("verif_translate_enums", p)
        _TR = importlib.util.module_from_spec(spec)
        spec.loader.exec_module(_TR)
    return _TR

ENUM_TAGS = {   # tag -> (file, enum name)
    "priority": ("debian-control/src/fields.rs", "Priority"),
    "multiarch": ("debian-control/src/fields.rs", "MultiArch"),
    "urgency": ("debian-control/src/fields.rs", "Urgency"),
    "constraint": ("debian-control/src/relations.rs", "VersionConstraint"),
    "origincat": ("dep3/src/fields.rs", "OriginCategory"),
    "repotype": ("apt-sources/src/lib.rs", "RepositoryType"),
    "ynf": ("apt-sources/src/lib.rs", "YesNoForce"),
}
_ENUMS = {}
def enum_info(tag):
    """-> dict(variants=[names], keywords={variant: literal}, lower=bool); read from the Rust source by the translator's
    own parser, so a new variant or keyword shows up in the cases"""
    if tag in _ENUMS: return _ENUMS[tag]
    tr = translator()
    rel, name = ENUM_TAGS[tag]
    info = {"variants": [], "keywords": {}, "lower": False}
    try:
        toks = tr.lex(open(os.path.join(REPO, rel), encoding="utf-8").read())
        enums = tr.find_enums(toks)
        info["variants"] = [v for v, _ in enums.get(name, [])]
        text = tr.translate_enum(name, enums.get(name, []), tr.find_impls(toks), [])
        m = re.search(r"et_display := \[(.*?)\];\n  et_pre := (\w+);", text, re.S)
        if m:
            lits = re.findall(r'\((\d+)%N, \[[^\]]*\]%N \(\* "(.*?)" \*\)\)', m.group(1))
            for i, l in lits:
                if int(i) < len(info["variants"]):
                    info["keywords"].setdefault(info["variants"][int(i)], l)
            info["lower"] = m.group(2) == "PreLower"
    except Exception:
        pass
    _ENUMS[tag] = info
    return info

def priority_keywords():
    return enum_info("priority")["keywords"]

# ---------------------------------------------------------------- atoms
def X(s): return "x" + hexs(s)
def O(s): return "-" if s is None else "+" + hexs(s)
def unX(a): return bytes.fromhex(a[1:]).decode("utf-8")
def unO(a): return None if a == "-" else bytes.fromhex(a[1:]).decode("utf-8")

WS = set([0x9, 0xA, 0xB, 0xC, 0xD, 0x20, 0x85, 0xA0, 0x1680] + list(range(0x2000, 0x200B)) +
         [0x2028, 0x2029, 0x202F, 0x205F, 0x3000])
def is_ws(c): return ord(c) in WS
def trim(s):
    i, j = 0, len(s)
    while i < j and is_ws(s[i]): i += 1
    while j > i and is_ws(s[j-1]): j -= 1
    return s[i:j]
def split_ws(s):
    out, cur = [], ""
    for c in s:
        if is_ws(c):
            if cur: out.append(cur); cur = ""
        else: cur += c
    if cur: out.append(cur)
    return out
def token(t): return t != "" and not any(is_ws(c) for c in t)
USIZE_LIMIT = 1 << 64
def canon_dec(t):
    return t != "" and all("0" <= c <= "9" for c in t) and (t == "0" or t[0] != "0") and int(t) < USIZE_LIMIT

def to_lowercase_model(s):
    out = ""
    for c in s:
        if "A" <= c <= "Z": out += chr(ord(c) + 32)
        elif c == "\u0130": out += "i\u0307"
        elif c == "\u212a": out += "k"
        else: out += c
    return out

VCS_RE = re.compile(r" \[([^\] ]+)\]")
def re_free(s): return VCS_RE.search(s) is None
def sub_ok(p): return p != "" and " " not in p and "]" not in p
def no_lead_ws(s): return s == "" or not is_ws(s[0])
def no_trail_ws(s): return s == "" or not is_ws(s[-1])

def pvcs_valid(u, b, p):
    """mirror of VcsP.pvcs_valid"""
    if not (no_lead_ws(u) and re_free(u)): return False
    if b is None and p is None:
        return no_trail_ws(u) and " -b " not in u
    if b is None:
        return u != "" and " -b " not in u and sub_ok(p)
    if p is None:
        return u != "" and " -b " not in (u + " -b") and re_free(" " + b) and b != "" and no_trail_ws(b)
    return u != "" and " -b " not in (u + " -b") and re_free(" " + b) and sub_ok(p)

def pvcs_canon(s):
    """mirror of VcsP.pvcs_canon: nothing to trim, and the bracketed subpath (if any) ends the text"""
    if trim(s) != s: return False
    m = VCS_RE.search(s)
    return m is None or m.end() == len(s)

ORIGIN_SEP = ", "
def origin_text(kind, s): return ("commit:" + s) if kind == "Commit" else s
def origin_valid(kind, s): return kind == "Commit" or not s.startswith("commit:")

# ---------------------------------------------------------------- validity of a value (op r) / canonical text (op p)
def value_valid(tag, a):
    """is the value given by atoms a inside the hypotheses of the C18 round-trip theorem for its type?"""
    if tag in ENUM_TAGS:
        return a[0] in enum_info(tag)["variants"]
    if tag in ("md5", "sha1", "sha256", "sha512"):
        return token(unX(a[0])) and token(unX(a[2])) and int(a[1]) < USIZE_LIMIT
    if tag == "file":
        return token(unX(a[0])) and token(unX(a[2])) and token(unX(a[4])) and int(a[1]) < USIZE_LIMIT
    if tag == "ple":
        n = int(a[4])
        kv = [(unX(a[5 + 2*i]), unX(a[6 + 2*i])) for i in range(n)]
        def piece(t): return not any(is_ws(c) for c in t) and "=" not in t
        return (all(token(unX(a[i])) for i in range(3)) and all(piece(k) and piece(v) for k, v in kv)
                and len(set(k for k, _ in kv)) == n)
    if tag == "profile":
        return a[0] == "D" or not unX(a[1]).startswith("!")
    if tag == "forwarded":
        return a[0] != "Yes" or unX(a[1]) not in ("no", "not-needed")
    if tag in ("origin", "applied"):
        return origin_valid(a[0], unX(a[1]))
    if tag == "porigin":
        s = unX(a[2])
        if not origin_valid(a[1], s): return False
        if a[0] != "-": return True
        first = origin_text(a[1], s).split(ORIGIN_SEP, 1)[0]
        return first not in enum_info("origincat")["keywords"].values()
    if tag == "license":
        if a[0] == "Name": return "\n" not in unX(a[1])
        if a[0] == "Text": return True
        return unX(a[1]) != "" and "\n" not in unX(a[1])
    if tag == "signature":
        return a[0] == "KeyBlock" or "\n" not in unX(a[1])
    if tag == "pvcs":
        return pvcs_valid(unX(a[0]), unO(a[1]), unO(a[2]))
    if tag == "vcs":
        if a[0] == "Git": return pvcs_valid(unX(a[1]), unO(a[2]), unO(a[3]))
        if a[0] == "Bzr": return pvcs_valid(unX(a[1]), None, unO(a[2]))
        if a[0] in ("Hg", "Svn"): return True
        return " " not in unX(a[1])
    return False

def value_repr(tag, a):
    """the record form of the value given by atoms a (what a correct read-back must print)"""
    if tag == "ple":
        n = int(a[4])
        kv = sorted(((unX(a[5 + 2*i]), unX(a[6 + 2*i])) for i in range(n)), key=lambda p: (p[0].encode(), p[1].encode()))
        return ",".join(a[:4] + [str(n)] + [y for k, v in kv for y in (X(k), X(v))])
    if tag == "forwarded" and a[0] != "Yes":
        return a[0]
    return ",".join(a)

def text_canonical(tag, args):
    """is the text inside the hypotheses of the canonical-text theorem of its type?  (op p; args = hex fields)"""
    s = bytes.fromhex(args[0]).decode("utf-8")
    if tag in ENUM_TAGS:
        inf = enum_info(tag)
        return (to_lowercase_model(s) == s) if inf["lower"] else True
    if tag in ("md5", "sha1", "sha256", "sha512"):
        t = split_ws(s)
        return len(t) == 3 and " ".join(t) == s and canon_dec(t[1])
    if tag == "file":
        t = split_ws(s)
        return len(t) == 5 and " ".join(t) == s and canon_dec(t[1])
    if tag == "ple":
        t = split_ws(s)
        if len(t) < 4 or " ".join(t) != s: return False
        keys = [x.split("=")[0] for x in t[4:]]
        return all(x.count("=") == 1 for x in t[4:]) and len(set(keys)) == len(keys)
    if tag in ("profile", "forwarded", "origin", "applied", "license"):
        return True
    if tag == "porigin":
        return s not in enum_info("origincat")["keywords"].values()
    if tag == "signature":
        return s.startswith("\n") or "\n" not in s
    if tag == "pvcs":
        return pvcs_canon(s)
    if tag == "vcs":
        name = s
        v = bytes.fromhex(args[1]).decode("utf-8")
        if name in ("Git", "Bzr"): return pvcs_canon(v)
        return True
    return False

# ---------------------------------------------------------------- pools
HASHES = ["d41d8cd98f00b204e9800998ecf8427e", "da39a3ee5e6b4b0d3255bfef95601890afd80709", "0", "abc", "é", "a=b", "!x",
          "e3b0c44298fc1c149afbf4c8996fb92427ae41e4649b934ca495991b7852b855"]
FILES = ["hello_1.0.dsc", "hello_1.0.orig.tar.gz", "a", "pool/main/h/hello/hello_2.10-3_amd64.deb", "x=y", "ü.deb", "[x]", "-b",
         "commit:1", "+1", "007", "no", "\U0001f600"]
SECTIONS = ["utils", "non-free/libs", "-", "python", "optional", "s"]
SIZES = [0, 1, 9, 10, 11, 99, 100, 4096, 123456789, 2**31 - 1, 2**31, 2**32 - 1, 2**32, 2**53, 2**63 - 1, 2**63,
         2**64 - 2, 2**64 - 1, 10**19, 9999999999999999999]
WS_STRS = [" ", "  ", "\t", "\n", "\r\n", "\u00a0", "\u2003", "\u3000", "\x0b", "\x0c", "\u0085", "\u1680", "\u2028", "\u205f"]
NOT_WS = ["\u200b", "\u180e", "\ufeff", "\x1f", "\x00", "\u2060"]       # look like spaces, are not White_Space
BAD_TOKENS = ["", " ", "a b", "a\tb", " a", "a ", "a\u00a0b", "\n"]

def rtoken(rng, pool):
    r = rng.random()
    if r < 0.7: return rng.choice(pool)
    if r < 0.85: return rng.choice(pool) + rng.choice(NOT_WS) + rng.choice(pool)
    return "".join(rng.choice("abcXYZ019._-+~=!:[]@/é") for _ in range(rng.choice([1, 2, 5, 12])))
def rsize(rng):
    r = rng.random()
    if r < 0.5: return rng.choice(SIZES)
    if r < 0.8: return rng.randrange(0, 10 ** rng.choice([1, 3, 6, 12, 19]))
    return rng.randrange(0, USIZE_LIMIT)
def rsep(rng, canonical):
    if canonical or rng.random() < 0.5: return " "
    return "".join(rng.choice(WS_STRS) for _ in range(rng.choice([1, 1, 2, 3])))

def mutate_text(rng, s, alphabet):
    if not s: return rng.choice(alphabet)
    k = rng.choice(["del", "ins", "rep", "dup", "trunc", "swap"])
    i = rng.randrange(len(s))
    if k == "del": return s[:i] + s[i+1:]
    if k == "ins": return s[:i] + rng.choice(alphabet) + s[i:]
    if k == "rep": return s[:i] + rng.choice(alphabet) + s[i+1:]
    if k == "dup":
        j = min(len(s), i + rng.choice([1, 2, 5])); return s[:j] + s[i:j] + s[j:]
    if k == "swap" and i + 1 < len(s): return s[:i] + s[i+1] + s[i] + s[i+2:]
    return s[:i]

class Cases:
    def __init__(self, prefix):
        self.prefix = prefix; self.cases = []; self.seen = set()
    def add(self, tag, op, args):
        key = (tag, op) + tuple(args)
        if key in self.seen: return
        self.seen.add(key)
        self.cases.append((f"{self.prefix}{len(self.cases)}", [tag, op] + list(args)))
    def p(self, tag, text): self.add(tag, "p", [hexs(text)])
    def r(self, tag, atoms): self.add(tag, "r", atoms)

# ---------------------------------------------------------------- enumerations: exhaustive values, keyword mutants
def enum_cases(tier, rng, out):
    allkw = []
    for tag in ENUM_TAGS:
        allkw += list(enum_info(tag)["keywords"].values())
    allkw = list(dict.fromkeys(allkw))
    for tag in ENUM_TAGS:
        inf = enum_info(tag)
        for v in inf["variants"]:
            out.r(tag, [v])
        out.r(tag, ["NoSuchVariant"])           # both sides must say NOVARIANT
        kws = list(inf["keywords"].values())
        for k in allkw:                          # own keywords and those of every other enumeration
            out.p(tag, k)
        for v in inf["variants"]:                # the Rust variant names themselves
            out.p(tag, v)
        for k in kws:
            muts = [k.upper(), k.capitalize(), k.swapcase(), k.title(), " " + k, k + " ", k + "\n", "\t" + k, k + k, k[:-1], k[1:],
                    k + "s", "x" + k, k.replace("e", "é"), k.replace("i", "\u0130"), k.replace("i", "ı"), k.replace("k", "\u212a"),
                    k.replace("K", "\u212a"), k.upper().replace("I", "\u0130"), k.upper().replace("S", "ſ"), k + "\u0307", k[0].upper() + k[1:],
                    k[:1] + k[1:].upper(), k + "\x00", "\ufeff" + k, k.replace("-", "_"), k.replace("-", ""), k.replace("=", "=="),
                    k.replace(">", "<"), k[::-1]]
            for m in muts: out.p(tag, m)
            for i in range(len(k)):
                out.p(tag, k[:i] + k[i+1:])
                out.p(tag, k[:i] + k[i].upper() + k[i+1:])
                out.p(tag, k[:i] + "x" + k[i+1:])
        for s in ["", " ", "\n", "0", "1", "true", "false", "none", "default", "unknown", "-", "\u212a", "\u0130", "Σ", "ß", "ǅ"]:
            out.p(tag, s)
        # exhaustive-small over the characters of the keywords (case variants included)
        chars = sorted(set("".join(kws)))[:6]
        alphabet = list(dict.fromkeys(chars + [c.upper() for c in chars[:2]] + [" "]))
        n = {"quick": 3, "search": 3, "thorough": 4}[tier]
        for k in range(1, n + 1):
            for tup in itertools.product(alphabet, repeat=k):
                out.p(tag, "".join(tup))
        nrand = {"quick": 200, "search": 600, "thorough": 5000}[tier]
        for _ in range(nrand):
            m = rng.choice(kws) if kws else "x"
            for _ in range(rng.choice([1, 1, 2, 3])):
                m = mutate_text(rng, m, list("abcdefghijklmnopqrstuvwxyzABCXYZ<>=- \n") + ["\u0130", "\u212a", "é"])
            out.p(tag, m)

# ---------------------------------------------------------------- records
def cksum_cases(tier, rng, out):
    n = {"quick": 2500, "search": 6000, "thorough": 500000}[tier]
    tags = ["md5", "sha1", "sha256", "sha512"]
    for tag in tags:
        for sz in SIZES:
            if sz < USIZE_LIMIT: out.r(tag, [X("abc"), str(sz), X("f")])
        for bt in BAD_TOKENS:                      # outside the hypotheses: the guards are needed
            out.r(tag, [X(bt), "1", X("f")]); out.r(tag, [X("h"), "1", X(bt)])
        for t in ["", "a", "a 1", "a 1 f", "a 1 f g", "a +1 f", "a + f", "a - f", "a -1 f", "a 01 f", "a 1.0 f", "a 1e3 f", "a 0x10 f",
                  "a １ f", "a 1_0 f", "a 18446744073709551615 f", "a 18446744073709551616 f", "a 99999999999999999999 f",
                  "a 000000000000000000000000000001 f", "a +0 f", "a ++1 f", "a 1+ f", " a 1 f", "a 1 f ", "a  1  f", "a\t1\nf",
                  "a\u00a01\u3000f", "a\u200b1 2 f", "1 2 3", "a 1\x0bf"]:
            out.p(tag, t)
    for _ in range(n):
        tag = rng.choice(tags)
        h, f, sz = rtoken(rng, HASHES), rtoken(rng, FILES), rsize(rng)
        if rng.random() < 0.06: h = rng.choice(BAD_TOKENS)
        if rng.random() < 0.06: f = rng.choice(BAD_TOKENS)
        out.r(tag, [X(h), str(sz), X(f)])
        canonical = rng.random() < 0.5
        szt = str(sz) if canonical or rng.random() < 0.5 else rng.choice(["+", "0", "00", "-", ""]) + str(sz) + rng.choice(["", "", "0", "x", "_"])
        if rng.random() < 0.1: szt = str(rng.choice([2**64, 2**64 + 1, 10**20, 10**30, 2**64 * 10]))
        toks = [h if h.strip() else "h", szt, f if f.strip() else "f"]
        if not canonical and rng.random() < 0.3: toks = toks[:rng.choice([0, 1, 2])]
        if not canonical and rng.random() < 0.3: toks.append(rtoken(rng, FILES))
        t = rsep(rng, canonical).join(toks)
        if not canonical:
            if rng.random() < 0.3: t = rng.choice(WS_STRS) + t
            if rng.random() < 0.3: t = t + rng.choice(WS_STRS)
            if rng.random() < 0.2: t = mutate_text(rng, t, list("a1 +-\t") + WS_STRS)
        out.p(tag, t)

def file_cases(tier, rng, out):
    n = {"quick": 2500, "search": 6000, "thorough": 500000}[tier]
    prios = enum_info("priority")
    names = prios["variants"] or ["Optional"]
    kws = list(prios["keywords"].values()) or ["optional"]
    for v in names:
        out.r("file", [X("m"), "5", X("sec"), v, X("fn")])
    for bt in BAD_TOKENS:
        out.r("file", [X(bt), "1", X("s"), names[0], X("f")]); out.r("file", [X("m"), "1", X(bt), names[0], X("f")])
        out.r("file", [X("m"), "1", X("s"), names[0], X(bt)])
    for t in ["", "m", "m 1", "m 1 s", "m 1 s optional", "m 1 s optional f", "m 1 s optional f g", "m 1 s Optional f", "m 1 s bogus f",
              "m x s optional f", "m 1 s optional  f", "m +1 s extra f", "m 1 s  f", "m 18446744073709551616 s extra f"]:
        out.p("file", t)
    for _ in range(n):
        m, s, f, sz = rtoken(rng, HASHES), rtoken(rng, SECTIONS), rtoken(rng, FILES), rsize(rng)
        if rng.random() < 0.05: s = rng.choice(BAD_TOKENS)
        out.r("file", [X(m), str(sz), X(s), rng.choice(names), X(f)])
        canonical = rng.random() < 0.5
        pk = rng.choice(kws) if canonical or rng.random() < 0.6 else rng.choice([k.upper() for k in kws] + ["", "bogus", "low", "Optional"])
        szt = str(sz) if canonical or rng.random() < 0.6 else rng.choice(["+", "0", "-"]) + str(sz)
        toks = [m, szt, s if s.strip() else "s", pk, f]
        if not canonical and rng.random() < 0.3: toks = toks[:rng.randrange(0, 5)]
        if not canonical and rng.random() < 0.2: toks.append("extra")
        t = rsep(rng, canonical).join(toks)
        if not canonical and rng.random() < 0.2: t = mutate_text(rng, t, list("a1 +-\t") + WS_STRS)
        out.p("file", t)

SAFE_KEYS = ["arch", "profile", "essential", "k", "a", "protected", "x-y", "é"]
SAFE_VALS = ["any", "all", "!stage1", "yes", "", "linux-any,kfreebsd-any", "v", "1"]
def ple_cases(tier, rng, out):
    n = {"quick": 2500, "search": 6000, "thorough": 500000}[tier]
    prios = enum_info("priority")
    names = prios["variants"] or ["Optional"]
    kws = list(prios["keywords"].values()) or ["optional"]
    for v in names:
        out.r("ple", [X("p"), X("deb"), X("s"), v, "0"])
    out.r("ple", [X("p"), X("deb"), X("s"), names[0], "2", X("k"), X("v"), X("a"), X("")])
    out.r("ple", [X("p"), X("deb"), X("s"), names[0], "2", X("k"), X("v"), X("k"), X("w")])      # same key twice: HashMap overwrites
    for k, v in [("a=b", "c"), ("a", "b=c"), ("a b", "c"), ("a", "b c"), ("", ""), ("", "v"), ("k", ""), ("a", " "), ("=", "=")]:
        out.r("ple", [X("p"), X("deb"), X("s"), names[0], "1", X(k), X(v)])                       # one weird extra (order cannot matter)
    for bt in BAD_TOKENS:
        out.r("ple", [X(bt), X("deb"), X("s"), names[0], "0"]); out.r("ple", [X("p"), X("deb"), X(bt), names[0], "0"])
    for t in ["", "p", "p deb", "p deb s", "p deb s optional", "p deb s optional a=b", "p deb s optional a", "p deb s optional a=b=c",
              "p deb s optional a=b a=c", "p deb s optional =", "p deb s optional a= =b", "p deb s Optional", "p deb s bogus a=b",
              "p deb s optional a=b c", "p  deb s optional", "p deb s optional arch=any profile=!stage1 essential=yes",
              "p deb s optional a=b\tc=d", " p deb s optional", "p deb s optional ==", "p deb s optional a==b"]:
        out.p("ple", t)
    for _ in range(n):
        pk, ty, s = rtoken(rng, FILES), rng.choice(["deb", "udeb", "x"]), rtoken(rng, SECTIONS)
        ne = rng.choice([0, 0, 1, 1, 2, 3, 5])
        keys = rng.sample(SAFE_KEYS, ne)
        atoms = [X(pk), X(ty), X(s), rng.choice(names), str(ne)]
        for k in keys: atoms += [X(k), X(rng.choice(SAFE_VALS))]
        out.r("ple", atoms)
        canonical = rng.random() < 0.5
        pkw = rng.choice(kws) if canonical or rng.random() < 0.7 else rng.choice(["", "bogus", "Optional", "high"])
        toks = [pk, ty, s, pkw]
        ks = rng.sample(SAFE_KEYS, rng.choice([0, 1, 2, 4]))
        for k in ks:
            e = k + "=" + rng.choice(SAFE_VALS)
            if not canonical and rng.random() < 0.2: e = rng.choice([k, k + "=a=b", "=" + k, k + "==", "="])
            toks.append(e)
        if not canonical and ks and rng.random() < 0.3: toks.append(ks[0] + "=dup")
        if not canonical and rng.random() < 0.2: toks = toks[:rng.randrange(0, 4)]
        t = rsep(rng, canonical).join(toks)
        if not canonical and rng.random() < 0.2: t = mutate_text(rng, t, list("a= \t") + WS_STRS)
        out.p("ple", t)

# ---------------------------------------------------------------- open types
ATOMS = ["a", "b", "x", "no", "not-needed", "yes", "commit:", "commit", ":", "!", "!!", "\n", "\n\n", " ", ", ", ",", "http://x/y?a=b",
         "abc123", "vendor", "upstream", "backport", "other", "Vendor", "é", "\U0001f600", "-----BEGIN PGP PUBLIC KEY BLOCK-----",
         "/usr/share/keyrings/k.gpg", "GPL-2+", "This program is free software", " .", "\r", "\t", "", "//", "/./", ".."]
def rstring(rng, atoms=ATOMS, n=None):
    n = rng.choice([0, 1, 1, 2, 2, 3, 5]) if n is None else n
    return "".join(rng.choice(atoms) for _ in range(n))

def small_strings(alphabet, n):
    for k in range(0, n + 1):
        for tup in itertools.product(alphabet, repeat=k):
            yield "".join(tup)

def open_cases(tier, rng, out):
    n = {"quick": 1500, "search": 4000, "thorough": 120000}[tier]
    depth = {"quick": 4, "search": 4, "thorough": 5}[tier]
    # exhaustive-small texts over the pieces each reader looks at
    for s in small_strings(["!", "a", " "], depth + 1):
        out.p("profile", s)
    for s in small_strings(["no", "not-needed", "t", "-", "n", " "], depth):
        out.p("forwarded", s)
    for s in small_strings(["commit:", "commit", ":", "c", " "], depth):
        out.p("origin", s); out.p("applied", s)
    for s in small_strings(["vendor", "other", ", ", ",", " ", "commit:", "x"], depth):
        out.p("porigin", s)
    for s in small_strings(["\n", "a", " ", "\r"], depth + 1):
        out.p("license", s); out.p("signature", s)
    for s in small_strings(["<", ">", "@", " ", "a"], depth + 1):
        out.add("identity", "p", [hexs(s)])
    cats = ["-"] + (enum_info("origincat")["variants"] or ["Vendor"])
    for s in small_strings(["vendor", ", ", "commit:", "x", "other"], 3):
        for c in cats:
            for k in ("Commit", "Other"):
                out.r("porigin", [c, k, X(s)])
    for s in small_strings(["!", "a", "\n", "no", "not-needed", "commit:", "c"], 3):
        out.r("profile", ["E", X(s)]); out.r("profile", ["D", X(s)])
        out.r("forwarded", ["Yes", X(s)])
        for k in ("Commit", "Other"):
            out.r("origin", [k, X(s)]); out.r("applied", [k, X(s)])
        out.r("license", ["Name", X(s)]); out.r("license", ["Text", X(s)])
        out.r("signature", ["KeyBlock", X(s)]); out.r("signature", ["KeyPath", X(s)])
        for t in ("", "a", "\n", "a\nb"):
            out.r("license", ["Named", X(s), X(t)])
    out.r("forwarded", ["No"]); out.r("forwarded", ["NotNeeded"])
    for _ in range(n):
        s = rstring(rng); t = rstring(rng)
        out.p("profile", s); out.p("forwarded", s); out.p("origin", s); out.p("applied", s); out.p("porigin", s)
        out.p("license", s); out.p("signature", s); out.add("identity", "p", [hexs(s)])
        out.add("identity", "p", [hexs(rstring(rng, ["Joe", " ", "<", ">", "@", "joe@example.com", "Example", "\t", "<<", ">>", "é"]))])
        out.r("profile", [rng.choice("ED"), X(s)])
        out.r("forwarded", ["Yes", X(s)])
        k = rng.choice(["Commit", "Other"])
        out.r("origin", [k, X(s)]); out.r("applied", [k, X(s)])
        out.r("porigin", [rng.choice(cats), k, X(s)])
        out.r("license", [rng.choice(["Name", "Text"]), X(s)]); out.r("license", ["Named", X(s), X(t)])
        out.r("signature", [rng.choice(["KeyBlock", "KeyPath"]), X(s)])
        out.p("porigin", rng.choice(["vendor", "upstream", "backport", "other", "x"]) + rng.choice([", ", ",", " ", ", , ", ""]) + s)

# ---------------------------------------------------------------- VCS locations
URLS = ["https://github.com/jelmer/example", "https://salsa.debian.org/x/y.git", "u", "git://x/y", "lp:foo", ":pserver:anon@cvs.x:/cvs",
        "http://x/ü", "x", "-b", "[x]", "u[x]"]
BRANCHES = ["main", "debian/sid", "b", "-b", "[x]", "[x]y", "x [y]", "a b", "", " ", "b ", " b", "x -b y", "é"]
SUBS = ["sub", "debian", "a/b", "p", "", "a b", "a]", "]", "[", "a\nb", "é", " "]
VCS_ATOMS = ["u", " ", "[", "]", "-b", "\t"]
def vcs_cases(tier, rng, out):
    n = {"quick": 3000, "search": 8000, "thorough": 200000}[tier]
    # every combination of branch and subpath over the pools (valid and guard-violating values)
    for u in URLS + ["", " u", "u ", "u -b v", "u [s]", "u -b", "u [s", "u \u00a0"]:
        for b in [None] + BRANCHES:
            for p in [None] + SUBS:
                out.r("pvcs", [X(u), O(b), O(p)])
                if len(u) <= 4: out.r("vcs", ["Git", X(u), O(b), O(p)])
        for p in [None] + SUBS:
            out.r("vcs", ["Bzr", X(u), O(p)])
        out.r("vcs", ["Hg", X(u)]); out.r("vcs", ["Svn", X(u)])
        for m in [None, "module", "a b", "", " "]:
            out.r("vcs", ["Cvs", X(u), O(m)])
    depth = {"quick": 5, "search": 5, "thorough": 7}[tier]
    for s in small_strings(VCS_ATOMS, depth):
        out.p("pvcs", s)
    for s in small_strings(VCS_ATOMS, depth - 2):
        for name in ("Git", "Bzr", "Cvs"):
            out.add("vcs", "p", [hexs(name), hexs(s)])
    for name in ["Git", "Bzr", "Hg", "Svn", "Cvs", "git", "GIT", "Darcs", "Mtn", "Arch", "Browser", "", "Git ", " Git", "Vcs-Git", "Gi", "Gitt", "Cv", "Hg\n"]:
        for v in ["", "u", "u -b b", "u [p]", "u -b b [p]", "root module", "root  module x", " u "]:
            out.add("vcs", "p", [hexs(name), hexs(v)])
    for _ in range(n):
        u = rng.choice(URLS) if rng.random() < 0.8 else rstring(rng, VCS_ATOMS + ["x", "\u00a0"])
        b = None if rng.random() < 0.4 else (rng.choice(BRANCHES) if rng.random() < 0.8 else rstring(rng, VCS_ATOMS + ["x"]))
        p = None if rng.random() < 0.4 else (rng.choice(SUBS) if rng.random() < 0.8 else rstring(rng, ["a", "/", ".", "]", " "]))
        out.r("pvcs", [X(u), O(b), O(p)])
        text = u + ("" if b is None else " -b " + b) + ("" if p is None else " [" + p + "]")
        out.p("pvcs", text)
        m = text
        for _ in range(rng.choice([1, 1, 2])): m = mutate_text(rng, m, VCS_ATOMS + ["x", "\n", "\u00a0"])
        out.p("pvcs", m)
        if rng.random() < 0.3: out.p("pvcs", rng.choice(WS_STRS) + text + rng.choice(WS_STRS))
        if rng.random() < 0.3 and p is not None:                   # subpath before the branch: accepted, not canonical
            out.p("pvcs", u + " [" + p + "]" + ("" if b is None else " -b " + b))
        kind = rng.choice(["Git", "Bzr", "Hg", "Svn", "Cvs"])
        if kind == "Git": out.r("vcs", ["Git", X(u), O(b), O(p)])
        elif kind == "Bzr": out.r("vcs", ["Bzr", X(u), O(p)])
        elif kind == "Cvs": out.r("vcs", ["Cvs", X(u), O(b)])
        else: out.r("vcs", [kind, X(u)])
        out.add("vcs", "p", [hexs(kind), hexs(m)])

# ---------------------------------------------------------------- the modelled std externals, code point by code point
def unicode_cases(tier, rng, out):
    """char::is_whitespace (through split_whitespace and trim) and str::to_lowercase (through Urgency) for every
    scalar value (thorough) or every scalar value below U+3100 plus a sample (quick)"""
    if tier == "thorough":
        cps = [c for c in range(0x110000) if not (0xD800 <= c <= 0xDFFF)]
    else:
        cps = list(range(0, 0x3100)) + [rng.randrange(0x3100, 0x110000) for _ in range(2000)]
        cps = [c for c in cps if not (0xD800 <= c <= 0xDFFF)]
    kws = list(enum_info("urgency")["keywords"].values()) or ["low"]
    for c in cps:
        ch = chr(c)
        out.p("md5", "a" + ch + "1" + ch + "f")          # three tokens iff ch is White_Space
        out.p("pvcs", ch + "u" + ch)                      # trim
        k = kws[c % len(kws)]
        i = (c // len(kws)) % len(k)
        out.p("urgency", k[:i] + ch + k[i+1:])           # accepted iff to_lowercase(ch) is that letter
        if ch.lower() != ch or ch.upper() != ch:           # cased characters: against every letter of every keyword
            for kw in kws:
                for j in range(len(kw)):
                    if kw[j] not in kw[:j]:
                        out.p("urgency", kw[:j] + ch + kw[j+1:])

def codec_cases(tier, rng, prefix="k"):
    out = Cases(prefix)
    enum_cases(tier, rng, out)
    cksum_cases(tier, rng, out)
    file_cases(tier, rng, out)
    ple_cases(tier, rng, out)
    open_cases(tier, rng, out)
    vcs_cases(tier, rng, out)
    unicode_cases(tier, rng, out)
    return out.cases
