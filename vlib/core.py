"""Driver core: builds (Coq cone, extraction, OCaml runner, Rust harness), runs the
correspondence streams, evaluates oracles, classifies known findings, writes evidence."""
import fcntl, hashlib, json, os, random, re, shutil, subprocess, sys, time
from concurrent.futures import ThreadPoolExecutor

VERIF = os.path.dirname(os.path.dirname(os.path.abspath(__file__)))
REPO = os.environ.get("VERIF_REPO", "/repo")
BUILD = os.path.join(VERIF, ".build")
COQ = os.path.join(VERIF, "coq")
OCAML = os.path.join(BUILD, "ocaml")
TARGET = os.path.join(BUILD, "target")
HARNESS_BIN = os.path.join(TARGET, "release", "verif-harness")
RUNNER_BIN = os.path.join(OCAML, "runner")
NPROC = 16

FORBIDDEN = re.compile(r"\b(Admitted|admit|Axiom|Axioms|Parameter|Parameters|Conjecture|Conjectures|Hypothesis|Hypotheses|Variable|Variables|Abort)\b|Unset\s+Guard|bypass_check|type-in-type|impredicative-set|Admit\s+Obligations|Unset\s+Positivity|Unset\s+Universe|Set\s+Default\s+Timeout")

def log(*a):
    print(*a, file=sys.stderr, flush=True)

def sh(cmd, cwd=None, timeout=3600, env=None):
    e = dict(os.environ)
    e.update({"CARGO_NET_OFFLINE": "true"})
    if env:
        e.update(env)
    p = subprocess.run(cmd, cwd=cwd, shell=isinstance(cmd, str), stdout=subprocess.PIPE,
                       stderr=subprocess.STDOUT, timeout=timeout, env=e, text=True, errors="replace")
    return p.returncode, p.stdout

class Lock:
    def __init__(self, name):
        os.makedirs(BUILD, exist_ok=True)
        self.path = os.path.join(BUILD, name + ".lock")
    def __enter__(self):
        self.f = open(self.path, "w")
        fcntl.flock(self.f, fcntl.LOCK_EX)
        return self
    def __exit__(self, *a):
        fcntl.flock(self.f, fcntl.LOCK_UN)
        self.f.close()

# ---------------------------------------------------------------- builds

def run_translators():
    """Regenerate coq/gen/*.v from /repo's current sources. Returns (ok, log)."""
    tdir = os.path.join(VERIF, "translate")
    logs = []
    ok = True
    os.makedirs(os.path.join(COQ, "gen"), exist_ok=True)
    for f in (sorted(os.listdir(tdir)) if os.path.isdir(tdir) else []):
        if f.endswith(".py") and not f.startswith("_"):
            rc, out = sh([sys.executable, os.path.join(tdir, f), REPO, os.path.join(COQ, "gen")], timeout=300)
            logs.append(f"== {f}: rc={rc}\n{out}")
            ok = ok and rc == 0
    return ok, "\n".join(logs)

def coq_sources():
    out = []
    for sub in ("model", "proofs", "props", "gen"):
        d = os.path.join(COQ, sub)
        if os.path.isdir(d):
            for f in sorted(os.listdir(d)):
                if f.endswith(".v"):
                    out.append(os.path.join(sub, f))
    return out

def ensure_coq_makefile():
    proj = os.path.join(COQ, "_CoqProject")
    want = "-Q . V\n-arg -w -arg -notation-overridden,-deprecated-hint-without-locality,-deprecated-instance-without-locality,-unused-pattern-matching-variable,-extraction-opaque-accessed\n" + \
        "".join(s + "\n" for s in coq_sources() if not s.startswith("extract/"))
    cur = open(proj).read() if os.path.exists(proj) else ""
    if cur != want or not os.path.exists(os.path.join(COQ, "Makefile")):
        open(proj, "w").write(want)
        rc, out = sh("coq_makefile -f _CoqProject -o Makefile", cwd=COQ)
        if rc != 0:
            raise RuntimeError("coq_makefile failed: " + out)

def grep_forbidden():
    """No Admitted/admit/Axiom/... anywhere in the development (comments stripped)."""
    bad = []
    for s in coq_sources():
        txt = open(os.path.join(COQ, s)).read()
        txt = strip_coq_comments(txt)
        in_section = 0
        for i, line in enumerate(txt.split("\n"), 1):
            if re.match(r"\s*Section\b", line):
                in_section += 1
            if re.match(r"\s*End\b", line) and in_section:
                in_section -= 1
            for m in FORBIDDEN.finditer(line):
                w = m.group(0)
                if w.split()[0] in ("Variable", "Variables", "Hypothesis", "Hypotheses") and in_section:
                    continue   # section-local: becomes an explicit premise
                bad.append(f"{s}:{i}: {w}")
    return bad

def strip_coq_comments(t):
    out = []
    depth = 0
    i = 0
    instr = False
    while i < len(t):
        if not instr and t.startswith("(*", i):
            depth += 1; i += 2; continue
        if not instr and depth and t.startswith("*)", i):
            depth -= 1; i += 2; continue
        c = t[i]
        if depth == 0:
            if c == '"':
                instr = not instr
            out.append(c)
        elif c == "\n":
            out.append(c)
        i += 1
    return "".join(out)

def build_coq(targets, timeout=1800):
    """make the given .vo targets (full .vo build). Returns (ok, log)."""
    with Lock("coq"):
        ensure_coq_makefile()
        rc, out = sh(["make", "-j", str(NPROC)] + targets, cwd=COQ, timeout=timeout)
        return rc == 0, out

def gen_extract_v():
    """coq/extract/roots/*.roots -> .build/ocaml/Extract.v (Separate Extraction: one .ml per Coq library,
    so that every stream file shares the same OCaml types)."""
    rdir = os.path.join(COQ, "extract", "roots")
    imports, roots = [], []
    for f in sorted(os.listdir(rdir)):
        if not f.endswith(".roots"): continue
        for l in open(os.path.join(rdir, f)):
            l = l.split("#")[0].strip()
            if l.startswith("import "):
                m = l[7:].strip()
                if m not in imports: imports.append(m)
            elif l.startswith("root "):
                r = l[5:].strip()
                if r not in roots: roots.append(r)
    v = ["(* generated by vlib/core.py from coq/extract/roots/*.roots — ExtrOcamlBasic only *)",
         "Require Extraction.", "Require Import ExtrOcamlBasic.", "Extraction Language OCaml."]
    for m in imports:
        v.append(f"Require {m}.")
    v.append("Separate Extraction\n  " + "\n  ".join(roots) + ".")
    return "\n".join(v) + "\n"

def ocaml_dep_order(d, files):
    """topological order of .ml files in d using ocamldep -sort"""
    rc, out = sh(["ocamlfind", "ocamldep", "-sort"] + files, cwd=d)
    if rc != 0:
        raise RuntimeError("ocamldep failed: " + out)
    return out.split()

def build_runner():
    """Extract the model and compile the OCaml runner (only when inputs changed)."""
    with Lock("ocaml"):
        os.makedirs(OCAML, exist_ok=True)
        rdir = os.path.join(COQ, "extract", "roots")
        srcs = [os.path.join(rdir, f) for f in sorted(os.listdir(rdir))] + \
               [os.path.join(COQ, s) for s in coq_sources() if s.startswith("model/") or s.startswith("gen/")] + \
               [os.path.join(VERIF, "runner", f) for f in sorted(os.listdir(os.path.join(VERIF, "runner"))) if f.endswith(".ml")]
        h = hashlib.sha256()
        for s in srcs:
            h.update(s.encode()); h.update(open(s, "rb").read())
        stamp = os.path.join(OCAML, "stamp")
        if os.path.exists(stamp) and open(stamp).read() == h.hexdigest() and os.path.exists(RUNNER_BIN):
            return True, "runner up to date"
        # model .vo files needed by Extract.v
        ok, out = build_coq([s[:-2] + ".vo" for s in coq_sources() if s.startswith("model/") or s.startswith("gen/")])
        if not ok:
            return False, out
        for f in os.listdir(OCAML):
            if f.endswith((".ml", ".mli", ".cmi", ".cmx", ".o", ".cmo")):
                os.remove(os.path.join(OCAML, f))
        open(os.path.join(OCAML, "Extract.v"), "w").write(gen_extract_v())
        rc, out1 = sh(["coqc", "-Q", COQ, "V", "Extract.v"], cwd=OCAML, timeout=900)
        if rc != 0:
            return False, out1
        mls = sorted(f for f in os.listdir(os.path.join(VERIF, "runner")) if f.endswith(".ml"))
        for f in mls:
            shutil.copy(os.path.join(VERIF, "runner", f), OCAML)
        allml = sorted(f for f in os.listdir(OCAML) if f.endswith(".ml") or f.endswith(".mli"))
        try:
            order = ocaml_dep_order(OCAML, allml)
        except RuntimeError as e:
            return False, str(e)
        # stream files are only referenced through registration: make sure they are linked, main last
        for f in mls:
            if f not in order: order.append(f)
        order = [f for f in order if f != "main.ml"] + ["main.ml"]
        rc, out2 = sh(["ocamlfind", "ocamlopt", "-O2", "-w", "-a"] + order + ["-o", "runner"], cwd=OCAML, timeout=900)
        if rc != 0:
            rc, out2 = sh(["ocamlfind", "ocamlopt", "-w", "-a"] + order + ["-o", "runner"], cwd=OCAML, timeout=900)
        if rc != 0:
            return False, out2
        open(stamp, "w").write(h.hexdigest())
        return True, out1 + out2

def build_harness():
    """Build the Rust harness against REPO's current working tree, hooks on."""
    with Lock("cargo"):
        hdir = os.path.join(VERIF, "harness")
        if REPO != "/repo":
            # scratch copy of the repository: point the path dependencies at it
            alt = os.path.join(BUILD, "harness-alt")
            shutil.rmtree(alt, ignore_errors=True)
            shutil.copytree(hdir, alt)
            ct = open(os.path.join(alt, "Cargo.toml")).read().replace('"/repo', '"' + REPO)
            open(os.path.join(alt, "Cargo.toml"), "w").write(ct)
            hdir = alt
        rc, out = sh(["cargo", "build", "--release", "--offline"], cwd=hdir, timeout=1800,
                     env={"CARGO_TARGET_DIR": TARGET, "RUSTFLAGS": "--cfg deb822_verif"})
        return rc == 0, out

# ---------------------------------------------------------------- running streams

def hexs(s):
    return s.encode("utf-8").hex()
def unhex(h):
    return bytes.fromhex(h).decode("utf-8")

def _run_shard(args):
    binary, stream, path, outpath, env = args
    e = dict(os.environ); e.update(env or {})
    with open(outpath, "w") as o:
        p = subprocess.run([binary, stream, path], stdout=o, stderr=subprocess.PIPE, env=e)
    return p.returncode, p.stderr.decode(errors="replace")[-2000:]

def run_stream(prop, stream, cases, case_ms=4000):
    """cases: list of (id, [fields]).  Returns dict id -> (model_record, impl_record)."""
    d = os.path.join(BUILD, "cases", prop)
    os.makedirs(d, exist_ok=True)
    n = max(1, min(NPROC, len(cases) // 50 + 1))
    shards = [[] for _ in range(n)]
    for i, c in enumerate(cases):
        shards[i % n].append(c)
    jobs = []
    for i, sh_cases in enumerate(shards):
        path = os.path.join(d, f"{stream}.{i}.cases")
        with open(path, "w") as f:
            for cid, fields in sh_cases:
                f.write(cid + "\t" + "\t".join(fields) + "\n")
        jobs.append((RUNNER_BIN, stream, path, path + ".model", None))
        jobs.append((HARNESS_BIN, stream, path, path + ".impl", {"VERIF_CASE_MS": str(case_ms)}))
    with ThreadPoolExecutor(max_workers=NPROC) as ex:
        rcs = list(ex.map(_run_shard, jobs))
    for (rc, err), job in zip(rcs, jobs):
        if rc != 0:
            raise RuntimeError(f"{job[0]} {stream} failed rc={rc}: {err}")
    res = {}
    for i in range(n):
        path = os.path.join(d, f"{stream}.{i}.cases")
        m = dict(l.rstrip("\n").split("\t", 1) for l in open(path + ".model") if "\t" in l)
        im = dict(l.rstrip("\n").split("\t", 1) for l in open(path + ".impl") if "\t" in l)
        for cid, _ in shards[i]:
            res[cid] = (m.get(cid, "MISSING"), im.get(cid, "MISSING"))
    return res

def rec_fields(rec):
    """'a=1|b=2' -> dict; records without '=' map to {'_': rec}."""
    out = {}
    for part in rec.split("|"):
        if "=" in part:
            k, v = part.split("=", 1)
            out[k] = v
        else:
            out.setdefault("_", part)
    return out

# ---------------------------------------------------------------- known findings

def load_known():
    p = os.path.join(VERIF, "known_findings.jsonl")
    out = []
    if os.path.exists(p):
        for l in open(p):
            l = l.strip()
            if l:
                out.append(json.loads(l))
    return out

# ---------------------------------------------------------------- evidence

def write_evidence(pid, tier, seed, coverage, wall, violations, assumptions):
    os.makedirs(os.path.join(VERIF, "evidence"), exist_ok=True)
    ev = {"property_id": pid, "tier": tier, "seed": seed, "level": "proof",
          "coverage": coverage, "assumptions": assumptions, "wall_s": round(wall, 2),
          "violations": violations}
    with open(os.path.join(VERIF, "evidence", pid + ".json"), "w") as f:
        json.dump(ev, f, indent=1, ensure_ascii=False)
        f.write("\n")
