"""Generators for the wrap-and-sort streams (C07): documents (structured well-formed ones with
every layout knob, exotic-but-error-free ones, control files with relationship fields, every short
string over a small alphabet, mutated/malformed ones) x settings.  Every random choice comes from
the rng handed in."""
import os, subprocess
from .core import hexs, unhex, BUILD
from . import core, gen, gen_grammar

INDS = ["s1", "s2", "s4", "s8", "f"]
MLLS = ["-", "10", "79", "1000000"]
PSORTS = ["n", "v", "c"]
ESORTS = ["n", "k"]
FMTS = ["n", "i", "s", "u"]

def full_grid(pws=("1",)):
    return [":".join([i, e, m, p, s, f, w]) for i in INDS for e in "01" for m in MLLS for p in PSORTS
            for s in ESORTS for f in FMTS for w in pws]

def settings(rng, pws_none=0.1, zero=0.01):
    ind = "s0" if rng.random() < zero else rng.choice(INDS)
    return ":".join([ind, rng.choice("01"), rng.choice(MLLS), rng.choice(PSORTS), rng.choice(ESORTS),
                     rng.choice(FMTS), "0" if rng.random() < pws_none else "1"])

def ctl_settings(rng):
    return ":".join([rng.choice(INDS), rng.choice("01"), rng.choice(MLLS), "c", "n", "c", "1"])

# ---------------------------------------------------------------- documents
WRAP_ATOMS = ["a", "b", "foo", "1.0", " ", "  ", ",", ", ", ";", "; ", ";;", "#", ":", "-", "(>= 1)", "é", "中", "x y", "\t", "B:", "K: v"]
def wline(rng, empty_ok=False):
    n = rng.choice([0] if empty_ok and rng.random() < 0.25 else [1, 1, 2, 3, 5])
    return "".join(rng.choice(WRAP_ATOMS) for _ in range(n))

CTL_NAMES = ["Source", "Package", "Uploaders", "Depends", "Build-Depends", "Build-Conflicts-Arch",
             "Build-Conflics-Arch", "Description", "Section", "Maintainer", "X-Comment"]

def wfield(rng, pool):
    first = wline(rng, True).lstrip(" \t")
    conts = []
    for _ in range(rng.choice([0, 0, 0, 1, 2, 3])):
        t = wline(rng).lstrip(" \t")
        if t == "" or t[0] == "#":
            t = rng.choice(["x", ":", ".", "-"]) + t
        conts.append((gen_grammar.ws(rng, False), t))
    return {"name": gen_grammar.name(rng, pool), "ws": gen_grammar.ws(rng), "first": first, "cont": conts, "nl": True}

def struct_doc(rng):
    """a Grammar.doc inhabitant (abstract blocks as in gen_grammar) with values that exercise the formatters"""
    blocks = gen_grammar.gen_struct_doc(rng)
    if rng.random() < 0.6:
        pool = gen_grammar.all_names(blocks)[:3] + rng.sample(CTL_NAMES, 3)
        for b in blocks:
            if b[0] == "P":
                if rng.random() < 0.5:
                    f = wfield(rng, pool); f["nl"] = b[1]["nl"]; b[1].update(f)
                for it in b[2]:
                    if it[0] == "F" and rng.random() < 0.5:
                        f = wfield(rng, pool); f["nl"] = it[1]["nl"]; it[1].update(f)
    return blocks

EXOTIC = [
    "A: b\r\nB: c\r\n", "A: b\rB: c\r", "A: b\r c\r\n", "A : b\n", "A\t:b\n", "A:b\n", "A:\n", "A: \n", "A:\n b\n", "A:\n\tb\n c\n",
    "A: b\n \n c\n", "A: b\n\t\nB: c\n", "A:\n \n b\n", "A: b\n #c\n d\n", "A:\n #c\n d\n", "A:\n #c\n", "A: b\n #c\n",
    "A: #x\n b\n", "A: #x\n", "A:#x\n y\n", "A: b\n :c\n", "A: b\n -c\n", "A: b", "A: b\n c", "A: b\n# c", "# c", "# c\n", "#\n#\n",
    "\n\n", "", "\n", "A: b\n\n\n\nB: c\n\n", "# c\n\nA: b\n", "# c\nA: b\n", "A: b\n# c\n", "A: b\n# c\n\n# d\n", "A: b\n\n# d",
    "B: z\n\nA: d", "B: z\n\nA: d\n# x", "A: 1\nA: 2\nA: 1\n", "b: 1\nB: 2\na: 3\nA: 4\n", "A: b;B: c\n", "A: x; y;;z\n", "A: x;#c\n",
    "A: x,y , z,\n", "A: ,\n", "A: ;\n", "A: a;\n", "A: ;a\n", "Uploaders: A <a@x>, B <b@x>\n", "A: b  \n c\t\n",
    "Source: s\nA: 1\n\nPackage: b\n\nPackage: a\n\nSource: r\n", "Package: x\n\n# about y\nPackage: y\n# inside y\nDepends: z\n\n# end\n",
    "é: x\n", "A: é中\n 😀\n", "AAAAAAAAAAAA: b\n c\n", "A: " + "x" * 80 + "\n", "A: " + "é" * 40 + "\n",
]

def exotic_doc(rng):
    """error-free texts outside the abstract grammar: CR line ends, blanks before the colon, blank and
    comment lines inside a value, '#' first lines"""
    if rng.random() < 0.35:
        return rng.choice(EXOTIC)
    t = gen_grammar.render(struct_doc(rng))
    lines = t.split("\n")
    for _ in range(rng.choice([1, 1, 2, 3])):
        i = rng.randrange(len(lines))
        k = rng.choice(["vcomment", "vblank", "cr", "precolon", "hashfirst", "crall"])
        if k == "vcomment": lines.insert(i + 1, rng.choice([" ", "\t", "  "]) + "#" + rng.choice(["c", " x y", ""]))
        elif k == "vblank": lines.insert(i + 1, rng.choice([" ", "\t", "  "]))
        elif k == "cr": lines[i] = lines[i] + "\r"
        elif k == "precolon" and ":" in lines[i] and lines[i][:1] not in (" ", "\t", "#"):
            a, b = lines[i].split(":", 1); lines[i] = a + rng.choice([" ", "\t", "  "]) + ":" + b
        elif k == "hashfirst" and ":" in lines[i] and lines[i][:1] not in (" ", "\t", "#"):
            a, b = lines[i].split(":", 1); lines[i] = a + ": #" + b.lstrip(" \t")
        elif k == "crall":
            return "\n".join(lines).replace("\n", rng.choice(["\r\n", "\r"]))
    return "\n".join(lines)

REL_VALUES = ["a", "b, a", "foo (>= 1.0), bar", "libc6 (>= 2.17) | libc6.1, debhelper-compat (= 13)", "a [amd64], b <!nocheck>",
              "${misc:Depends}, a", "a,\n b,\n c", "z,\n a (<<  2)  ,\n  m", "a ,b", "", "a (= 1", "a b", "a (>= 1.0) [", "é", "a, , b", "a,"]
def control_doc(rng):
    """a control-file-like document: source paragraph, binaries, relationship fields, Uploaders, comments"""
    out = []
    def rel_field(name):
        v = rng.choice(REL_VALUES)
        if rng.random() < 0.5:
            v, _ = gen.gen_rel_field(rng, substvars=rng.random() < 0.3, empty_entries=False)
            v = v.replace("\r", " ").strip(" \t\n")
            v = "\n".join(l.strip(" \t") for l in v.split("\n") if l.strip(" \t") != "")
        lines = v.split("\n")
        first = lines[0].lstrip(" \t")
        if first.startswith("#"): first = "x" + first
        t = name + ":" + rng.choice(["", " ", " ", "  "]) + first + "\n"
        for l in lines[1:]:
            l = l.lstrip(" \t")
            if l == "" or l[0] == "#": l = "x" + l
            t += rng.choice([" ", "  ", "\t", "    "]) + l + "\n"
        return t
    def para(kind, name):
        t = ""
        fields = [kind + ": " + name + "\n"]
        for _ in range(rng.choice([0, 1, 2, 4])):
            k = rng.random()
            if k < 0.45:
                fields.append(rel_field(rng.choice(["Depends", "Build-Depends", "Build-Depends-Indep", "Build-Depends-Arch",
                                                    "Build-Conflicts", "Build-Conflicts-Indep", "Build-Conflicts-Arch", "Build-Conflics-Arch",
                                                    "Recommends", "Suggests", "Enhances", "Pre-Depends", "Breaks", "Conflicts", "Provides"])))
            elif k < 0.65:
                ups = [rng.choice(["A <a@x>", "B  <b@x>", "Cé <c@x>", "D: <d@x>", "", "#E <e@x>"]) for _ in range(rng.choice([1, 2, 3]))]
                sep = rng.choice([", ", ",", " ,  ", ",\n "])
                if sep == ",\n ": ups = [u.lstrip("#") for u in ups]       # an indented '#' line is a comment in the input already
                fields.append("Uploaders:" + rng.choice(["", " "]) + sep.join(ups).lstrip(" ") + rng.choice(["", "", ","]) + "\n")
            elif k < 0.85:
                fields.append(gen_grammar.field_text(wfield(rng, ["Description", "Section", "Maintainer", "Architecture"])))
            else:
                fields.append("#" + wline(rng, True).replace("\n", "") + "\n")
        if rng.random() < 0.3: rng.shuffle(fields)
        return "".join(fields)
    n = rng.choice([1, 2, 2, 3, 4])
    kinds = ["Source"] + ["Package"] * (n - 1)
    if rng.random() < 0.4: rng.shuffle(kinds)
    if rng.random() < 0.15: kinds.append("Source")
    if rng.random() < 0.1: kinds[rng.randrange(len(kinds))] = "Other"
    for i, k in enumerate(kinds):
        if i > 0: out.append("\n" * rng.choice([1, 1, 2]))
        if rng.random() < 0.2: out.append("#" + wline(rng, True) + "\n" + rng.choice(["", "\n"]))
        out.append(para(k, rng.choice(["zeta", "alpha", "mid", "alpha", "é", "a-b"])))
    if rng.random() < 0.2: out.append("\n# trailing\n")
    t = "".join(out)
    if rng.random() < 0.15 and t.endswith("\n"): t = t[:-1]
    return t

WRAP_ALPHABET = ["A", ":", " ", "\n", "#", ";"]

def docs(tier, rng):
    """list of (tag, text)"""
    n = {"quick": 800, "search": 2000, "thorough": 15000}[tier]
    out = [("x", t) for t in EXOTIC]
    for s in gen.corpus_files("wrap"): out.append(("c", s))
    for s in gen.repo_deb822_corpus():
        if len(s) < 3000: out.append(("r", s))
    for _ in range(n):
        out.append(("g", gen_grammar.render(struct_doc(rng))))
    for _ in range(n // 3):
        out.append(("e", exotic_doc(rng)))
    for _ in range(n // 3):
        out.append(("k", control_doc(rng)))
    for _ in range(n // 3):
        t = gen_grammar.render(struct_doc(rng)) if rng.random() < 0.6 else control_doc(rng)
        for _ in range(rng.choice([1, 1, 2, 3])): t = gen.mutate(rng, t)
        out.append(("m", t))
    return out

def wrap_cases(tier, rng, stream):
    """doc-wrap / para-wrap cases: documents x sampled settings (thorough: the whole grid on a part)"""
    per = {"quick": 14, "search": 20, "thorough": 40}[tier]
    cases = []; seen = set()
    def add(tag, t, cfg):
        key = (t, cfg)
        if key in seen: return
        seen.add(key); cases.append((f"{stream[0]}{tag}{len(cases)}", [hexs(t), cfg]))
    ds = docs(tier, rng)
    grid = full_grid()
    for i, (tag, t) in enumerate(ds):
        k = per if tag != "r" else 3
        if tag == "x":
            for cfg in rng.sample(grid, 40): add(tag, t, cfg)
            add(tag, t, "s2:0:-:v:n:n:0"); add(tag, t, "s0:0:-:n:n:n:1")
        elif tier == "thorough" and tag == "g" and i % 50 == 0:
            for cfg in grid: add(tag, t, cfg)
        for _ in range(k):
            add(tag, t, settings(rng, pws_none=0.1 if stream == "doc-wrap" else 0.0))
    # every short string over a small alphabet, a few settings each
    n = {"quick": 5, "search": 5, "thorough": 6}[tier]
    small = ["s1:1:-:v:k:s:1", "f:0:10:n:n:i:1", "s2:1:79:c:k:n:1"]
    for s in gen.exhaustive(WRAP_ALPHABET, n):
        add("s", s, small[len(cases) % 3])
        if tier == "thorough": add("s", s, small[(len(cases) + 1) % 3])
    return cases

def fmt_tables(cases):
    """the relation branch of the control formatter at the points each case needs: asked from the
    implementation (harness helper control-fmt-table), so that the model's `rel` parameter is the
    real function on those points"""
    d = os.path.join(BUILD, "cases", "C07")
    os.makedirs(d, exist_ok=True)
    path = os.path.join(d, "control-fmt-table.cases")
    with open(path, "w") as f:
        for cid, fields in cases:
            f.write(cid + "\t" + "\t".join(fields[:2]) + "\n")
    p = subprocess.run([core.HARNESS_BIN, "control-fmt-table", path], stdout=subprocess.PIPE, stderr=subprocess.PIPE, text=True)
    tabs = {}
    for l in p.stdout.split("\n"):
        if "\t" in l:
            cid, rec = l.split("\t", 1)
            tabs[cid] = rec[4:] if rec.startswith("tab=") else ""
    return tabs

def control_cases(tier, rng):
    n = {"quick": 1000, "search": 2500, "thorough": 15000}[tier]
    per = {"quick": 4, "search": 6, "thorough": 8}[tier]
    cases = []; seen = set()
    def add(t, cfg):
        if (t, cfg) in seen: return
        seen.add((t, cfg)); cases.append((f"k{len(cases)}", [hexs(t), cfg]))
    fixed_docs = ["Source: blah\nDepends: foo, bar   (<=  1.0.0)\n\n", "Package: blah\nSection:     libs\n\n\n\nPackage: foo\nDescription: this is a \n      bar\n      blah\n",
                  "Source: s\nBuild-Conflicts-Arch: b ,a\nBuild-Conflics-Arch: b ,a\n", "Source: s\nUploaders: A <a@x>, B: <b@x>,C <c@x>\n",
                  "Package: b\nDepends: a (= 1\n", "Package: b\n\nPackage: a\n# c\nDepends: z, y\n\nSource: s\n", "Source: s\nDepends:\n b,\n a\n",
                  "Source: s\n# c\nBuild-Depends: b,\n# inner\n a\n", "Source: s\nBuild-Depends: b,\n #inner\n a\n",
                  # audit (cone-c07d): a '#' piece of Uploaders; a value that ends with ','; an unparsable relationship field
                  "Source: s\nUploaders: A <a@x>, #B <b@x>\n", "Source: s\nUploaders: #A <a@x>, #B, C <c@x>\n",
                  "Source: s\nUploaders: A <a@x>, B <b@x>,\n", "Source: s\nUploaders: A <a@x>,\n B <b@x>,\nDepends: b, a\n",
                  "Source: s\nDepends: a (= 1\nBuild-Depends: z,  b\n"]
    for t in fixed_docs + [x for x in EXOTIC if len(x) < 60]:
        for cfg in ["s2:0:-:c:n:c:1", "f:1:79:c:n:c:1", "s4:1:-:c:n:c:1", "s1:0:10:c:n:c:1"]: add(t, cfg)
    for _ in range(n):
        t = control_doc(rng)
        if rng.random() < 0.1:
            for _ in range(rng.choice([1, 2])): t = gen.mutate(rng, t)
        for _ in range(per): add(t, ctl_settings(rng))
    tabs = fmt_tables(cases)
    return [(cid, fields + [tabs.get(cid, "") or "-"]) for cid, fields in cases]


def any_cases(tier, rng):
    """doc-wrap-any: texts with syntax errors (mutations, every short string over the lexer's character classes)"""
    n = {"quick": 1500, "search": 3000, "thorough": 20000}[tier]
    cases = []; seen = set()
    def add(t, cfg):
        if (t, cfg) in seen: return
        seen.add((t, cfg)); cases.append((f"a{len(cases)}", [hexs(t), cfg]))
    for t in EXOTIC: add(t, settings(rng))
    for _ in range(n):
        t = gen_grammar.render(struct_doc(rng)) if rng.random() < 0.7 else control_doc(rng)
        for _ in range(rng.choice([1, 1, 2, 3, 5])): t = gen.mutate(rng, t)
        for _ in range(3): add(t, settings(rng))
    k = {"quick": 4, "search": 4, "thorough": 5}[tier]
    small = ["s1:1:-:v:k:s:1", "f:0:10:n:n:i:1", "s2:1:79:c:k:n:1", "s2:0:-:v:n:n:0"]
    for s in gen.exhaustive(gen.DEB822_ALPHABET, k):
        add(s, small[len(cases) % 4])
    return cases
