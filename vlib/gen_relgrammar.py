"""Structured generator for RelGrammar.rfield (coq/model/RelGrammar.v): produces the abstract
relationship field, its text (rendered here; the model re-renders it with RelGrammar.rrender and
compares), its flat encoding for the runner, the content the readers must report, and the
lossy-domain flag (re-validated by the runner against RelGrammar.lossy_dom).

Abstract syntax (Python side):
  term  = (ws, neg, name)
  group = (ws0, [term], ws1)
  ver   = (ws0, ws1, op, ws2, epoch|None, version, ws3, [piece])   op in ge le eq gt lt;
          text = [epoch ":"] version (":" piece)*  (pieces only with an epoch)
  qual  = (ws0, ws1, name)
  rel   = dict(name, qual|None, ver|None, archs: group|None, profs: [group], trail)
  item  = ("E", rel, [(ws, rel)]) | ("S", seg, [seg], trail) | ("N",)
  field = (lead, item, [(ws, item)])
Every random choice comes from the rng handed in."""
import itertools, os
from .core import hexs, unhex, VERIF
from . import gen

OPS = {"ge": ">=", "le": "<=", "eq": "=", "gt": ">>", "lt": "<<"}
IDENT_CHARS = "abcxyzABZ0189-.+~"
NAMES = ["a", "b", "libc6", "python3-dulwich", "g++", "x.y", "foo~bar", "0ad", "-", "A+", "9", "~", "lib.so-2+b1"]
VERS = ["1", "1.0", "2.0-1", "1.0~rc1", "0.19.0+dfsg-2~bpo1", "0", "-1", "1-", "~", "2a.b+c", "09"]
EPOCHS = ["0", "1", "7", "12", "4294967295", "10", "100"]
ARCHS = ["amd64", "i386", "any", "linux-any", "kfreebsd-amd64", "hurd-i386", "all"]
PROFS = ["nocheck", "stage1", "cross", "pkg.foo.bar", "nodoc"]
QUALS = ["any", "native", "amd64", "all"]
SEGS = ["misc", "Depends", "shlibs", "x", "perl", "Pre-Depends", "python3"]

def ident(rng, pool, p_pool=0.8):
    if rng.random() < p_pool:
        return rng.choice(pool)
    return "".join(rng.choice(IDENT_CHARS) for _ in range(rng.choice([1, 1, 2, 3, 6])))

WS_PLAIN = ["", "", "", " ", " ", "  ", "\t"]
WS_WILD = ["", "", " ", " ", "  ", "\t", " \t", "\n", "\n ", " \n", "\n\n", " \n\t ", "\t\n"]
WS_NL = ["", " ", " ", "\n ", "\n  ", " \n ", "\n"]

def ws(rng, style, nonempty=False, kind="inner"):
    """style: tight | policy | wild | lossy; kind: inner (inside a relation) | sep (around , and |)"""
    if style == "tight":
        w = ""
    elif style == "policy":
        w = rng.choice(WS_NL if kind == "sep" and rng.random() < 0.3 else WS_PLAIN)
    elif style == "lossy":
        w = rng.choice(WS_NL if kind == "sep" else WS_PLAIN)
    else:
        w = rng.choice(WS_WILD)
    if nonempty and w == "":
        w = rng.choice([" ", " ", "  ", "\t"] + (["\n ", "\n"] if style == "wild" else []))
    return w

def gen_terms(rng, style, pool, negmode):
    n = rng.choice([1, 1, 1, 2, 3])
    out = []
    for i in range(n):
        neg = {"none": False, "all": True, "mixed": rng.random() < 0.5}[negmode]
        out.append((ws(rng, style, nonempty=(i > 0)), neg, ident(rng, pool)))
    return out

def gen_group(rng, style, pool, negmode, lead_space=True):
    w0 = ws(rng, style) if not lead_space or style in ("tight", "wild") else (ws(rng, style) or " ")
    return (w0, gen_terms(rng, style, pool, negmode), ws(rng, style))

def gen_rel(rng, style, p):
    """p: dict of probabilities"""
    r = {"name": ident(rng, NAMES), "qual": None, "ver": None, "archs": None, "profs": [], "trail": ws(rng, style, kind="sep")}
    if rng.random() < p["qual"]:
        spaced = style == "wild" and rng.random() < 0.4
        r["qual"] = (ws(rng, style) if spaced else "", ws(rng, style) if spaced else "", ident(rng, QUALS))
    if rng.random() < p["ver"]:
        ep = rng.choice(EPOCHS) if rng.random() < p["epoch"] else None
        w3 = ws(rng, style) if rng.random() < p["w3"] else ""
        w0 = ws(rng, style) if style in ("tight", "wild") else (ws(rng, style) or " ")
        more = [ident(rng, VERS) for _ in range(rng.choice([1, 1, 2]))] if ep is not None and rng.random() < 0.15 else []
        r["ver"] = (w0, ws(rng, style), rng.choice(list(OPS)), ws(rng, style), ep, ident(rng, VERS), w3, more)
    if rng.random() < p["archs"]:
        negmode = "all" if rng.random() < p["negarch"] else "none"
        if style == "wild" and rng.random() < 0.15:
            negmode = "mixed"
        r["archs"] = gen_group(rng, style, ARCHS, negmode)
    for _ in range(rng.choice([0, 0, 0, 1, 2]) if rng.random() < p["profs"] * 2.5 else 0):
        r["profs"].append(gen_group(rng, style, PROFS, "mixed"))
    return r

DEFAULT_P = {"qual": 0.25, "ver": 0.5, "epoch": 0.3, "w3": 0.3, "archs": 0.3, "negarch": 0.35, "profs": 0.25}
# inside the part of the lossy clause's domain the lossy reader handles today
CLEAN_P = {"qual": 0.25, "ver": 0.5, "epoch": 0.3, "w3": 0.0, "archs": 0.3, "negarch": 0.0, "profs": 0.2}

def gen_field(rng, style=None, substvars=True, p=None):
    style = style or rng.choice(["tight", "policy", "policy", "wild", "wild", "lossy"])
    p = p or DEFAULT_P
    def item():
        k = rng.random()
        if substvars and k < 0.12:
            return ("S", ident(rng, SEGS), [ident(rng, SEGS) for _ in range(rng.choice([0, 1, 1, 2]))], ws(rng, style, kind="sep"))
        if k < 0.20:
            return ("N",)
        r0 = gen_rel(rng, style, p)
        alts = [(ws(rng, style, kind="sep"), gen_rel(rng, style, p)) for _ in range(rng.choice([0, 0, 0, 1, 2, 3]))]
        return ("E", r0, alts)
    first = item()
    more = [(ws(rng, style, kind="sep"), item()) for _ in range(rng.choice([0, 0, 1, 1, 2, 3, 5]))]
    return (ws(rng, style, kind="sep"), first, more)

def clean_group(g):
    """one term, no whitespace inside: what the lossy reader reads as one restriction group today"""
    return (g[0], [("", g[1][0][1], g[1][0][2])], "")

def gen_clean_field(rng):
    """a field of lossy_dom outside every known lossy class"""
    f = gen_field(rng, style=rng.choice(["tight", "policy", "lossy"]), substvars=False, p=CLEAN_P)
    def fix(r):
        r["profs"] = [clean_group(g) for g in r["profs"]]
        return r
    def fix_item(it):
        if it[0] == "E":
            return ("E", fix(it[1]), [(w, fix(r)) for w, r in it[2]])
        return it
    return (f[0], fix_item(f[1]), [(w, fix_item(i)) for w, i in f[2]])

# ---------------------------------------------------------------- rendering
def term_text(t): return t[0] + ("!" if t[1] else "") + t[2]
def group_text(o, c, g): return g[0] + o + "".join(term_text(t) for t in g[1]) + g[2] + c
def vtext(v): return (v[4] + ":" if v[4] is not None else "") + v[5] + "".join(":" + p for p in v[7])
def ver_text(v): return v[0] + "(" + v[1] + OPS[v[2]] + v[3] + vtext(v) + v[6] + ")"
def qual_text(q): return q[0] + ":" + q[1] + q[2]
def rel_text(r):
    return (r["name"] + (qual_text(r["qual"]) if r["qual"] else "") + (ver_text(r["ver"]) if r["ver"] else "")
            + (group_text("[", "]", r["archs"]) if r["archs"] else "") + "".join(group_text("<", ">", g) for g in r["profs"])
            + r["trail"])
def subst_text(it): return "${" + ":".join([it[1]] + it[2]) + "}"
def item_text(it):
    if it[0] == "E": return rel_text(it[1]) + "".join("|" + w + rel_text(r) for w, r in it[2])
    if it[0] == "S": return subst_text(it) + it[3]
    return ""
def render(f): return f[0] + item_text(f[1]) + "".join("," + w + item_text(i) for w, i in f[2])

# ---------------------------------------------------------------- encoding
def h(s): return hexs(s) if s else "-"
def enc_group(g):
    return ["G", h(g[0]), str(len(g[1]))] + [x for t in g[1] for x in (h(t[0]), "1" if t[1] else "0", h(t[2]))] + [h(g[2])]
def enc_rel(r):
    out = ["R", h(r["name"])]
    q, v = r["qual"], r["ver"]
    out += ["q1", h(q[0]), h(q[1]), h(q[2])] if q else ["q0"]
    if v:
        out += ["v1", h(v[0]), h(v[1]), v[2], h(v[3])] + (["e1", h(v[4])] if v[4] is not None else ["e0"]) + [h(v[5]), str(len(v[7]))] + [h(x) for x in v[7]] + [h(v[6])]
    else:
        out += ["v0"]
    out += (["a1"] + enc_group(r["archs"])) if r["archs"] else ["a0"]
    out += [str(len(r["profs"]))] + [x for g in r["profs"] for x in enc_group(g)] + [h(r["trail"])]
    return out
def enc_item(it):
    if it[0] == "E":
        return ["E"] + enc_rel(it[1]) + [str(len(it[2]))] + [x for w, r in it[2] for x in [h(w)] + enc_rel(r)]
    if it[0] == "S":
        return ["S", h(it[1]), str(len(it[2]))] + [h(s) for s in it[2]] + [h(it[3])]
    return ["N"]
def encode(f):
    return " ".join(["F", h(f[0])] + enc_item(f[1]) + [str(len(f[2]))] + [x for w, i in f[2] for x in [h(w)] + enc_item(i)])

def decode(enc):
    ts = [t for t in enc.split(" ") if t]
    pos = [0]
    def nxt():
        t = ts[pos[0]]; pos[0] += 1; return t
    def s():
        t = nxt(); return "" if t == "-" else unhex(t)
    def group():
        assert nxt() == "G"
        w0 = s(); n = int(nxt())
        terms = []
        for _ in range(n):
            w = s(); neg = nxt() == "1"; terms.append((w, neg, s()))
        return (w0, terms, s())
    def rel():
        assert nxt() == "R"
        r = {"name": s()}
        r["qual"] = (s(), s(), s()) if nxt() == "q1" else None
        if nxt() == "v1":
            w0, w1, op, w2 = s(), s(), nxt(), s()
            ep = s() if nxt() == "e1" else None
            ver = s(); more = [s() for _ in range(int(nxt()))]
            r["ver"] = (w0, w1, op, w2, ep, ver, s(), more)
        else:
            r["ver"] = None
        r["archs"] = group() if nxt() == "a1" else None
        r["profs"] = [group() for _ in range(int(nxt()))]
        r["trail"] = s()
        return r
    def item():
        k = nxt()
        if k == "E":
            r0 = rel()
            return ("E", r0, [(s(), rel()) for _ in range(int(nxt()))])
        if k == "S":
            seg = s(); n = int(nxt())
            return ("S", seg, [s() for _ in range(n)], s())
        assert k == "N"
        return ("N",)
    assert nxt() == "F"
    lead = s(); first = item()
    more = [(s(), item()) for _ in range(int(nxt()))]
    assert pos[0] == len(ts)
    return (lead, first, more)

# ---------------------------------------------------------------- content, domains, classes
def rels_of(f):
    for it in [f[1]] + [i for _, i in f[2]]:
        if it[0] == "E":
            for r in [it[1]] + [r for _, r in it[2]]:
                yield r
def items_of(f): return [f[1]] + [i for _, i in f[2]]

def rel_record(r):
    v = r["ver"]
    vs = "-" if not v else v[2] + "." + hexs(vtext(v))
    a = r["archs"]
    as_ = "-" if not a else "+" + ".".join(hexs(("!" if t[1] else "") + t[2]) for t in a[1])
    ps = "".join("<" + ".".join(("d" if t[1] else "e") + hexs(t[2]) for t in g[1]) + ">" for g in r["profs"])
    q = "-" if not r["qual"] else "+" + hexs(r["qual"][2])
    return f"n:{hexs(r['name'])},q:{q},v:{vs},a:{as_},p:{ps}"
def content_record(f):
    return ";".join("/".join(rel_record(r) for r in [it[1]] + [r for _, r in it[2]]) for it in items_of(f) if it[0] == "E")
def substvars_record(f):
    return ",".join(hexs(subst_text(it)) for it in items_of(f) if it[0] == "S")
def has_subst(f): return any(it[0] == "S" for it in items_of(f))
def has_neg_arch(f): return any(r["archs"] and any(t[1] for t in r["archs"][1]) for r in rels_of(f))

def lossy_dom(f):
    """the domain of the lossy clause (RelGrammar.lossy_dom): no substitution variables"""
    return not has_subst(f)

def needs_fix(f):
    """uses what the lossless reader only accepts with the proposed fix: an epoch, or whitespace before ')'"""
    return any(r["ver"] and (r["ver"][4] is not None or r["ver"][6] != "") for r in rels_of(f))

# ---------------------------------------------------------------- case sets
def case_of(f, cid):
    return (cid, [hexs(render(f)), encode(f), "1" if lossy_dom(f) else "0"])

def small_fields():
    """systematic small fields: every combination of optional parts x trailing space x position"""
    quals = [None, ("", "", "any"), (" ", "\n", "q")]
    vers = [None, (" ", "", "ge", " ", None, "1.0", "", []), ("", " ", "lt", "", "1", "2~b", "\n ", []), (" ", "", "eq", " ", "0", "09", "", ["09-s"])]
    archs = [None, (" ", [("", False, "amd64")], ""), (" ", [("", True, "i386"), (" ", True, "arm64")], " "), ("", [(" ", False, "x"), ("\n", False, "y")], "")]
    profs = [[], [(" ", [("", True, "nocheck")], "")], [(" ", [("", False, "a"), (" ", True, "b")], ""), ("", [(" ", False, "c")], " ")]]
    trails = ["", " ", "\n"]
    out = []
    for q, v, a, p, t in itertools.product(quals, vers, archs, profs, trails):
        r = {"name": "pkg", "qual": q, "ver": v, "archs": a, "profs": p, "trail": t}
        other = {"name": "o", "qual": None, "ver": None, "archs": None, "profs": [], "trail": ""}
        out.append(("", ("E", r, []), []))                                  # alone, last
        out.append(("", ("E", r, [(" ", dict(other))]), []))               # before |
        out.append((" ", ("E", dict(other), [("", r)]), [(" ", ("N",))]))  # after |, before a trailing comma
        out.append(("", ("E", r, []), [("\n ", ("E", dict(other), []))]))  # before ,
    out += [("", ("N",), []), (" \n", ("N",), []), ("", ("N",), [("", ("N",))]), (" ", ("N",), [(" ", ("N",)), ("", ("N",))]),
            ("", ("S", "x", [], ""), []), (" ", ("S", "misc", ["Depends"], " "), [("", ("N",))]),
            ("", ("S", "a", ["b", "c"], "\n"), [(" ", ("E", {"name": "z", "qual": None, "ver": None, "archs": None, "profs": [], "trail": " "}, []))])]
    return out

def doc_cases(tier, rng, prefix):
    cases = []
    seen = set()
    def add(f):
        t = render(f) + "\0" + encode(f)
        if t in seen: return
        seen.add(t); cases.append(case_of(f, f"{prefix}{len(cases)}"))
    for f in small_fields(): add(f)
    n = {"quick": 9000, "search": 30000, "thorough": 400000}[tier]
    for i in range(n):
        k = i % 10
        if k < 6: add(gen_field(rng))
        elif k < 8: add(gen_field(rng, substvars=False, style=rng.choice(["lossy", "policy", "tight"])))
        else: add(gen_clean_field(rng))
    return cases

REGRESSION_TEXTS = [
    "a (>= 1:2.0)", "a (>= 1 )", "a [!amd64]", "a :any", "a : any (= 1)", "a <a b>", "a < x >", "a <! x>", "a [! amd64]",
    "a (> 1)", "a (< 1)", "a (1)", "a (>= 99999999999:1)", "a (>= 4294967295:1)", "a (>= 4294967296:1)", "a (>= 007:1)",
    "a (>= 1:)", "a (>= :1)", "a (>= 1:2:3)", "a (= 0:09:09-s)", "a []", "a <>", "a [ ]", "a < >", "a ( 1 )", "a (== 1)", "a (<> 1)", "a<a!b ! c>", "a [!! x\t!]", "${::a:}", "${}", "\r a\r", "a (= 5::)", "a (= :5)", "c (>> 7:1::2)", "a (= :)", "a (= ::: )", "a (= 1 :2)", "a (= 1:2:)", "a (= 1::2)", "a (= a:b:c )", "a (>= 1 : 2)", "a (>= a:1)", "a (>= 1a:2)", "a (>= 1", "a (>= 1:2", "a (>= 1 ",
    "a (>=\n1:2\n)", "a <", "a <!", "a <a", "a [", "a [!", "a | (", "${a} | b", "a | ${b}", "a, ${x:y} , b", "${", "${a:", "${a}b",
    "a:any:b", "a : : b", "a\n(>= 1)\n[a]\n<b>", "a (>= 1) (<< 2)", "a [b] [c]", "a <b> [c]", "a (= 1) :any",
]

def text_cases(tier, rng, prefix):
    """arbitrary / malformed texts for the accessor model (stream rel-acc)"""
    cases = []
    seen = set()
    def add(s):
        if s in seen: return
        seen.add(s); cases.append((f"{prefix}{len(cases)}", [hexs(s)]))
    for s in REGRESSION_TEXTS: add(s)
    for s in gen.corpus_files("relacc"): add(s)
    for s in gen.corpus_files("rel"): add(s)
    for s in gen.repo_rel_corpus(): add(s)
    n = {"quick": 3, "search": 3, "thorough": 4}[tier]
    for s in gen.exhaustive(gen.REL_ALPHABET, n): add(s)
    ngen = {"quick": 6000, "search": 20000, "thorough": 250000}[tier]
    for _ in range(ngen):
        t = render(gen_field(rng))
        add(t)
        m = t
        for _ in range(rng.choice([1, 1, 2, 3])):
            m = gen.mutate(rng, m, gen.REL_ALPHABET)
        add(m)
        if rng.random() < 0.3:
            t2, _ = gen.gen_rel_field(rng); add(t2)
    return cases
