"""Case generators for the C19 cone (PGP clear-sign unwrapping).
Every random choice derives from the rng handed in (seeded by VERIF_SEED)."""
import itertools, os
from .core import hexs, REPO
from . import gen

M = "-----BEGIN PGP SIGNED MESSAGE-----"
B = "-----BEGIN PGP SIGNATURE-----"
E = "-----END PGP SIGNATURE-----"

# ---------------------------------------------------------------- specification-level helpers
# (independent Python versions of Pgp.wrap_lines / unlines / lines; the pgp-wrap stream compares
# the message they build with the one built by the Coq model and by the harness)

def wrap_lines(hs, ps, ss):
    return [M] + list(hs) + [""] + list(ps) + [B] + list(ss) + [E]

def unlines(ls):
    return "".join(l + "\n" for l in ls)

def wrap(hs, ps, ss):
    return unlines(wrap_lines(hs, ps, ss))

def rust_lines(s):
    """str::lines(): split_inclusive('\\n'); strip one '\\n', then (only then) one '\\r'"""
    out = []
    i = 0
    while i < len(s):
        j = s.find("\n", i)
        if j < 0:
            out.append(s[i:]); break
        piece = s[i:j]
        if piece.endswith("\r"):
            piece = piece[:-1]
        out.append(piece)
        i = j + 1
    return out

def chomp_cr(l):
    return l[:-1] if l.endswith("\r") else l

def list_field(ls):
    return "L" + "".join("," + hexs(l) for l in ls)

def unlist_field(f):
    parts = f.split(",")
    assert parts[0] == "L"
    return [bytes.fromhex(x).decode("utf-8") for x in parts[1:]]

def in_dom(hs, ps, ss):
    """pgp_dom of the Coq statement"""
    return (all("\n" not in l and not l.endswith("\r") for l in hs + ps + ss)
            and all(l != "" for l in hs) and all(not l.startswith("-") for l in ps)
            and all(l != E for l in ss))

def in_dom_cr(hs, ps, ss):
    """pgp_dom_cr: CR line ends allowed"""
    return (all("\n" not in l for l in hs + ps + ss)
            and all(chomp_cr(l) != "" for l in hs) and all(chomp_cr(l) != B for l in ps)
            and all(chomp_cr(l) != E for l in ss))

# ---------------------------------------------------------------- line pools

HEADER_LINES = ["Hash: SHA256", "Hash: SHA512", "Hash: SHA1,SHA256", "Version: GnuPG v1", "Comment: x",
                "NotDashEscaped: You need GnuPG to verify this message", "x", " ", "\t", ":", B, E, M,
                "Charset: é", "a\rb", "-"]
PAYLOAD_LINES = ["", "", " ", "\t", "Origin: Debian", "Label: Debian", "Suite: experimental", "Source: foo",
                 "Version: 1.0-1", "Files:", " abc 12 foo_1.0.dsc", " .", "Description: é 中 \U0001f600",
                 "Hello, world!", "Hash: SHA256", " " + B, " " + E, " " + M, "BEGIN PGP SIGNATURE",
                 "=" + B, "x" + E, "a\rb", "\ra", ":", "#", "a", "=olY7",
                 # characters that other languages treat as line breaks; str::lines() does not
                 "a\x0bb", "a\x0cb", "a\x85b", "a\u2028b", "\u2029", "\x1c"]
SIG_LINES = ["iQIzBAEBCAAdFiEEpyNohvPMyq0Uiif4DphATThvodkFAmbJ6swACgkQDphATThv",
             "odkUiw//VDVOwHGRVxpvyIjSvH0AMQmANOvolJ5EoCu1I5UG2x98UPiMV5oTNv1r", "=olY7", "", "", "Version: GnuPG v2",
             "abc", "+/==", " ", B, M, " " + E, "-----END PGP SIGNATURE----", "----END PGP SIGNATURE-----",
             "-", "é"]
# lines that take a message out of the domain (used by the malformed generator)
BAD_HEADER = ["", "\r"]
BAD_PAYLOAD = [B, "-", "- " + B, "-----", "- dash-escaped", M, E, B + "\r"]
BAD_SIG = [E, E + "\r", E + "x", E + " "]

BASE64 = "ABCDEFGHIJKLMNOPQRSTUVWXYZabcdefghijklmnopqrstuvwxyz0123456789+/"

def gen_b64(rng, n):
    return "".join(rng.choice(BASE64) for _ in range(n))

def gen_deb822_lines(rng):
    """payload made of deb822 content (from the shared generator), dash lines made domain-conforming"""
    t, _ = gen.gen_doc(rng, comments=True, final_newline_optional=False)
    ls = t.split("\n")
    if ls and ls[-1] == "":
        ls.pop()
    return [("x" + l if l.startswith("-") else l).rstrip("\r") for l in ls]

def gen_triple(rng):
    """a (headers, payload lines, signature lines) triple inside pgp_dom"""
    hs = [rng.choice(HEADER_LINES) for _ in range(rng.choice([0, 1, 1, 1, 2, 3]))]
    kind = rng.random()
    if kind < 0.15:
        ps = []
    elif kind < 0.45:
        ps = gen_deb822_lines(rng)
    else:
        ps = [rng.choice(PAYLOAD_LINES) for _ in range(rng.choice([1, 1, 2, 3, 5, 8]))]
    if rng.random() < 0.5:
        ss = [gen_b64(rng, rng.choice([4, 16, 64])) for _ in range(rng.choice([1, 2, 3]))] + ["=" + gen_b64(rng, 4)]
        if rng.random() < 0.3:
            ss = [""] + ss           # blank line after the signature marker (armour headers separator)
    else:
        ss = [rng.choice(SIG_LINES) for _ in range(rng.choice([0, 1, 2, 3, 4]))]
    # keep inside the domain whatever the pools contain
    hs = [l for l in hs if l != "" and "\n" not in l and not l.endswith("\r")]
    ps = [l for l in ps if not l.startswith("-") and "\n" not in l and not l.endswith("\r")]
    ss = [l for l in ss if l != E and "\n" not in l and not l.endswith("\r")]
    return hs, ps, ss

def gen_bad_triple(rng):
    """a triple that leaves pgp_dom in one or two ways (CR line ends, dash lines, empty header,
    end marker among the signature lines, LF inside a line)"""
    hs, ps, ss = gen_triple(rng)
    hs, ps, ss = list(hs), list(ps), list(ss)
    for _ in range(rng.choice([1, 1, 2])):
        k = rng.choice(["cr", "cr", "crall", "dash", "header", "sig", "lf"])
        if k == "cr":
            tgt = rng.choice([hs, ps, ps, ss])
            if tgt:
                i = rng.randrange(len(tgt)); tgt[i] = tgt[i] + "\r"
        elif k == "crall":
            hs = [l + "\r" for l in hs]; ps = [l + "\r" for l in ps]; ss = [l + "\r" for l in ss]
        elif k == "dash":
            ps.insert(rng.randrange(len(ps) + 1), rng.choice(BAD_PAYLOAD))
        elif k == "header":
            hs.insert(rng.randrange(len(hs) + 1), rng.choice(BAD_HEADER))
        elif k == "sig":
            ss.insert(rng.randrange(len(ss) + 1), rng.choice(BAD_SIG))
        else:
            tgt = rng.choice([hs, ps, ss])
            if tgt:
                i = rng.randrange(len(tgt)); tgt[i] = tgt[i] + "\n" + rng.choice(["", "x", B, E])
    return hs, ps, ss

EXTRAS = ["", "", "\n", "x", "x\n", "junk after\n", "\r\n", " ", "\r", "\n\n", E + "\n", B + "\n", M + "\n",
          "a\nb\nc\n", "é"]

def gen_extra(rng):
    if rng.random() < 0.1:
        hs, ps, ss = gen_triple(rng)
        return wrap(hs, ps, ss)            # a second complete message
    return rng.choice(EXTRAS)

# ---------------------------------------------------------------- streams

def wrap_cases(tier, rng, prefix):
    """pgp-wrap: [headers, payload, signature, extra]"""
    cases = []
    seen = set()
    def add(hs, ps, ss, extra):
        key = (tuple(hs), tuple(ps), tuple(ss), extra)
        if key in seen: return
        seen.add(key)
        cases.append((f"{prefix}{len(cases)}", [list_field(hs), list_field(ps), list_field(ss), hexs(extra)]))
    # hand-picked corners
    add([], [], [], "")
    add([], [], [], "\n")
    add(["Hash: SHA256"], ["Hello, world!"], ["abc", "=def"], "")
    add(["Hash: SHA256"], ["", "", ""], [""], "x")
    add([B, E, M], [" " + B, " " + E, M[1:]], [B, M], "")
    add([], ["a\r"], [], "")                       # DESIGN §5 row 25
    add(["Hash: SHA256\r"], ["a\r", "b\r"], ["x\r"], "")
    # exhaustive-small: every triple of short line lists over tiny pools
    hp = [[], ["H: x"], ["H: x", B]]
    pp = [[], [""], ["a"], ["a", ""], ["", "a"], [" " + B], ["a", " " + E, "b"]]
    sp = [[], [""], ["s"], ["s", "=t"], [B], ["", "s"]]
    for hs in hp:
        for ps in pp:
            for ss in sp:
                for extra in ["", "\n", "x"]:
                    add(hs, ps, ss, extra)
    n_ok = {"quick": 6000, "search": 15000, "thorough": 100000}[tier]
    n_bad = {"quick": 3000, "search": 8000, "thorough": 40000}[tier]
    for _ in range(n_ok):
        hs, ps, ss = gen_triple(rng)
        add(hs, ps, ss, gen_extra(rng))
    for _ in range(n_bad):
        hs, ps, ss = gen_bad_triple(rng)
        add(hs, ps, ss, gen_extra(rng))
    return cases

def cutc_cases(tier, rng, prefix):
    """pgp-cutc: [headers, payload, signature]; triples in the domain of C19_trunc_char"""
    cases = []
    seen = set()
    def add(hs, ps, ss):
        ss = [l for l in ss if not l.startswith(E)]
        key = (tuple(hs), tuple(ps), tuple(ss))
        if key in seen: return
        seen.add(key)
        cases.append((f"{prefix}{len(cases)}", [list_field(hs), list_field(ps), list_field(ss)]))
    add([], [], [])
    add(["Hash: SHA256"], ["Hello, world!"], ["abc", "=def"])
    add([B + "x"], [" " + B, "a\rb"], [B, " " + E, E[:-1]])
    add(["\t"], ["", ""], ["", ""])
    n = {"quick": 1200, "search": 3000, "thorough": 12000}[tier]
    for _ in range(n):
        hs, ps, ss = gen_triple(rng)
        if len(wrap(hs, ps, ss)) > 1500:
            ps = ps[:10]
        add(hs, ps, ss)
    return cases

LINE_TOKENS = [M, B, E, "", "a", "-x", "a\r"]
CHAR_ALPHABET = ["-", "a", "\n", "\r", " "]

def repo_pgp_corpus():
    out = []
    for s in gen.rust_string_literals(os.path.join(REPO, "debian-control/src/pgp.rs")):
        out.append(s)
    for f in ["debian-control/src/testdata/InRelease", "debian-control/src/testdata/Release"]:
        try:
            out.append(open(os.path.join(REPO, f), encoding="utf-8", newline="").read())
        except Exception:
            pass
    return list(dict.fromkeys(out))

def mutate_msg(rng, s):
    k = rng.choice(["delc", "insc", "repc", "delline", "dupline", "swap", "crlf", "trunc", "nofinal",
                    "insline", "prefix"])
    if not s:
        return rng.choice(["\n", "\r", M, M + "\n"])
    if k in ("delc", "insc", "repc"):
        i = rng.randrange(len(s))
        c = rng.choice(CHAR_ALPHABET + ["é", "B", "\x0b", "\x0c", "\x85", "\u2028"])
        return {"delc": s[:i] + s[i+1:], "insc": s[:i] + c + s[i:], "repc": s[:i] + c + s[i+1:]}[k]
    ls = s.split("\n")
    if k == "delline":
        i = rng.randrange(len(ls)); return "\n".join(ls[:i] + ls[i+1:])
    if k == "dupline":
        i = rng.randrange(len(ls)); return "\n".join(ls[:i+1] + ls[i:])
    if k == "swap" and len(ls) > 1:
        i = rng.randrange(len(ls) - 1); ls[i], ls[i+1] = ls[i+1], ls[i]; return "\n".join(ls)
    if k == "crlf":
        return s.replace("\n", "\r\n") if rng.random() < 0.5 else s.replace("\n", "\r\n", rng.choice([1, 2, 3]))
    if k == "trunc":
        return s[:rng.randrange(len(s))]
    if k == "nofinal":
        return s[:-1] if s.endswith("\n") else s + "\n"
    if k == "insline":
        i = rng.randrange(len(ls) + 1)
        return "\n".join(ls[:i] + [rng.choice(LINE_TOKENS + [" ", "- " + B])] + ls[i:])
    return rng.choice(["\n", " ", "\r\n", "x\n", "\ufeff"]) + s

def strip_cases(tier, rng, prefix):
    """pgp-strip: [hex input] — arbitrary text (corpus, exhaustive-small, mutated messages)"""
    cases = []
    seen = set()
    def add(s):
        if s in seen: return
        seen.add(s); cases.append((f"{prefix}{len(cases)}", [hexs(s)]))
    for s in gen.corpus_files("pgp"): add(s)
    for s in repo_pgp_corpus(): add(s)
    # exhaustive-small over whole lines: every sequence of <= n tokens, "\n"-terminated or "\n"-joined
    n = {"quick": 5, "search": 5, "thorough": 6}[tier]
    for k in range(0, n + 1):
        for tup in itertools.product(LINE_TOKENS, repeat=k):
            add("".join(t + "\n" for t in tup))
            add("\n".join(tup))
    # exhaustive-small over characters (exercises the lines() model)
    nc = {"quick": 6, "search": 6, "thorough": 8}[tier]
    for s in gen.exhaustive(CHAR_ALPHABET, nc): add(s)
    for s in gen.exhaustive(CHAR_ALPHABET, 3):
        add(M + s); add(M + "\n" + s + "\n" + B + "\n" + E + s)
    ngen = {"quick": 15000, "search": 40000, "thorough": 200000}[tier]
    for _ in range(ngen):
        hs, ps, ss = gen_triple(rng) if rng.random() < 0.7 else gen_bad_triple(rng)
        m = wrap(hs, ps, ss)
        for _ in range(rng.choice([1, 1, 2, 3])):
            m = mutate_msg(rng, m)
        add(m)
    return cases
