"""Generators of the C13 cone (wrap-and-sort of relationship fields).

Structured cases are inhabitants of RelGrammar.rfield in the Python representation of
vlib/gen_relgrammar.py (term / group / ver / qual / rel / item / field, see there); a case carries
the rendered text, the variant flags of the model and the flat encoding of the abstract field, from
which the oracle computes -- independently of model and implementation -- what the property demands.
Every random choice comes from the rng handed in."""
import itertools
from .core import hexs, unhex
from . import gen, gen_relgrammar as G
from .gen_sat import ref_parse, ref_cmp, has_big_run

# ---------------------------------------------------------------- pools that exercise the tie-breaks
NAMES = ["a", "b", "A", "a-b", "a+", "a.b", "aa", "b1", "libc6", "g++", "0ad", "python3-dulwich", "~", "-"]
# strictly increasing in Debian order; several spellings that compare equal
LADDER = ["0~~", "0~", "0", "0.9", "1.0~rc1", "1.0", "1.0+b1", "1.0-1~", "1.0-1", "1.0-1+b1", "1.0.1", "2", "09", "10", "10a"]
EQUIV = [["1.0", "1.00", "01.0", "1.0-0"], ["2", "02", "2-0"], ["1.0-1", "1.0-01"]]
EPOCHS = ["0", "1", "2", "10", "4294967295"]
OPS = list(G.OPS)                      # ge le eq gt lt
OP_RANK = {"lt": 0, "le": 1, "eq": 2, "gt": 3, "ge": 4}     # declaration order of VersionConstraint
BIG = ["2147483648", "1.2147483648", "0~20240101123456", "99999999999"]

def mk_rel(name, qual=None, ver=None, archs=None, profs=None, trail=""):
    return {"name": name, "qual": qual, "ver": ver, "archs": archs, "profs": profs or [], "trail": trail}

def mk_ver(op, text, style, rng):
    """ver tuple (ws0, ws1, op, ws2, epoch, version, ws3, more) for a version text [epoch:]v[:piece]*"""
    ep, rest = None, text
    if ":" in text:
        ep, rest = text.split(":", 1)
    pieces = rest.split(":")
    w = lambda: G.ws(rng, style)
    w0 = w() if style in ("tight", "wild") else (w() or " ")
    return (w0, w(), op, w(), ep, pieces[0], w() if rng.random() < 0.3 else "", pieces[1:])

def rand_version(rng):
    k = rng.random()
    if k < 0.45: v = rng.choice(LADDER)
    elif k < 0.65: v = rng.choice(rng.choice(EQUIV))
    elif k < 0.75: v = rng.choice(G.VERS)
    else: v = G.ident(rng, G.VERS, 0.3)
    if rng.random() < 0.25:
        v = rng.choice(EPOCHS) + ":" + v
        if rng.random() < 0.2: v += ":" + rng.choice(["1", "0a", "x"])
    return v

def gen_rel(rng, style, names, p_ver=0.6):
    r = mk_rel(rng.choice(names), trail=G.ws(rng, style, kind="sep"))
    if rng.random() < 0.25:
        spaced = style == "wild" and rng.random() < 0.4
        r["qual"] = (G.ws(rng, style) if spaced else "", G.ws(rng, style) if spaced else "", G.ident(rng, G.QUALS))
    if rng.random() < p_ver:
        r["ver"] = mk_ver(rng.choice(OPS), rand_version(rng), style, rng)
    if rng.random() < 0.3:
        r["archs"] = G.gen_group(rng, style, G.ARCHS, rng.choice(["none", "none", "all", "mixed"]))
    for _ in range(rng.choice([0, 0, 0, 1, 2])):
        r["profs"].append(G.gen_group(rng, style, G.PROFS, "mixed"))
    return r

def gen_subst(rng, style):
    return ("S", G.ident(rng, G.SEGS), [G.ident(rng, G.SEGS) for _ in range(rng.choice([0, 1, 1, 2]))], G.ws(rng, style, kind="sep"))

def gen_field(rng, style=None, substvars=True, few_names=True):
    """a field with many equal names, so that operator / version / length tie-breaks decide"""
    style = style or rng.choice(["tight", "policy", "policy", "wild", "wild", "lossy"])
    names = rng.sample(NAMES, rng.choice([1, 2, 2, 3])) if few_names else NAMES
    def item():
        k = rng.random()
        if substvars and k < 0.12: return gen_subst(rng, style)
        if k < 0.18: return ("N",)
        r0 = gen_rel(rng, style, names)
        alts = [(G.ws(rng, style, kind="sep"), gen_rel(rng, style, names)) for _ in range(rng.choice([0, 0, 1, 1, 2, 3]))]
        return ("E", r0, alts)
    first = item()
    more = [(G.ws(rng, style, kind="sep"), item()) for _ in range(rng.choice([0, 1, 2, 2, 3, 5, 8]))]
    return (G.ws(rng, style, kind="sep"), first, more)

def gen_long_field(rng):
    """more than 20 entries / alternatives: beyond Rust's insertion-sort threshold, where slice::sort
    is driftsort -- for a total preorder the result is the same stable sorted permutation"""
    style = rng.choice(["tight", "policy", "lossy"])
    names = rng.sample(NAMES, rng.choice([1, 2, 3]))
    n = rng.choice([21, 22, 25, 33, 48, 70])
    def entry(k):
        r0 = gen_rel(rng, style, names, p_ver=0.8)
        alts = [(G.ws(rng, style, kind="sep"), gen_rel(rng, style, names, p_ver=0.8)) for _ in range(k)]
        return ("E", r0, alts)
    if rng.random() < 0.5:
        items = [entry(rng.choice([0, 0, 1, 2])) for _ in range(n)]
    else:
        items = [entry(n), entry(rng.choice([0, 1, 22]))]
    return ("", items[0], [(G.ws(rng, style, kind="sep"), i) for i in items[1:]])

def items_of(f): return [f[1]] + [i for _, i in f[2]]

def reorder(f, how, rng):
    """the same items in the order the oracle expects (sorted), reversed, or shuffled"""
    items = items_of(f)
    if how == "sorted":
        es = sorted_items(f)
    elif how == "reversed":
        es = list(reversed(sorted_items(f)))
    else:
        es = items[:]; rng.shuffle(es)
    return (f[0], es[0], [(" ", i) for i in es[1:]]) if es else f

# ---------------------------------------------------------------- what the property demands (independent of the model)
def vtext(v): return G.vtext(v)
def rel_key_cmp(a, b):
    """impl Ord for Relation on the written content: name by code points; no constraint first;
    operator << <= = >> >=; version in Debian order"""
    if a["name"] != b["name"]:
        return -1 if [ord(c) for c in a["name"]] < [ord(c) for c in b["name"]] else 1
    va, vb = a["ver"], b["ver"]
    if va is None or vb is None:
        return (va is not None) - (vb is not None)
    if va[2] != vb[2]:
        return -1 if OP_RANK[va[2]] < OP_RANK[vb[2]] else 1
    return ref_cmp(ref_parse(vtext(va)), ref_parse(vtext(vb)))
def entry_key_cmp(a, b):
    for x, y in zip(a, b):
        c = rel_key_cmp(x, y)
        if c: return c
    return (len(a) > len(b)) - (len(a) < len(b))
def stable_sort(l, cmp):
    out = []
    for x in l:                      # insertion from the right keeps equal elements in order
        i = len(out)
        while i > 0 and cmp(x, out[i - 1]) < 0: i -= 1
        out.insert(i, x)
    return out
def entry_rels(it): return [it[1]] + [r for _, r in it[2]]
def sorted_entries(f):
    es = [stable_sort(entry_rels(it), rel_key_cmp) for it in items_of(f) if it[0] == "E"]
    return stable_sort(es, entry_key_cmp)
def sorted_substs(f):
    return sorted(G.subst_text(it) for it in items_of(f) if it[0] == "S")      # Python's sort is stable; by code points
def sorted_items(f):
    out = []
    for e in sorted_entries(f):
        out.append(("E", e[0], [(" ", r) for r in e[1:]]))
    svs = stable_sort([it for it in items_of(f) if it[0] == "S"], lambda a, b: (G.subst_text(a) > G.subst_text(b)) - (G.subst_text(a) < G.subst_text(b)))
    return out + svs

def canon_rel(r):
    s = r["name"]
    if r["qual"]: s += ":" + r["qual"][2]
    if r["ver"]: s += " (" + G.OPS[r["ver"][2]] + " " + vtext(r["ver"]) + ")"
    if r["archs"]: s += " [" + " ".join(("!" if t[1] else "") + t[2] for t in r["archs"][1]) + "]"
    for g in r["profs"]:
        s += " <" + " ".join(("!" if t[1] else "") + t[2] for t in g[1]) + ">"
    return s
def expected_text(f):
    return ", ".join([" | ".join(canon_rel(r) for r in e) for e in sorted_entries(f)] + sorted_substs(f))
def field_versions(f):
    return [vtext(r["ver"]) for r in G.rels_of(f) if r["ver"]]
def unsafe(f):
    return any(has_big_run(v) for v in field_versions(f))

# ---------------------------------------------------------------- systematic small fields
def small_pool():
    v = lambda op, t: (" ", "", op, " ", None, t, "", [])
    ve = lambda op, e, t: (" ", "", op, " ", e, t, "", [])
    rels = [mk_rel("a"), mk_rel("b"), mk_rel("a", qual=("", "", "any")), mk_rel("a", ver=v("ge", "1")), mk_rel("a", ver=v("lt", "1")),
            mk_rel("a", ver=v("eq", "2")), mk_rel("a", ver=v("eq", "10")), mk_rel("a", ver=v("eq", "1.0")), mk_rel("a", ver=v("eq", "1.00")),
            mk_rel("a", ver=ve("eq", "1", "0")), mk_rel("a", ver=v("eq", "1~rc")),
            mk_rel("a", archs=(" ", [("", True, "x")], "")), mk_rel("a", profs=[(" ", [("", False, "p"), (" ", True, "q")], "")]), mk_rel("A"), mk_rel("aa")]
    return rels

def small_fields():
    """every sequence of up to three entries over a pool that has every tie-break: entries that are
    prefixes of one another, equal names with different operators / versions / spellings, substvars"""
    rels = small_pool()
    a, b, c = mk_rel("a"), mk_rel("b"), mk_rel("c")
    entries = [("E", dict(r), []) for r in rels]
    entries += [("E", dict(a), [(" ", dict(b))]), ("E", dict(a), [(" ", dict(b)), (" ", dict(c))]), ("E", dict(b), [(" ", dict(a))]),
                ("E", dict(rels[3]), [("", dict(rels[4]))]), ("E", dict(b), [("", dict(a)), ("", dict(rels[2]))])]
    for e in entries:
        # the relation before "|" ends the alternative with a space in the usual layout
        if e[2]: e[1]["trail"] = " "
    items = entries + [("S", "misc", ["Depends"], ""), ("S", "a", [], ""), ("N",)]
    out = []
    for n in (1, 2, 3):
        for tup in itertools.product(range(len(items)), repeat=n):
            if n == 3 and not (tup[0] < 8 or tup[0] >= len(rels)):
                continue                           # thin the cube: first item among the interesting ones
            its = [items[i] for i in tup]
            out.append(("", its[0], [(" ", i) for i in its[1:]]))
    return out

REGRESSION_FIELDS = None
def regression_fields():
    """the failing inputs of the four defects repaired by proposed_fixes/C13-*.patch, and the class witness"""
    a, b, c = mk_rel("a"), mk_rel("b"), mk_rel("c")
    at = lambda r: dict(r, trail=" ")
    v = lambda op, t: (" ", "", op, " ", None, t, "", [])
    return [
        ("", ("E", mk_rel("a", qual=("", "", "any")), []), []),
        ("", ("S", "misc", ["Depends"], ""), [(" ", ("E", dict(b), []))]),
        ("", ("E", at(a), [(" ", at(b)), (" ", dict(c))]), [(" ", ("E", at(a), [(" ", dict(b))])), (" ", ("E", dict(a), []))]),
        ("", ("E", at(a), [(" ", dict(b))]), [(" ", ("E", dict(a), []))]),
        ("", ("E", mk_rel("a", ver=v("eq", "1"), trail=" "), [(" ", mk_rel("a", ver=v("eq", "99999999999")))]), []),
        ("", ("E", mk_rel("a", ver=v("eq", "99999999999")), []), [(" ", ("E", dict(b), []))]),
    ]

# ---------------------------------------------------------------- case sets
def case_of(f, cid, flags):
    return (cid, [hexs(G.render(f)), flags, G.encode(f)])

def wf_cases(tier, rng, flags, prefix="w"):
    cases, seen = [], set()
    def add(f):
        t = G.render(f) + "\0" + G.encode(f)
        if t in seen: return
        seen.add(t); cases.append(case_of(f, f"{prefix}{len(cases)}", flags))
    for f in regression_fields(): add(f)
    for f in small_fields(): add(f)
    for f in G.small_fields()[::(1 if tier == "thorough" else 7)]: add(f)
    n = {"quick": 7000, "search": 20000, "thorough": 300000}[tier]
    for i in range(n):
        k = i % 10
        if k < 5:
            f = gen_field(rng)
        elif k < 7:
            f = G.gen_field(rng)                                  # C10's generator: wide names, every slot
        elif k < 8:
            f = gen_field(rng, few_names=False, substvars=False)
        else:
            f = reorder(gen_field(rng), rng.choice(["sorted", "reversed", "shuffled"]), rng)
        add(f)
        if i % 150 == 0:
            add(gen_long_field(rng))
        if i % 400 == 0:                                          # the known class: a digit run above i32::MAX
            g = gen_field(rng, style="policy")
            rels = [r for r in G.rels_of(g)]
            if rels:
                r = rng.choice(rels); r["ver"] = mk_ver(rng.choice(OPS), rng.choice(BIG), "policy", rng)
                add(g)
    return cases

MALFORMED = [
    "a (> 1)", "a (< 1)", "a (1)", "a (>= 99999999999:1)", "a (>= 4294967296:1)", "a (>= 007:1)", "a (>= 1:)", "a (= :)", "a (= 1:2:)",
    "a [ ]", "a < >", "a <! x>", "a [! b]", "a [!!b]", "a [!]", "a (>= 1", "a <", "a [", "a | (", "${a} | b", "a | ${b}", "${", "${a:", "${a}b",
    "a:any:b", "a : : b", "a (>= 1) (<< 2)", "a [b] [c]", "a <b> [c]", "a (= 1) :any", "é", "a b", "", ",", ",,", " , ", "a,", ",a", "| a", "a |",
    "a (= 1 é)", "a:é", "a [é]", "a <é>", "${é}", "a\r\n, b", "a (= 1)\tb", "a(=1)[b]<c>", "A, a, B, b", "a | a | a",
]

def text_cases(tier, rng, flags, prefix="t"):
    cases, seen = [], set()
    def add(s):
        if s in seen: return
        seen.add(s); cases.append((f"{prefix}{len(cases)}", [hexs(s), flags]))
    for s in MALFORMED + G.REGRESSION_TEXTS: add(s)
    for s in gen.corpus_files("relwrap"): add(s)
    for s in gen.corpus_files("relacc"): add(s)
    for s in gen.repo_rel_corpus(): add(s)
    n = {"quick": 3, "search": 3, "thorough": 4}[tier]
    for s in gen.exhaustive(gen.REL_ALPHABET, n): add(s)
    ngen = {"quick": 4000, "search": 12000, "thorough": 120000}[tier]
    for _ in range(ngen):
        t = G.render(gen_field(rng))
        m = t
        for _ in range(rng.choice([1, 1, 2, 3])):
            m = gen.mutate(rng, m, gen.REL_ALPHABET)
        add(m)
        if rng.random() < 0.3:
            t2, _ = gen.gen_rel_field(rng); add(t2)
    return cases

# ---------------------------------------------------------------- control files
REL_FIELD_NAMES = ["Build-Depends", "Build-Depends-Indep", "Build-Depends-Arch", "Build-Conflicts", "Build-Conflicts-Indep",
                   "Build-Conflicts-Arch", "Depends", "Recommends", "Suggests", "Enhances", "Pre-Depends", "Breaks"]
SOURCE_FIELDS = REL_FIELD_NAMES[:6]
BINARY_FIELDS = REL_FIELD_NAMES[6:]
SETTINGS = ["s1:0:-", "s1:0:-", "s4:1:-", "f:0:-", "s2:0:79", "s1:1:79", "f:1:40", "s8:0:20"]

def value_lines(text):
    """the text of a relationship field as the value of a deb822 field: None when a line (other than
    the first) is blank, which would end the paragraph"""
    lines = text.split("\n")
    if any(l.strip(" \t") == "" for l in lines[1:]):
        return None
    out = lines[0].lstrip(" \t")
    for l in lines[1:]:
        out += "\n" + (l if l[0] in " \t" else " " + l)
    return out

def control_doc(rng, fields):
    """fields: [(paragraph 'S'|'B', name, value text)]"""
    src = "Source: x\n" + "".join(f"{n}: {v}\n" if v and not v.startswith("\n") else f"{n}:{v}\n" for p, n, v in fields if p == "S")
    src += "Maintainer: A <a@b>\n"
    bins = "Package: y\n" + "".join(f"{n}: {v}\n" if v and not v.startswith("\n") else f"{n}:{v}\n" for p, n, v in fields if p == "B")
    bins += "Description: d\n"
    return (bins + "\n" + src) if rng.random() < 0.3 else (src + "\n" + bins)

def ctl_cases(tier, rng, flags, prefix="c"):
    cases, seen = [], set()
    def add(fs, bad=None):
        """fs: [(para, name, field)]; bad: an unparsable value for one more field"""
        vals, encs = [], []
        for p, n, f in fs:
            v = value_lines(G.render(f))
            if v is None: return
            vals.append((p, n, v)); encs.append(n + "=" + G.encode(f).replace(" ", "+"))
        if bad is not None:
            vals.append(bad); encs.append(bad[1] + "=!")
        doc = control_doc(rng, vals)
        st = rng.choice(SETTINGS)
        key = doc + "\0" + st
        if key in seen: return
        seen.add(key); cases.append((f"{prefix}{len(cases)}", [hexs(doc), st, flags, ";".join(encs) or "-"]))
    for f in regression_fields()[:4]:
        add([("S", "Build-Depends", f)]); add([("B", "Depends", f)])
    n = {"quick": 1500, "search": 4000, "thorough": 60000}[tier]
    for i in range(n):
        fs = []
        for _ in range(rng.choice([1, 1, 2, 3])):
            p = rng.choice("SB")
            name = rng.choice(SOURCE_FIELDS if p == "S" else BINARY_FIELDS)
            if any(x[1] == name for x in fs): continue
            style = rng.choice(["policy", "policy", "lossy", "tight", "wild"])
            f = gen_field(rng, style=style, substvars=rng.random() < 0.6) if rng.random() < 0.7 else G.gen_field(rng, style=style)
            if unsafe(f): continue
            fs.append((p, name, f))
        bad = None
        if i % 25 == 0:
            bad = (rng.choice("SB"), "Suggests" if rng.random() < 0.5 else "Build-Conflicts", rng.choice(["a (= 1", "a b", "a (> 1)", "a [", "é", "a | , b"]))
            if bad[0] == "S": bad = ("S", "Build-Conflicts", bad[2])
            else: bad = ("B", "Suggests", bad[2])
            fs = [x for x in fs if x[1] != bad[1]]
        add(fs, bad)
    return cases
