"""Generators for the editing streams (C04, C05): initial documents and operation histories."""
from .core import hexs
from . import gen_grammar, gen_lossy, gen

def canon_value(rng):
    """a value in C04's domain: non-empty lines, no leading whitespace, continuation lines not starting with '#'"""
    lines = [gen_lossy.cline(rng, True)]
    for _ in range(rng.choice([0, 0, 0, 1, 2])):
        lines.append(gen_lossy.cline(rng))
    return "\n".join(lines)

def any_value(rng):
    return rng.choice(["", "a\n", "\nb", "a\n#b", " a", "a\n b", "a\rb", "x"]) if rng.random() < 0.5 else canon_value(rng)

def init_doc(rng, wf=True, parsed_paras=True):
    """returns (init field, list of names in the doc)"""
    k = rng.random()
    if k < 0.12:
        return "N", []
    if k < 0.3:
        d = gen_lossy.ldoc(rng, True)
        d = [[(n, v if v and not v.startswith("\n") else "x") for n, v in p] for p in d]
        return "F:" + gen_lossy.enc(d), [n for p in d for n, _ in p]
    if k < 0.42 and parsed_paras:
        # a document collected from parsed paragraphs (one-paragraph texts, with or without final line end)
        texts = []; names = []
        for _ in range(rng.choice([1, 2, 2, 3])):
            for _try in range(8):
                blocks = [b for b in gen_grammar.gen_struct_doc(rng) if b[0] == "P"][:1]
                if blocks: break
            if not blocks: continue
            t = gen_grammar.render(blocks)
            if rng.random() < 0.5 and t.endswith("\n"): t = t[:-1]
            texts.append(hexs(t)); names += gen_grammar.all_names(blocks)
        if texts:
            return "P:" + ";".join(texts), names
    if wf:
        blocks = gen_grammar.gen_struct_doc(rng)
        return "T:" + hexs(gen_grammar.render(blocks)), gen_grammar.all_names(blocks)
    t, _ = gen.gen_doc(rng)
    if rng.random() < 0.5:
        for _ in range(rng.choice([1, 2, 3])): t = gen.mutate(rng, t)
    return "T:" + hexs(t), []

def history(rng, names, n, para_ops=False, canon=True):
    names = list(dict.fromkeys(names))[:6] + ["Zz", "New-Field"]
    val = canon_value if canon else any_value
    ops = []
    for _ in range(n):
        kinds = "SSIIRRN" + ("AAJJDD" if para_ops else "")
        o = rng.choice(kinds)
        p = rng.choice([0, 0, 1, 2, 3])
        if o == "S": ops.append(f"S:{p}:{hexs(rng.choice(names))}:{hexs(val(rng))}")
        elif o == "I": ops.append(f"I:{p}:{hexs(rng.choice(names))}:{hexs(val(rng))}")
        elif o == "R": ops.append(f"R:{p}:{hexs(rng.choice(names))}")
        elif o == "N": ops.append(f"N:{p}:{hexs(rng.choice(names))}:{hexs(rng.choice(names + ['Renamed']))}")
        elif o == "A": ops.append("A")
        elif o == "J": ops.append(f"J:{rng.choice([0, 0, 1, 2, 3, 5])}")
        else: ops.append(f"D:{rng.choice([0, 0, 1, 2, 3, 5])}")
    return " ".join(ops) if ops else "-"

def edit_cases(n, rng, prefix, para_ops=False, wf=True, canon=True):
    cases = []
    for i in range(n):
        init, names = init_doc(rng, wf)
        cases.append((f"{prefix}{i}", [init, history(rng, names, rng.choice([1, 2, 3, 5, 8, 12]), para_ops, canon)]))
    return cases
