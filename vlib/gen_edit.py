"""Generators for the editing streams (C04, C05): initial documents and operation histories."""
from .core import hexs
from . import gen_grammar, gen_lossy, gen

def canon_value(rng):
    """a value in C04's domain: non-empty lines, no leading whitespace, continuation lines not starting with '#'"""
    lines = [gen_lossy.cline(rng, True)]
    for _ in range(rng.choice([0, 0, 0, 1, 2])):
        lines.append(gen_lossy.cline(rng))
    return "\n".join(lines)

def any_value(rng):
    return rng.choice(["", "a\n", "\nb", "a\n#b", " a", "a\n b", "a\rb", "x"]) if rng.random() < 0.5 else canon_value(rng)

class Names(list):
    """the names in a generated document; .empty = those of fields whose value is empty
    ("K:" LF, "K: " LF, "K:" at the end of the text): renaming one makes Entry::new write an
    empty VALUE token (C04 (4), live_tree)"""
    empty = ()

def empty_valued(blocks):
    out = []
    for b in blocks:
        if b[0] == "P":
            out += [f["name"] for f in [b[1]] + [it[1] for it in b[2] if it[0] == "F"] if f["first"] == "" and not f["cont"]]
    return out

def init_doc(rng, wf=True, parsed_paras=True):
    """returns (init field, Names in the doc)"""
    init, names, empty = init_doc_e(rng, wf, parsed_paras)
    names = Names(names); names.empty = list(dict.fromkeys(empty))
    return init, names

def init_doc_e(rng, wf=True, parsed_paras=True):
    k = rng.random()
    if k < 0.12:
        return "N", [], []
    if k < 0.3:
        d = gen_lossy.ldoc(rng, True)
        d = [[(n, v if v and not v.startswith("\n") else "x") for n, v in p] for p in d]
        return "F:" + gen_lossy.enc(d), [n for p in d for n, _ in p], []
    if k < 0.42 and parsed_paras:
        # a document collected from parsed paragraphs (one-paragraph texts, with or without final line end)
        texts = []; names = []; empty = []
        for _ in range(rng.choice([1, 2, 2, 3])):
            for _try in range(8):
                blocks = [b for b in gen_grammar.gen_struct_doc(rng) if b[0] == "P"][:1]
                if blocks: break
            if not blocks: continue
            t = gen_grammar.render(blocks)
            if rng.random() < 0.5 and t.endswith("\n"): t = t[:-1]
            texts.append(hexs(t)); names += gen_grammar.all_names(blocks); empty += empty_valued(blocks)
        if texts:
            return "P:" + ";".join(texts), names, empty
    if wf:
        blocks = gen_grammar.gen_struct_doc(rng)
        if blocks and rng.random() < 0.15:
            # make sure fields without a value are there: "K:" / "K: " / "K:\t", also as the unterminated last line
            for b in blocks:
                if b[0] == "P":
                    for f in [b[1]] + [it[1] for it in b[2] if it[0] == "F"]:
                        if rng.random() < 0.5: f["first"] = ""; f["cont"] = []
        return "T:" + hexs(gen_grammar.render(blocks)), gen_grammar.all_names(blocks), empty_valued(blocks)
    t, _ = gen.gen_doc(rng)
    if rng.random() < 0.5:
        for _ in range(rng.choice([1, 2, 3])): t = gen.mutate(rng, t)
    return "T:" + hexs(t), [], []

def rename_old(rng, names, empty):
    """the field to rename: often one without a value, or one an earlier rename produced (its
    entry then holds the empty VALUE token)"""
    r = rng.random()
    if empty and r < 0.4: return rng.choice(empty)
    if r < 0.5: return "Renamed"
    return rng.choice(names)

def history(rng, names, n, para_ops=False, canon=True):
    empty = list(getattr(names, "empty", ()))
    names = list(dict.fromkeys(names))[:6] + ["Zz", "New-Field"]
    val = canon_value if canon else any_value
    ops = []
    for _ in range(n):
        kinds = "SSIIRRN" + ("AAJJDD" if para_ops else "")
        o = rng.choice(kinds)
        p = rng.choice([0, 0, 1, 2, 3])
        if o == "S": ops.append(f"S:{p}:{hexs(rng.choice(names))}:{hexs(val(rng))}")
        elif o == "I": ops.append(f"I:{p}:{hexs(rng.choice(names))}:{hexs(val(rng))}")
        elif o == "R": ops.append(f"R:{p}:{hexs(rng.choice(names))}")
        elif o == "N": ops.append(f"N:{p}:{hexs(rename_old(rng, names, empty))}:{hexs(rng.choice(names + ['Renamed']))}")
        elif o == "A": ops.append("A")
        elif o == "J": ops.append(f"J:{rng.choice([0, 0, 1, 2, 3, 5])}")
        else: ops.append(f"D:{rng.choice([0, 0, 1, 2, 3, 5])}")
    return " ".join(ops) if ops else "-"

def corpus_cases():
    """renames of fields without a value: first field, "K: ", unterminated last line, value only on
    continuation lines (not empty), rename again through the new entry, then set/remove/insert around it"""
    h = hexs
    T = lambda s: "T:" + h(s)
    N = lambda p, a, b: f"N:{p}:{h(a)}:{h(b)}"
    return [
        ("r0", [T("A:\nB: 1\n"), N(0, "A", "C")]),
        ("r1", [T("A: \n"), N(0, "A", "C")]),
        ("r2", [T("A:"), N(0, "A", "C")]),
        ("r3", [T("A:\n x\n"), N(0, "A", "C")]),
        ("r4", [T("A:\nB: 1\n"), " ".join([N(0, "A", "C"), N(0, "C", "D"), f"S:0:{h('E')}:{h('e')}", f"R:0:{h('B')}", N(0, "D", "F"), f"S:0:{h('F')}:{h('f')}"])]),
        ("r5", [T("B: 1\nA:"), N(0, "A", "C") + f" I:0:{h('E')}:{h('e')}"]),
        ("r6", [T("B: 1\nA: \t"), N(0, "A", "C") + f" I:0:{h('E')}:{h('e')}"]),
        ("r7", [T("# c\nB: 1\n# d\nA:\n\nA:\nA: 2"), " ".join([N(1, "A", "C"), N(0, "A", "A"), f"R:1:{h('A')}", N(1, "C", "B")])]),
    ]

def edit_cases(n, rng, prefix, para_ops=False, wf=True, canon=True):
    cases = []
    for i in range(n):
        init, names = init_doc(rng, wf)
        cases.append((f"{prefix}{i}", [init, history(rng, names, rng.choice([1, 2, 3, 5, 8, 12]), para_ops, canon)]))
    return cases
