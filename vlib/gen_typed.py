"""Generators for the C20 cone (lossy typed documents).  Every random choice derives from the rng
handed in.  The field tables come from coq/gen/structs.json (rewritten by translate/structs.py
from the Rust sources on every run).

A case of the typed-doc streams:  id TAB kind TAB hex(text) TAB external-codec table TAB flags
  kind   control | copyright | release | aptsource | aptpackage | removal | buildinfo | dep3 | repositories
  table  "id:hexraw:hexcanon|-" entries (what the model's external parsers answer; the harness
         runs the real functions, so every entry is re-validated on every run)
  flags  "wf" when the text is a well-formed document of the kind built from its field table
         (the field-wise clause of the property is judged on those), else "-"
"""
import itertools, os, re
from .core import hexs, VERIF, REPO
from . import gen_derive

KINDS = ["control", "copyright", "release", "aptsource", "aptpackage", "removal", "buildinfo", "dep3", "repositories"]
# which deb822 layer the kind's text entry point uses
READER = {"control": "ll-doc", "copyright": "ll-doc", "repositories": "ll-doc",
          "removal": "ll-first", "buildinfo": "ll-first", "dep3": "ll-first",
          "release": "lossy", "aptsource": "lossy", "aptpackage": "lossy"}
# roles: letter -> struct id
ROLES = {
    "control": {"S": "debian_control_lossy_Source", "B": "debian_control_lossy_Binary"},
    "copyright": {"H": "debian_copyright_lossy_Header", "F": "debian_copyright_lossy_FilesParagraph",
                  "L": "debian_copyright_lossy_LicenseParagraph"},
    "release": {"P": "debian_control_lossy_apt_Release"},
    "aptsource": {"P": "debian_control_lossy_apt_Source"},
    "aptpackage": {"P": "debian_control_lossy_apt_Package"},
    "removal": {"P": "debian_control_lossy_ftpmaster_Removal"},
    "buildinfo": {"P": "debian_control_lossy_buildinfo_Buildinfo"},
    "dep3": {"P": "dep3_lossy_PatchHeader"},
    "repositories": {"R": "apt_sources_Repository"},
}

_structs = None
def structs():
    global _structs
    if _structs is None:
        js = gen_derive.load_structs()
        _structs = (js, {s["id"]: s for s in js["structs"]})
    return _structs
def reset():
    global _structs, _env_variant
    _structs = None; _env_variant = None

# ---------------------------------------------------------------------------------------------
# Which serialize_env / serialize_types does the tree have?  (shipped: "K=V\n" per entry in hash
# order / hash order; proposed fix: sorted, joined by "\n".)  Read from the source so that the
# expectations of the pool follow the tree, like gen_derive does for Signature.
_env_variant = None
def env_variant():
    global _env_variant
    if _env_variant is None:
        try:
            src = open(os.path.join(REPO, "debian-control", "src", "lossy", "buildinfo.rs"), encoding="utf-8").read()
        except OSError:
            src = ""
        m = re.search(r"fn serialize_env.*?\n}\n", src, re.S)
        body = m.group(0) if m else ""
        _env_variant = "shipped" if '"{}={}\\n"' in body else "joined"
    return _env_variant

# ---------------------------------------------------------------------------------------------
# External codecs: python mirrors where the codec is a few lines, pool look-ups otherwise.
# -> ("ok", canonical text) | ("err",) | ("unknown",)
KEYWORDS = {"Priority": ["required", "important", "standard", "optional", "extra"],
            "MultiArch": ["same", "foreign", "no", "allowed"],
            "YesNoForce": ["yes", "no", "force"]}
ORIGIN_CATS = ["backport", "vendor", "upstream", "other"]

EXTRA_POOL = {
    "Relations": [("a,\nb", "a, b"), ("a (>= 1.0),\nb | c", "a (>= 1.0), b | c"), ("a, b", "a, b"),
                  ("python3:any", "python3:any"), ("a (= 1) [!amd64]", "a (= 1) [!amd64]"),
                  ("a <!nocheck>", "a <!nocheck>"), ("${misc:Depends}", None), ("a (>> 1), b (<< 2)", "a (>> 1), b (<< 2)")],
    "Version": [("1.0-1 ", None), ("2:1.0", "2:1.0"), ("20230101120000", "20230101120000"), ("1.0-2147483648", "1.0-2147483648")],
    "Url": [("https://example.com/a b", "https://example.com/a%20b"), ("https://example.com/a%20b", "https://example.com/a%20b"),
            ("http://a.example/x", "http://a.example/x"), ("http://b.example/", "http://b.example/"),
            ("https://deb.debian.org/debian", "https://deb.debian.org/debian"), ("nope", None)],
    "NaiveDate": [("2024-02-09", "2024-02-09")],
    "ParsedVcs": [("https://x/y.git  ", "https://x/y.git")],
}

def _pool(name):
    d = {}
    for raw, canon in gen_derive.EXT_POOL.get(name, []) + EXTRA_POOL.get(name, []):
        d[raw] = canon
    # a canonical text is taken to be a fixed point (validated, like every entry, by the harness)
    for canon in list(d.values()):
        if canon is not None and canon not in d:
            d[canon] = canon
    return d

def rust_split_ws(s):
    from .props.c16 import split_ws
    return split_ws(s)
def rust_lines(s):
    from .props.c16 import rust_lines as rl
    return rl(s)

RUST_WS_CHARS = "".join(map(chr, list(range(9, 14)) + [32, 0x85, 0xA0, 0x1680] + list(range(0x2000, 0x200B)) + [0x2028, 0x2029, 0x202F, 0x205F, 0x3000]))
VCS_GROUP = re.compile(r" \[([^\] ]+)\]")
def pvcs_parts(s):
    """ParsedVcs::from_str: trim, take the first ` [subpath]` group out, split at the first ` -b `"""
    s = s.strip(RUST_WS_CHARS)
    m = VCS_GROUP.search(s)
    sub = None
    if m:
        sub = m.group(1); s = s[:m.start()] + s[m.end():]
    i = s.find(" -b ")
    return (s[:i], s[i + 4:], sub) if i >= 0 else (s, None, sub)
def pvcs_canon(s):
    url, br, sub = pvcs_parts(s)
    return url + (" -b " + br if br is not None else "") + (" [" + sub + "]" if sub is not None else "")
def pvcs_second_group(s):
    """the known class c20-vcs-second-group: after the first group is taken out another one is left"""
    s = s.strip(RUST_WS_CHARS)
    m = VCS_GROUP.search(s)
    return bool(m and VCS_GROUP.search(s[:m.start()] + s[m.end():]))

def ext_canon(name, s):
    js, _ = structs()
    if name in KEYWORDS:
        return ("ok", s) if s in KEYWORDS[name] else ("err",)
    if name in ("License", "Forwarded", "AppliedUpstream"):
        return ("ok", s)
    if name == "Signature":
        if js.get("flags", {}).get("sig_keyblock") == "strip":
            return ("ok", s if s.startswith("\n") or "\n" not in s else "\n" + s)
        return ("ok", "\n" + s if "\n" in s else s)
    if name == "Origin":
        parts = s.split(", ", 1)
        if parts[0] in ORIGIN_CATS:
            return ("ok", parts[0] + ", " + (parts[1] if len(parts) > 1 else ""))
        return ("ok", s)
    if name == "ParsedVcs":
        return ("ok", pvcs_canon(s))
    if name == "EnvMap":
        env = {}
        for line in rust_lines(s):
            if "=" not in line: return ("err",)
            k, v = line.split("=", 1)
            env[k] = v
        ls = sorted(f"{k}={v}" for k, v in env.items())
        return ("ok", "".join(l + "\n" for l in ls) if env_variant() == "shipped" else "\n".join(ls))
    if name == "TypesSet":
        ws = rust_split_ws(s)
        if any(w not in ("deb", "deb-src") for w in ws): return ("err",)
        return ("ok", "\n".join(sorted(set(ws))))
    if name == "UrlList":
        out = []
        up = _pool("Url")
        for w in rust_split_ws(s):
            if w not in up: return ("unknown",)
            if up[w] is None: return ("err",)
            out.append(up[w])
        return ("ok", " ".join(out))
    p = _pool(name)
    if s in p:
        return ("ok", p[s]) if p[s] is not None else ("err",)
    return ("unknown",)

def ext_name(i):
    js, _ = structs()
    for n, j in js["ext"].items():
        if j == i: return n
    return None

def ll_norm(y):
    """what the lossless reader shows for the printed canonical value y"""
    ls = y.split("\n")
    if ls[0] == "" and len(ls) > 1: ls = ls[1:]
    return "\n".join(ls)

def table_for(kind, uses):
    """uses: [(codec id, value string handed to the external parser)].  Closed under what a
    print / re-read round can hand to the parser next."""
    ents = {}
    todo = list(dict.fromkeys(uses))
    for _ in range(6):
        nxt = []
        for i, x in todo:
            if (i, x) in ents: continue
            c = ext_canon(ext_name(i), x)
            if c[0] == "unknown": continue
            ents[(i, x)] = c[1] if c[0] == "ok" else None
            if ext_name(i) == "UrlList":
                js, _ = structs()
                for w in rust_split_ws(x):
                    nxt.append((js["ext"]["Url"], w))
            if c[0] == "ok":
                y = c[1]
                for z in (y, ll_norm(y), y.rstrip("\n"), ll_norm(y.rstrip("\n")), "\n".join(rust_lines(y))):
                    nxt.append((i, z))
        todo = nxt
        if not todo: break
    return ents
def enc_table(ents):
    return ",".join(f"{i}:{hexs(x)}:{hexs(c) if c is not None else '-'}" for (i, x), c in ents.items()) or "-"

# ---------------------------------------------------------------------------------------------
# values.  A value is a list of lines: the first may be empty, the others are non-empty and do
# not start with white space or '#'.  What a reader hands out for it: lossless = the non-empty
# first line and the others joined by LF; lossy = first + LF + others.
STR_ATOMS = ["a", "b", "foo", "1.0", " ", ":", "#", "-", ",", "é", "中", "=", ".", "(>= 1)", "x y", "<a@b.c>"]
def str_line(rng, first):
    s = "".join(rng.choice(STR_ATOMS) for _ in range(rng.choice([1, 1, 2, 3, 5]))).strip(" \t")
    if s == "" or (not first and s[0] == "#"):
        s = "x" + s
    return s
def str_value(rng):
    k = rng.random()
    if k < 0.55: return [rng.choice(["x", "hello world", "1.0", "foo (>= 1)", "é中", "https://x/", "yes", "true", "libs", "4.6.2", "#hash first"])]
    if k < 0.62: return [""]
    ls = [str_line(rng, True)]
    for _ in range(rng.choice([1, 1, 2, 4])):
        ls.append(str_line(rng, False))
    if rng.random() < 0.2: ls[0] = ""
    return ls

GOOD = dict(gen_derive.GOOD)
BAD = dict(gen_derive.BAD)
WS_WORDS = ["a", "main", "contrib", "amd64", "arm64", "*", "debian/*", "src/x.c", "é", "x=y", "a", "main", "*", "b#c", "#tag"]

def lines_ok(ls):
    return all(l != "" and l[0] not in " \t#" and "\r" not in l for l in ls[1:]) and "\r" not in ls[0] and ls[0][:1] not in (" ", "\t")

def field_lines(rng, f, kind, want_ok=True):
    """-> (lines, [(ext id, read value)]) for struct field f"""
    de = f["de"]
    lossy = READER[kind] == "lossy"
    if de.startswith("DExt"):
        i = int(de.split()[1]); name = ext_name(i)
        cands = []
        if name in KEYWORDS:
            cands = KEYWORDS[name] if want_ok else ["", "Yes", "optional ", "x"]
        elif name == "TypesSet":
            cands = ["deb", "deb-src", "deb deb-src", "deb-src\ndeb", "deb deb"] if want_ok else ["rpm", "deb rpm"]
        elif name == "EnvMap":
            cands = ["A=1", "LANG=C.UTF-8\nPATH=/usr/bin:/bin", "A=b=c", "DEB_BUILD_OPTIONS=\"parallel=4\"\nLC_ALL=\"C.UTF-8\"\nA=1", "A=1\nA=2",
                     "B=2\nA=1", "=v\nA=", "a=1\nA=1", "#A=1\nB=2", "#A=1", "Z=1\nA=2\nM=3",
                     "#A=1\n!B=2", "#A=1\n\"Q\"=2\nC=3"      # class c20-env-hash-line: a '#' line that is not the smallest
                     ] if want_ok else ["novalue", "A=1\nB"]
        elif name == "UrlList":
            cands = ["https://deb.debian.org/debian", "http://a.example/x  http://b.example/", "https://example.com", "http://a.example/x\nhttp://b.example/"] if want_ok else ["nope", "http://a.example/ nope"]
        elif name == "Signature":
            cands = ["/usr/share/keyrings/debian.gpg", gen_derive.KEYBLOCK, "a\nb", "#path", "a b",
                     "#abc\ndef"]                      # class c20-signature-hash-block
        elif name in ("License",):
            cands = ["GPL-3+", "MIT", "GPL-3+\ntext line\nmore", "Apache-2.0\n.\nsecond"]
        elif name in ("Forwarded",):
            cands = ["no", "not-needed", "https://bugs.example/1", "yes"]
        elif name == "AppliedUpstream":
            cands = ["commit:abc123", "2.0", "1.2, http://x/"]
        elif name == "Origin":
            cands = ["upstream, https://x/1", "backport, commit:abc", "vendor", "commit:abc", "https://x", "other, x", "vendor, ", "other", "Vendor, x", "upstream,x", "commit:"]
        elif name == "ParsedVcs":
            url = rng.choice(["https://x/y.git", "u", "https://salsa.debian.org/a/b"])
            br = rng.choice(["", "", " -b main", " -b debian/sid", " -b "])
            sub = rng.choice(["", "", " [sub]", " [a/b]"])
            cands = [url + br + sub, url + sub + br, url + "  ", url + " [a]x", url + " [a b]", url + " []", "[a] " + url, url + br + " [a]\nmore", url + " [a\nb]",
                     url + " [a] [b]", url + " [a]" + br + " [b]", url + br + " [b] [a] [c]"]     # the last three: class c20-vcs-second-group
        else:
            p = _pool(name)
            cands = [r for r, c in p.items() if (c is not None) == want_ok and lines_ok(r.split("\n")) and r != ""] or [r for r in p if lines_ok(r.split("\n"))]
        raw = rng.choice(cands)
        ls = raw.split("\n")
        if not lossy and len(ls) > 1 and rng.random() < 0.25 and ls[0] != "":
            ls = [""] + ls            # "Key:" on a line of its own: the lossless reader shows the same value
        read = "\n".join(ls) if lossy else ll_norm("\n".join(ls))
        return ls, [(i, read)]
    if de == "DStr":
        return str_value(rng), []
    if de == "DSplitWs":
        n = rng.choice([1, 1, 2, 3])
        ws = [rng.choice(WS_WORDS) for _ in range(n)]
        if rng.random() < 0.5 or any(w.startswith("#") for w in ws): return [" ".join(ws)], []
        if rng.random() < 0.5: return ws, []
        return [""] + ws, []
    if de == "DSplitNl":
        return rng.choice([["2019 John Doe"], ["2019 John Doe", "2020 Jane"], ["", "2019 A", "2020 B"], ["a b c", "d e f"], ["", "pkg deb libs optional arch=any"]]), []
    if de == "DLines":
        return rng.choice([["a_1"], ["a_1", "b_2"], ["", "a_1 [amd64]", "b_2"], ["x y", "z"]]), []
    if de == "DUnrecognised":
        return ["x"], []
    if want_ok or de not in BAD:
        return [rng.choice([g for g in GOOD[de] if lines_ok(g.split("\n")) and "\n" not in g and g.strip(" \t") == g])], []
    return [rng.choice([b for b in BAD[de] if "\n" not in b and "\r" not in b and b.strip(" \t") == b and b[:1] != "#"] or ["x"])], []

def read_value(kind, ls):
    return "\n".join(ls) if READER[kind] == "lossy" else ll_norm("\n".join(ls))

# ---------------------------------------------------------------------------------------------
# layout
def render_field(rng, key, ls, plain=False):
    sep = ": " if plain else rng.choice([": ", ": ", ": ", ":", ":  ", ":\t"])
    out = key + (":" if ls[0] == "" and (plain or rng.random() < 0.8) else sep) + ls[0] + "\n"
    for l in ls[1:]:
        if l.startswith(RAW):
            out += l[len(RAW):] + "\n"       # a raw line (malformed stream)
        else:
            out += (" " if plain else rng.choice([" ", " ", "  ", "\t"])) + l + "\n"
    return out

RAW = "\x00raw:"
COMMENTS = ["# comment\n", "#\n", "# Source: not a field\n", "#x: y\n"]
FOREIGN = ["X-Foreign", "Zz", "Homepage-2", "x-other"]
CONFUSING = {"debian_control_lossy_Binary": ["Source"],
             "debian_copyright_lossy_Header": ["Files", "License", "Copyright"],
             "debian_copyright_lossy_FilesParagraph": ["Format"],
             "debian_copyright_lossy_LicenseParagraph": ["Format", "Copyright"],
             "dep3_lossy_PatchHeader": ["From", "Subject"]}

def para_text(rng, fields, plain=False):
    """fields: [(key, lines)]"""
    out = ""
    for k, ls in fields:
        if not plain and rng.random() < 0.08:
            out += rng.choice(COMMENTS)
        out += render_field(rng, k, ls, plain)
    if not plain and rng.random() < 0.05:
        out += rng.choice(COMMENTS)
    return out

def doc_text(rng, paras, plain=False):
    out = ""
    if not plain and rng.random() < 0.1:
        out += rng.choice(COMMENTS) + ("\n" if rng.random() < 0.7 else "")
    if not plain and rng.random() < 0.05:
        out += "\n"
    for i, p in enumerate(paras):
        if i > 0:
            out += "\n" * (1 if plain else rng.choice([1, 1, 1, 2, 3]))
            if not plain and rng.random() < 0.1:
                out += rng.choice(COMMENTS) + "\n"
        out += para_text(rng, p, plain)
    if not plain:
        r = rng.random()
        if r < 0.15 and out.endswith("\n"): out = out[:-1]
        elif r < 0.3: out += "\n"
    return out

# ---------------------------------------------------------------------------------------------
def gen_para(rng, kind, st, p_opt=None, drop=None, bad=None, shuffle=True, foreign=True, dup=False):
    """-> ([(key, lines)], ext uses).  drop: index of a field to leave out; bad: index of a field with an invalid value"""
    if p_opt is None:
        p_opt = rng.choice([0.0, 0.2, 0.5, 0.8, 1.0])
    fields, uses = [], []
    for i, f in enumerate(st["fields"]):
        if i == drop: continue
        if f["optional"] and rng.random() >= p_opt and i != bad: continue
        ls, u = field_lines(rng, f, kind, want_ok=(i != bad))
        fields.append((f["key"], ls)); uses += u
        if dup and rng.random() < 0.3:
            ls2, u2 = field_lines(rng, f, kind)
            fields.append((f["key"], ls2)); uses += u2
    if shuffle and rng.random() < 0.3:
        rng.shuffle(fields)
    if foreign and rng.random() < 0.25:
        fields.insert(rng.randrange(len(fields) + 1), (rng.choice(FOREIGN), [rng.choice(["foreign", "x y"])]))
    # fields that belong to ANOTHER role of the kind: the role is decided by the distinguishing field
    # that is looked at first (Package before Source; Files before License; the header by position)
    confusing = CONFUSING.get(st["id"])
    if foreign and confusing and rng.random() < 0.15:
        ck = rng.choice(confusing)
        fields.insert(rng.randrange(len(fields) + 1), (ck, ["other-role"]))
        for other in role_structs(kind).values():       # the paragraph may now be read as that role
            for g in other["fields"]:
                if g["key"] == ck and g["de"].startswith("DExt"):
                    uses.append((int(g["de"].split()[1]), "other-role"))
    return fields, uses

def role_structs(kind):
    _, by = structs()
    return {r: by[sid] for r, sid in ROLES[kind].items()}

def gen_doc(rng, kind, roles=None, **kw):
    """a document of the kind: the list of role letters decides the paragraphs"""
    rs = role_structs(kind)
    if roles is None:
        if kind == "control":
            roles = ["S"] + ["B"] * rng.choice([0, 1, 1, 2, 3])
            if rng.random() < 0.4: rng.shuffle(roles)
        elif kind == "copyright":
            body = [rng.choice("FFL") for _ in range(rng.choice([0, 1, 2, 3, 4]))]
            roles = ["H"] + body
        elif kind == "repositories":
            roles = ["R"] * rng.choice([0, 1, 1, 2, 3])
        else:
            roles = ["P"]
    paras, uses = [], []
    for r in roles:
        p, u = gen_para(rng, kind, rs[r], **kw)
        if kind == "copyright" and r == "H":
            # the Format gate looks at the first bytes of the text: Format first, no layout before it
            p.sort(key=lambda kv: kv[0] != "Format")
        paras.append(p); uses += u
    return paras, uses

def case(cid, kind, text, uses, wf):
    return (cid, [kind, hexs(text), enc_table(table_for(kind, uses)), "wf" if wf else "-"])

def wf_cases(tier, rng, prefix="w"):
    reset()
    per = {"quick": 1200, "search": 2500, "thorough": 80000}[tier]
    cases = []
    for kind in KINDS:
        for j in range(per):
            paras, uses = gen_doc(rng, kind, dup=(j % 7 == 3))
            plain = j % 5 == 0
            text = doc_text(rng, paras, plain)
            if kind == "copyright" and not text.startswith("Format:"):
                # comments or blank lines before the header: not machine readable (gate), kept as a case
                cases.append(case(f"{prefix}{len(cases)}", kind, text, uses, False)); continue
            # well-formed for the kind, unless the single-paragraph readers see more than one paragraph
            cases.append(case(f"{prefix}{len(cases)}", kind, text, uses, True))
    return cases

BAD_LINES = ["no colon here", " \t", " ", "-Key: x", ": x", "  indented: first", "Key", "é: x", "\t# indented comment", " #c", "a b: c", " cont"]
def corrupt(rng, paras, ext_keys):
    """a syntactically bad or odd line after a field that has no external codec (their read values
    must stay inside the case's table), or in front of the document"""
    cands = [(a, b) for a, p in enumerate(paras) for b, (k, _) in enumerate(p) if k not in ext_keys]
    bad = rng.choice(BAD_LINES)
    if cands and rng.random() < 0.85:
        a, b = rng.choice(cands)
        k, ls = paras[a][b]
        # after the last line or (every third time) between two lines of the value: an interior
        # blank line stays in a lossy value as an empty line and must survive print/reparse
        pos = rng.randrange(1, len(ls) + 1) if (len(ls) > 1 and rng.random() < 0.34) else len(ls)
        paras[a][b] = (k, ls[:pos] + [RAW + bad] + ls[pos:])
        return ""
    return bad + "\n"

def malformed_cases(tier, rng, prefix="m"):
    reset()
    per = {"quick": 440, "search": 900, "thorough": 22000}[tier]
    cases = []
    def add(kind, text, uses):
        cases.append(case(f"{prefix}{len(cases)}", kind, text, uses, False))
    for kind in KINDS:
        rs = role_structs(kind)
        # every mandatory field of every role missing, one at a time; an invalid value in every fallible field
        for r, st in rs.items():
            for i, f in enumerate(st["fields"]):
                base_roles = {"control": ["S", "B"], "copyright": ["H", "F", "L"], "repositories": ["R", "R"]}.get(kind, ["P"])
                if not f["optional"]:
                    paras, uses = [], []
                    for rr in base_roles:
                        p, u = gen_para(rng, kind, rs[rr], drop=(i if rr == r else None), shuffle=False, foreign=False)
                        paras.append(p); uses += u
                    add(kind, doc_text(rng, paras, True), uses)
                if f["de"] in BAD or f["de"].startswith("DExt"):
                    paras, uses = [], []
                    for rr in base_roles:
                        p, u = gen_para(rng, kind, rs[rr], bad=(i if rr == r else None), shuffle=False, foreign=False)
                        paras.append(p); uses += u
                    add(kind, doc_text(rng, paras, True), uses)
        for j in range(per):
            m = j % 11
            if m == 0:      # wrong paragraph structure
                if kind == "control":
                    roles = rng.choice([[], ["B"], ["B", "B"], ["S", "S"], ["S", "B", "S"], ["B", "S", "S", "B"]])
                elif kind == "copyright":
                    roles = rng.choice([[], ["F"], ["L", "H"], ["H", "H"], ["F", "H"]])
                elif kind == "repositories":
                    roles = []
                else:
                    roles = rng.choice([[], ["P", "P"], ["P", "P", "P"]])
                paras, uses = gen_doc(rng, kind, roles=roles)
                add(kind, doc_text(rng, paras), uses)
            elif m == 1:    # a paragraph of neither kind / of unknown fields only
                paras, uses = gen_doc(rng, kind)
                odd = [(rng.choice(FOREIGN), ["v"]), ("Comment", ["c"])][:rng.choice([1, 2])]
                paras.insert(rng.randrange(len(paras) + 1), odd)
                add(kind, doc_text(rng, paras), uses)
            elif m == 2:    # only unknown fields
                add(kind, doc_text(rng, [[(rng.choice(FOREIGN), ["v"])]]), [])
            elif m == 3:    # a syntactically bad line
                paras, uses = gen_doc(rng, kind)
                ext_keys = {f["key"] for st in rs.values() for f in st["fields"] if f["de"].startswith("DExt")}
                pre = corrupt(rng, paras, ext_keys)
                add(kind, pre + doc_text(rng, paras, True), uses)
            elif m == 4:    # a white-space-only or comment-only continuation line after a field's last line
                paras, uses = gen_doc(rng, kind)
                ext_keys = {f["key"] for st in rs.values() for f in st["fields"] if f["de"].startswith("DExt")}
                cands = [(a, b) for a, p in enumerate(paras) for b, (k, _) in enumerate(p) if k not in ext_keys]
                if cands:
                    a, b = rng.choice(cands)
                    k, ls = paras[a][b]
                    odd = RAW + rng.choice([" ", "\t", " #c", "  "])
                    multi = [(a2, b2) for (a2, b2) in cands if len(paras[a2][b2][1]) > 1]
                    if multi and j % 2 == 1:
                        # ... or BETWEEN two lines of a value (a lossy value keeps it as an empty line)
                        a, b = rng.choice(multi)
                        k, ls = paras[a][b]
                        pos = rng.randrange(1, len(ls))
                        paras[a][b] = (k, ls[:pos] + [odd] + ls[pos:])
                    else:
                        paras[a][b] = (k, ls + [odd])
                add(kind, doc_text(rng, paras, True), uses)
            elif m == 5:    # a word starting with '#' in a white-space separated list
                paras, uses = gen_doc(rng, kind)
                for p in paras:
                    for k, ls in p:
                        if k in ("Files", "Files-Excluded", "Suites", "Components", "Binary", "Architectures") and rng.random() < 0.7:
                            ls[0] = (ls[0] + " #x y").strip()
                add(kind, doc_text(rng, paras, True), uses)
            elif m == 6:    # Format gate / first bytes
                paras, uses = gen_doc(rng, kind)
                t = doc_text(rng, paras, True)
                add(kind, rng.choice(["\n", "# c\n", " ", "Format :x\n\n", "format: x\n\n"]) + t, uses)
            elif m == 7:    # CR line ends
                paras, uses = gen_doc(rng, kind)
                add(kind, doc_text(rng, paras, True).replace("\n", "\r\n", rng.choice([1, 2, 100])), uses)
            elif m == 8:    # wrong-case keys
                paras, uses = gen_doc(rng, kind)
                if paras and paras[0]:
                    k, ls = paras[0][0]
                    paras[0][0] = (k.swapcase(), ls)
                add(kind, doc_text(rng, paras), uses)
            elif m == 9:    # invalid value somewhere
                rs_l = list(rs.items())
                paras, uses = gen_doc(rng, kind)
                r, st = rng.choice(rs_l)
                p, u = gen_para(rng, kind, st, bad=rng.randrange(len(st["fields"])))
                paras.append(p); uses += u
                add(kind, doc_text(rng, paras), uses)
            else:           # empty-ish texts
                js, _ = structs()
                add(kind, rng.choice(["", "\n", "\n\n", "# only a comment\n", " ", "Format:", "Format: x", "Source:", "Package:\n", "Types:"]),
                    [(js["ext"]["TypesSet"], "")])
    return cases

def small_cases(tier, rng, prefix="s"):
    """exhaustive-small: every arrangement of up to 3 (thorough 4) paragraphs over the kind's roles plus
    a paragraph of neither role; every presence pattern of the first optional fields"""
    reset()
    cases = []
    n = 4 if tier == "thorough" else 3
    simple = {"DStr": ["x"], "DSplitWs": ["a b"], "DSplitNl": ["a", "b"], "DLines": ["a", "b"], "DBool": ["true"], "DYesNo": ["yes"]}
    def simple_para(kind, st, mask=None, optidx=()):
        fields, uses = [], []
        for i, f in enumerate(st["fields"]):
            if f["optional"] and not (mask is not None and i in optidx and mask[optidx.index(i)]):
                continue
            de = f["de"]
            if de in simple: ls = simple[de]
            elif de.startswith("DNum") or de.startswith("DInt"): ls = ["7"]
            else:
                ls, u = field_lines(rng, f, kind); uses += u
            fields.append((f["key"], list(ls)))
        return fields, uses
    for kind in KINDS:
        rs = role_structs(kind)
        letters = list(rs.keys()) + ["N"]
        for k in range(0, n + 1):
            for roles in itertools.product(letters, repeat=k):
                paras, uses = [], []
                for r in roles:
                    if r == "N":
                        paras.append([("X-Neither", ["v"])])
                    else:
                        p, u = simple_para(kind, rs[r]); paras.append(p); uses += u
                text = doc_text(rng, paras, True)
                cases.append(case(f"{prefix}{len(cases)}", kind, text, uses, False))
        for r, st in rs.items():
            opt = [i for i, f in enumerate(st["fields"]) if f["optional"]][:{"quick": 5, "search": 5, "thorough": 9}[tier]]
            for mask in itertools.product([0, 1], repeat=len(opt)):
                base = {"control": ["S"], "copyright": ["H"], "repositories": []}.get(kind, [])
                paras, uses = [], []
                for rr in base:
                    if rr != r:
                        p, u = simple_para(kind, rs[rr]); paras.append(p); uses += u
                p, u = simple_para(kind, st, mask, opt)
                if r in ("S", "H"): paras.insert(0, p)
                else: paras.append(p)
                uses += u
                cases.append(case(f"{prefix}{len(cases)}", kind, doc_text(rng, paras, True), uses, True))
    return cases
