"""Generators for the C16 cone (derive macro expansion).  Every random choice derives from the rng
handed in.  The struct tables come from coq/gen/structs.json, which translate/structs.py rewrites
from the Rust sources on every run."""
import itertools, json, os
from .core import hexs, VERIF

ENVMAP_SHIPPED = [("", ""), ("A=1\n", "A=1\n"), ("A=1", "A=1\n"), ("LANG=C.UTF-8\nPATH=/usr/bin:/bin\n", "LANG=C.UTF-8\nPATH=/usr/bin:/bin\n"),
                  ("A=b=c\n", "A=b=c\n"), ("novalue", None), ("A=1\nB\n", None)]
# after proposed_fixes/C20-buildinfo-environment-serializer.patch: entries joined by "\n", no final line end
ENVMAP_JOINED = [("", ""), ("A=1\n", "A=1"), ("A=1", "A=1"), ("LANG=C.UTF-8\nPATH=/usr/bin:/bin\n", "LANG=C.UTF-8\nPATH=/usr/bin:/bin"),
                 ("LANG=C.UTF-8\nPATH=/usr/bin:/bin", "LANG=C.UTF-8\nPATH=/usr/bin:/bin"), ("A=b=c\n", "A=b=c"), ("A=b=c", "A=b=c"),
                 ("novalue", None), ("A=1\nB\n", None)]

def env_serializer_variant():
    """which serialize_env the tree has (read from the source, like the Signature flag of the translator)"""
    from .core import REPO
    import re
    try:
        src = open(os.path.join(REPO, "debian-control", "src", "lossy", "buildinfo.rs"), encoding="utf-8").read()
    except OSError:
        return "shipped"
    m = re.search(r"fn serialize_env.*?\n}\n", src, re.S)
    return "shipped" if m and '"{}={}\\n"' in m.group(0) else "joined"

def load_structs():
    with open(os.path.join(VERIF, "coq", "gen", "structs.json"), encoding="utf-8") as f:
        js = json.load(f)
    EXT_POOL["EnvMap"] = ENVMAP_SHIPPED if env_serializer_variant() == "shipped" else ENVMAP_JOINED
    # apt-sources Signature: the expectations depend on which FromStr the tree has (translator flag)
    if js.get("flags", {}).get("sig_keyblock") == "strip":
        EXT_POOL["Signature"] = SIGNATURE_STRIP
        EXT_NEXT.pop("Signature", None)
    else:
        EXT_POOL["Signature"] = SIGNATURE_KEEP
        EXT_NEXT["Signature"] = lambda s: "\n" + s if "\n" in s else s
    return js

# ---------------------------------------------------------------------------------------------
# External codecs: (text, canonical text or None when the parser rejects it).  The model's
# external parser is the table built from these entries (case field 3); the real functions
# are run by the harness, so every entry below is re-validated on every run.
EXT_POOL = {
    "Version": [("1.0-1", "1.0-1"), ("1:2.3~rc1+dfsg-4", "1:2.3~rc1+dfsg-4"), ("0", "0"), ("2.0", "2.0"),
                ("", None), ("a b", None), ("1.0-", "1.0-"), ("1:", "1:"), ("-1", "-1"), ("1 2", None), ("é", None)],
    "Url": [("https://example.com/", "https://example.com/"), ("https://example.com", "https://example.com/"),
            ("http://x.org/a?b=c#d", "http://x.org/a?b=c#d"), ("HTTP://EXAMPLE.com/A", "http://example.com/A"),
            ("", None), ("not a url", None), ("//x", None)],
    "Relations": [("a", "a"), ("a (>= 1.0), b | c", "a (>= 1.0), b | c"), ("a,b", "a, b"), ("", ""),
                  ("libc6 (>= 2.34) [amd64]", "libc6 (>= 2.34) [amd64]"), ("a (", None), ("a (>= )", None)],
    "Priority": [("required", "required"), ("important", "important"), ("standard", "standard"), ("optional", "optional"),
                 ("extra", "extra"), ("Optional", None), ("", None), ("optional ", None)],
    "MultiArch": [("same", "same"), ("foreign", "foreign"), ("no", "no"), ("allowed", "allowed"), ("yes", None), ("", None)],
    "License": [("GPL-3+", "GPL-3+"), ("", ""), ("GPL-3+\ntext line\n more", "GPL-3+\ntext line\n more"),
                ("\njust text", "\njust text"), ("MIT\n", "MIT\n")],
    "Signature": [],   # filled in by load_structs
    "YesNoForce": [("yes", "yes"), ("no", "no"), ("force", "force"), ("Force", None), ("", None)],
    "Forwarded": [("no", "no"), ("not-needed", "not-needed"), ("https://bugs.example/1", "https://bugs.example/1"), ("", "")],
    "AppliedUpstream": [("commit:abc123", "commit:abc123"), ("2.0", "2.0"), ("", ""), ("commit:", "commit:")],
    "ParsedVcs": [("https://salsa.debian.org/x/y.git", "https://salsa.debian.org/x/y.git"),
                  ("https://x/y.git -b main", "https://x/y.git -b main"),
                  ("https://x/y.git -b main [sub/dir]", "https://x/y.git -b main [sub/dir]"),
                  ("https://x/y.git [sub]", "https://x/y.git [sub]"),
                  ("  https://x/y.git  ", "https://x/y.git"), ("", ""),
                  ("https://x/y.git [sub] -b main", "https://x/y.git -b main [sub]")],
    "EnvMap": [("", ""), ("A=1\n", "A=1\n"), ("A=1", "A=1\n"), ("LANG=C.UTF-8\nPATH=/usr/bin:/bin\n", "LANG=C.UTF-8\nPATH=/usr/bin:/bin\n"),
               ("A=b=c\n", "A=b=c\n"), ("novalue", None), ("A=1\nB\n", None)],
    "TypesSet": [("deb", "deb"), ("deb-src", "deb-src"), ("deb deb-src", "deb\ndeb-src"), ("deb-src\ndeb", "deb\ndeb-src"),
                 ("deb deb", "deb"), ("", ""), ("rpm", None), ("deb rpm", None)],
    "UrlList": [("https://deb.debian.org/debian", "https://deb.debian.org/debian"),
                ("http://a.example/x  http://b.example/", "http://a.example/x http://b.example/"),
                ("https://example.com", "https://example.com/"), ("", ""), ("nope", None), ("http://a.example/ nope", None)],
    "NaiveDate": [("2024-02-29", "2024-02-29"), ("1999-12-31", "1999-12-31"), ("2024-2-9", "2024-02-09"),
                  ("2023-02-29", None), ("", None), ("yesterday", None), ("2024-02-29 ", None)],
    "Origin": [("upstream, https://x/1", "upstream, https://x/1"), ("backport, commit:abc", "backport, commit:abc"),
               ("vendor", "vendor, "), ("commit:abc", "commit:abc"), ("https://x", "https://x"), ("", ""), ("other, x", "other, x")],
}

# what the canonical text itself parses-and-prints to, where that is not the text again
# (apt-sources Signature before the proposed fix: Display writes "\n" + block, FromStr keeps everything:
# one more LF per round)
EXT_NEXT = {}
KEYBLOCK = "-----BEGIN PGP PUBLIC KEY BLOCK-----\n.\nabc\n-----END PGP PUBLIC KEY BLOCK-----"
SIGNATURE_KEEP = [("/usr/share/keyrings/debian.gpg", "/usr/share/keyrings/debian.gpg"), ("", ""),
                  ("\n" + KEYBLOCK, "\n\n" + KEYBLOCK), ("\n\n" + KEYBLOCK, "\n\n\n" + KEYBLOCK), ("a\nb", "\na\nb")]
SIGNATURE_STRIP = [("/usr/share/keyrings/debian.gpg", "/usr/share/keyrings/debian.gpg"), ("", ""),
                   ("\n" + KEYBLOCK, "\n" + KEYBLOCK), ("\n\n" + KEYBLOCK, "\n\n" + KEYBLOCK), ("a\nb", "\na\nb"), ("\nx", "\nx")]

# ---------------------------------------------------------------------------------------------
# values of the modelled codecs: (text, accepted?)
def str_value(rng):
    from .gen_lossy import cvalue
    k = rng.random()
    if k < 0.55: return rng.choice(["x", "hello", "1.0", "a b", "foo (>= 1)", "é中", "https://x/", "yes", "true", "no"])
    if k < 0.85: return cvalue(rng)
    return rng.choice(["", " ", "a\n", "\n", "a\n\nb", "a\n#b", "a\rb", " lead", "trail ", "a\r\nb", "\t", "a\n b"])

GOOD = {
    "DStr": None,
    "DBool": ["true", "false"],
    "DYesNo": ["yes", "no"],
    "DJa": ["ja", "nee", "x", ""],
    "DNum 64": ["0", "1", "42", "007", "+5", "18446744073709551615", "4294967296"],
    "DNum 32": ["0", "1", "42", "007", "+5", "4294967295"],
    "DNum 16": ["0", "65535"], "DNum 8": ["0", "255"],
    "DInt 32": ["0", "-1", "42", "-0", "+7", "2147483647", "-2147483648"],
    "DInt 64": ["0", "-1", "9223372036854775807", "-9223372036854775808"],
    "DSplitWs": ["a", "a b", "main contrib non-free", "", "  a \t b\n c ", "amd64 arm64", "a b", " x"],
    "DSplitNl": ["a", "a\nb", "", "*", "debian/*\nsrc/x", "a\n", "\n", "a\n\nb", "2019 John Doe\n2020 Jane", "a\r\nb"],
    "DSplitNlE": ["a", "a\nb", "", "*", "a\n", "\n", "a\n\nb", "2019 John Doe\n2020 Jane", "a\r\nb"],
    "DLines": ["a", "a\nb", "", "a\n", "a\r\nb", "a\n\nb", "\n", "a\r", "x y\nz"],
}
BAD = {
    "DBool": ["True", "yes", "", "1", " true", "false\n"],
    "DYesNo": ["Yes", "true", "", "yes ", "y", "no\n"],
    "DNum 64": ["", "-1", "1.0", "18446744073709551616", "+", "1 ", " 1", "a", "0x10", "１", "-0", "++1"],
    "DNum 32": ["", "-1", "4294967296", "+", "1e3", "١", "-0"],
    "DNum 16": ["65536", ""], "DNum 8": ["256", ""],
    "DInt 32": ["", "-", "+", "2147483648", "-2147483649", "1.5", "--1", "+-1", " 1"],
    "DInt 64": ["", "9223372036854775808"],
}

def ext_name(structs, codec):
    """'DExt 3' -> 'Relations'"""
    n = int(codec.split()[1])
    for name, i in structs["ext"].items():
        if i == n: return name
    return None

# Codecs the runner computes from their Coq models (model/DeriveExt.v): besides the pool entries (whose
# expectations the oracle uses) they get free-form texts with no table entry — correspondence only.
MODELLED = {"Version", "Relations", "Priority", "MultiArch", "License", "Signature", "YesNoForce", "Forwarded",
            "AppliedUpstream", "ParsedVcs", "EnvMap", "TypesSet", "Origin"}
def free_text(rng, name):
    from . import gen
    if name == "Relations":
        t, _ = gen.gen_rel_field(rng, substvars=False, ws=rng.random() < 0.5)
        return t if rng.random() < 0.8 else gen.mutate(rng, t, gen.REL_ALPHABET)
    if name == "Version":
        return rng.choice(["", "1", "1.0", "1.0-1", "2:1.0-1", "1-2-3", "1:2:3", "a", "1.0~rc1", "0:0", "4294967296:1", "1.0-", "-", ":", "1 ", "1.0_x",
                           "01:1", "1:"]) if rng.random() < 0.6 else "".join(rng.choice("01a.+-:~ ") for _ in range(rng.choice([1, 2, 4, 7])))
    if name == "ParsedVcs":
        parts = [rng.choice(["https://x/y.git", "u", "", " u", "u [a]", "u -b v"])]
        for _ in range(rng.choice([0, 1, 1, 2, 3])):
            parts.append(rng.choice([" -b main", " -b ", " [sub]", " [a b]", " []", " [a]]", " -b x y", "-b z", " [p/q]", "  ", " -b [b]"]))
        return "".join(parts)
    if name == "EnvMap":
        n = rng.choice([0, 1, 2, 3, 5])
        ls = [rng.choice(["A", "B", "PATH", "LANG", "Z", "a", ""]) + rng.choice(["=", "=", "=", ""]) + rng.choice(["1", "", "x=y", "/usr/bin:/bin", "é", "a b"]) for _ in range(n)]
        return rng.choice(["\n", "\r\n"] if rng.random() < 0.1 else ["\n"]).join(ls) + rng.choice(["", "", "\n", "\n\n"])
    if name == "TypesSet":
        return rng.choice([" ", "\n", "\t", "  "]).join(rng.choice(["deb", "deb-src", "deb", "Deb", "rpm", ""]) for _ in range(rng.choice([0, 1, 2, 3, 4])))
    if name == "License":
        return rng.choice(["", "GPL-2+", "\n", "\ntext", "MIT\n", "MIT\nline 1\n .\n line 3", "a\n\nb", "\n\n", "Expat and GPL-2"])
    if name == "Signature":
        return rng.choice(["", "/a/b.gpg", "\n", "\nkey", "a\nb", "\n\nkey", "key\n", " x"])
    if name == "Origin":
        return rng.choice(["", "upstream", "upstream, ", "upstream, commit:1", "vendor,x", "other, other, y", "commit:", "commit:ab, cd", "Upstream, x",
                           "backport, ", ", x", "upstream,  x", "x, upstream"])
    if name == "Forwarded":
        return rng.choice(["no", "not-needed", "yes", "No", "", "no ", "https://x"])
    if name == "AppliedUpstream":
        return rng.choice(["commit:", "commit:1", "1.0", "", "Commit:1", " commit:1", "commit: 1"])
    return rng.choice(["required", "same", "yes", "no", "force", "extra", "allowed", "Foreign", "optional", "", "important "])

def field_value(rng, structs, f, want_ok=True):
    """-> (text, table entries [(id, raw, canon|None)])"""
    de = f["de"]
    if de.startswith("DExt"):
        name = ext_name(structs, de); i = int(de.split()[1])
        if name in MODELLED and rng.random() < 0.35:
            return free_text(rng, name), []
        pool = EXT_POOL[name]
        cands = [e for e in pool if (e[1] is not None) == want_ok] or pool
        raw, canon = rng.choice(cands)
        ents = [(i, raw, canon)]
        if canon is not None and canon != raw:
            nxt = EXT_NEXT[name](canon) if name in EXT_NEXT else dict(pool).get(canon, canon)
            ents.append((i, canon, nxt))
        return raw, ents
    if de == "DStr":
        return str_value(rng), []
    if de == "DUnrecognised":
        return "x", []
    if want_ok or de not in BAD:
        return rng.choice(GOOD[de]), []
    return rng.choice(BAD[de]), []

def enc_items(items):
    return ",".join(hexs(k) + "=" + hexs(v) for k, v in items) if items else "-"
def enc_table(ents):
    seen, out = set(), []
    for i, raw, canon in ents:
        if (i, raw) in seen: continue
        seen.add((i, raw))
        out.append(f"{i}:{hexs(raw)}:{hexs(canon) if canon is not None else '-'}")
    return ",".join(out) if out else "-"

def unordered_keys(structs, st):
    un = {structs["ext"][n] for n in structs["unordered"]}
    ks = [f["key"] for f in st["fields"] if any(c.startswith(("SExt", "DExt")) and int(c.split()[1]) in un for c in (f["ser"], f["de"]))]
    return ",".join(hexs(k) for k in ks) if ks else "-"

FOREIGN = ["X-Foreign", "Zz", "x-other", "Comment-2", "bar2"]

def prior_text(rng, st, structs, mode):
    """a paragraph text to update: foreign fields, some owned fields (stale values), comments, odd layout"""
    if mode == "none":
        return None
    lines = []
    keys = [f["key"] for f in st["fields"]]
    n = rng.choice([1, 2, 3, 5])
    pool = []
    for _ in range(n):
        r = rng.random()
        if r < 0.45: pool.append(rng.choice(FOREIGN))
        else: pool.append(rng.choice(keys))
    if mode == "dup" and pool:
        pool.append(rng.choice(pool)); pool.append(rng.choice(keys))
    rng.shuffle(pool)
    if not any(k in FOREIGN for k in pool): pool.insert(rng.randrange(len(pool) + 1), rng.choice(FOREIGN))
    for k in pool:
        if mode in ("comments", "dup") and rng.random() < 0.3:
            lines.append("# " + rng.choice(["comment", "note: x", "", "Source: not a field"]))
        sep = rng.choice([": ", ": ", ":", ":  ", ":\t"])
        v = rng.choice(["old", "1", "yes", "stale value", "a b c", "x\n y", "x\n  y\n z", "", "true"])
        first, *rest = v.split("\n")
        lines.append(k + sep + first)
        for c in rest:
            lines.append((c if c[:1] in " \t" else " " + c))
            if mode == "comments" and rng.random() < 0.2:
                lines.append("# inside")
    if mode == "comments" and rng.random() < 0.3:
        lines.append("# trailing comment")
    text = "\n".join(lines) + "\n"
    if mode == "nofinal" or (mode != "plain" and rng.random() < 0.1):
        text = text[:-1]
    return text

def struct_case(rng, structs, st, cid, prior_mode="comments", break_it=None):
    """one case of the `derive` stream.  break_it: None | 'missing' | 'invalid' | 'dupsrc' | 'case'"""
    items, ents = [], []
    fields = st["fields"]
    victim = rng.randrange(len(fields)) if break_it else None
    if break_it == "missing":
        mand = [i for i, f in enumerate(fields) if not f["optional"]]
        if mand: victim = rng.choice(mand)
    if break_it == "invalid":
        fall = [i for i, f in enumerate(fields) if f["de"] in BAD or f["de"].startswith("DExt")]
        if fall: victim = rng.choice(fall)
    p_opt = rng.choice([0.0, 0.3, 0.5, 0.8, 1.0])
    for i, f in enumerate(fields):
        present = (not f["optional"]) or rng.random() < p_opt
        if break_it == "missing" and i == victim:
            continue
        if break_it == "invalid" and i == victim:
            v, e = field_value(rng, structs, f, want_ok=False)
            items.append((f["key"], v)); ents += e
            continue
        if not present:
            continue
        v, e = field_value(rng, structs, f)
        key = f["key"]
        if break_it == "case" and i == victim:
            key = key.swapcase() if key.swapcase() != key else key + "x"
        items.append((key, v)); ents += e
        if break_it == "dupsrc" and i == victim:
            v2, e2 = field_value(rng, structs, f)
            items.append((f["key"], v2)); ents += e2
    if break_it is None and rng.random() < 0.3:
        rng.shuffle(items)                       # the order of the source paragraph does not matter
    if rng.random() < 0.3:
        items.insert(rng.randrange(len(items) + 1), (rng.choice(FOREIGN), "foreign"))
    prior = prior_text(rng, st, structs, prior_mode)
    clr = "-"
    if break_it is None and st.get("clearable") and rng.random() < 0.15:
        ks = [k for k in st["clearable"] if rng.random() < 0.6] or [rng.choice(st["clearable"])]
        clr = ",".join(hexs(k) for k in ks)
    return (cid, [st["id"], enc_items(items), hexs(prior) if prior is not None else "-", enc_table(ents), unordered_keys(structs, st), clr])

def derive_cases(tier, rng, prefix="d"):
    structs = load_structs()
    per = {"quick": 500, "search": 1200, "thorough": 30000}[tier]
    cases = []
    modes = ["none", "plain", "comments", "comments", "dup", "nofinal"]
    for st in structs["structs"]:
        # exhaustive-small: every subset of up to 4 optional fields present/absent, others absent
        opt = [i for i, f in enumerate(st["fields"]) if f["optional"]][:4]
        for mask in itertools.product([0, 1], repeat=len(opt)):
            items, ents = [], []
            for i, f in enumerate(st["fields"]):
                if f["optional"] and not (i in opt and mask[opt.index(i)]):
                    continue
                v, e = field_value(rng, structs, f)
                items.append((f["key"], v)); ents += e
            prior = prior_text(rng, st, structs, "comments")
            cases.append((f"{prefix}x{len(cases)}", [st["id"], enc_items(items), hexs(prior), enc_table(ents), unordered_keys(structs, st)]))
        # every list field the harness can reach, emptied (alone, and all together), with and without a prior paragraph
        cl = st.get("clearable") or []
        for ks in [[k] for k in cl] + ([cl] if len(cl) > 1 else []):
            for mode in ("none", "comments"):
                items, ents = [], []
                for f in st["fields"]:
                    v, e = field_value(rng, structs, f)
                    items.append((f["key"], v)); ents += e
                prior = prior_text(rng, st, structs, mode)
                cases.append((f"{prefix}c{len(cases)}", [st["id"], enc_items(items), hexs(prior) if prior is not None else "-", enc_table(ents),
                                                        unordered_keys(structs, st), ",".join(hexs(k) for k in ks)]))
        for j in range(per):
            cases.append(struct_case(rng, structs, st, f"{prefix}{len(cases)}", prior_mode=modes[j % len(modes)]))
    return cases

def malformed_cases(tier, rng, prefix="m"):
    structs = load_structs()
    per = {"quick": 120, "search": 300, "thorough": 6000}[tier]
    cases = []
    kinds = ["missing", "invalid", "invalid", "dupsrc", "case"]
    for st in structs["structs"]:
        # every single mandatory field missing; an empty source paragraph
        for i, f in enumerate(st["fields"]):
            if not f["optional"]:
                items, ents = [], []
                for j, g in enumerate(st["fields"]):
                    if j == i: continue
                    v, e = field_value(rng, structs, g)
                    items.append((g["key"], v)); ents += e
                cases.append((f"{prefix}e{len(cases)}", [st["id"], enc_items(items), "-", enc_table(ents), unordered_keys(structs, st)]))
        cases.append((f"{prefix}e{len(cases)}", [st["id"], "-", "-", "-", unordered_keys(structs, st)]))
        for j in range(per):
            cases.append(struct_case(rng, structs, st, f"{prefix}{len(cases)}", prior_mode="none", break_it=kinds[j % len(kinds)]))
    return cases

# ---------------------------------------------------------------------------------------------
NUM_ALPHA = ["0", "1", "9", "+", "-", " ", "a", "٣"]
def codec_cases(tier, rng, prefix="k"):
    cases = []
    def add(kind, s):
        cases.append((f"{prefix}{len(cases)}", [kind, hexs(s)]))
    n = {"quick": 4, "search": 4, "thorough": 6}[tier]
    for k in range(0, n + 1):
        for tup in itertools.product(NUM_ALPHA, repeat=k):
            s = "".join(tup)
            for kind in ("u32", "i32"):
                add(kind, s)
    edge = ["255", "256", "65535", "65536", "4294967295", "4294967296", "18446744073709551615", "18446744073709551616",
            "2147483647", "2147483648", "-2147483648", "-2147483649", "9223372036854775807", "9223372036854775808",
            "-9223372036854775808", "-9223372036854775809", "00000000000000000000000001", "+0", "-0", "99999999999999999999999999"]
    for s in edge:
        for kind in ("u8", "u16", "u32", "u64", "i32", "i64"):
            add(kind, s)
    ws_alpha = ["a", "b", " ", "\t", "\n", "\r", " ", " ", "​", "\u0085", "\x0b", "\x0c", "\x1c"]
    m = {"quick": 4, "search": 4, "thorough": 6}[tier]
    for k in range(0, m + 1):
        for tup in itertools.product(ws_alpha[:7], repeat=k):
            add("ws", "".join(tup))
    for _ in range({"quick": 2000, "search": 4000, "thorough": 40000}[tier]):
        s = "".join(rng.choice(ws_alpha) for _ in range(rng.choice([1, 3, 6, 12])))
        add(rng.choice(["ws", "nl", "lines"]), s)
    nl_alpha = ["a", "\n", "\r", " "]
    for k in range(0, 6 if tier != "thorough" else 8):
        for tup in itertools.product(nl_alpha, repeat=k):
            add("nl", "".join(tup)); add("lines", "".join(tup))
    return cases
