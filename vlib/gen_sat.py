"""Case generators and the independent reference for C12 (dependency satisfaction, Debian
version ordering).  Every random choice derives from the rng handed in.

The reference below is a third implementation, written from dpkg's lib/dpkg/version.c
(order / verrevcmp / dpkg_version_compare) and from the version regex of the debversion crate;
it is used by the property oracle only (vlib/props/c12.py), never by the model."""
import itertools, re
from .core import hexs
from . import gen

I32_MAX = 2**31 - 1
U32_MAX = 2**32 - 1
OPS = [">=", "<=", "=", ">>", "<<"]
BAD_OPS = [">", "<", "", "==", "<>", "=>", "=<", ">>=", "<<<", "><"]

# ---------------------------------------------------------------- reference

VERSION_RE = re.compile(r"^(?:(\d+):)?([A-Za-z0-9.+:~-]+?)(?:-([A-Za-z0-9+.~]+))?\Z")

def ref_parse(text):
    """(epoch|None, upstream, revision|None) or None"""
    m = VERSION_RE.match(text)
    if not m:
        return None
    e, u, r = m.group(1), m.group(2), m.group(3)
    if e is not None:
        if not e.isascii():
            return None
        e = int(e)
        if e > U32_MAX:
            return None
    return (e, u, r if r else None)

def _order(c):
    if c.isdigit() and c.isascii(): return 0
    if c.isalpha() and c.isascii(): return ord(c)
    if c == "~": return -1
    return ord(c) + 256

def verrevcmp(a, b):
    """dpkg's verrevcmp, character for character"""
    i = j = 0
    while i < len(a) or j < len(b):
        first_diff = 0
        while (i < len(a) and not (a[i].isascii() and a[i].isdigit())) or (j < len(b) and not (b[j].isascii() and b[j].isdigit())):
            ac = _order(a[i]) if i < len(a) else 0
            bc = _order(b[j]) if j < len(b) else 0
            if ac != bc:
                return ac - bc
            i += 1; j += 1
        while i < len(a) and a[i] == "0": i += 1
        while j < len(b) and b[j] == "0": j += 1
        while i < len(a) and a[i].isdigit() and j < len(b) and b[j].isdigit():
            if not first_diff:
                first_diff = ord(a[i]) - ord(b[j])
            i += 1; j += 1
        if i < len(a) and a[i].isdigit(): return 1
        if j < len(b) and b[j].isdigit(): return -1
        if first_diff: return first_diff
    return 0

def ref_cmp(pa, pb):
    """-1/0/1 on parsed versions, dpkg_version_compare (absent revision = empty string)"""
    ea, eb = pa[0] or 0, pb[0] or 0
    if ea != eb:
        return -1 if ea < eb else 1
    r = verrevcmp(pa[1], pb[1])
    if r == 0:
        r = verrevcmp(pa[2] or "", pb[2] or "")
    return (r > 0) - (r < 0)

def ref_cmp_text(a, b):
    return ref_cmp(ref_parse(a), ref_parse(b))

def has_big_run(text):
    return any(int(d) > I32_MAX for d in re.findall(r"[0-9]+", text))

def _runs(s):
    """alternating (non-digit run, digit run) pairs of a version component, as debversion walks it"""
    out = []; i = 0
    while i < len(s):
        j = i
        while j < len(s) and not (s[j].isascii() and s[j].isdigit()): j += 1
        k = j
        while k < len(s) and s[k].isascii() and s[k].isdigit(): k += 1
        out.append((s[i:j], s[j:k])); i = k
    return out

def _part_panics(a, b):
    """does debversion 0.4.4's version_cmp_part(a, b) reach a digit run above i32::MAX?
    None = no (with the comparison result: True = decided / equal), walks chunk by chunk"""
    ra, rb = _runs(a), _runs(b)
    for i in range(max(len(ra), len(rb))):
        na, da = ra[i] if i < len(ra) else ("", "")
        nb, db = rb[i] if i < len(rb) else ("", "")
        if verrevcmp(na, nb) != 0:
            return (False, False)            # decided on the non-digit run: no panic, not equal
        if (da and int(da) > I32_MAX) or (db and int(db) > I32_MAX):
            return (True, False)
        if int(da or "0") != int(db or "0"):
            return (False, False)
    return (False, True)

def cmp_panics(a_text, b_text):
    """debversion 0.4.4: does comparing these two version texts panic (i32 digit run REACHED)?"""
    pa, pb = ref_parse(a_text), ref_parse(b_text)
    if pa is None or pb is None:
        return False
    if (pa[0] or 0) != (pb[0] or 0):
        return False
    panics, equal = _part_panics(pa[1], pb[1])
    if panics: return True
    if not equal: return False
    return _part_panics(pa[2] or "0", pb[2] or "0")[0]

REL_VER_RE = re.compile(r"([A-Za-z0-9.+~-]+)\s*(?::\s*[A-Za-z0-9.+~-]+)?\s*\(\s*([<>=]*)\s*([A-Za-z0-9.+~:-]+)\s*\)")
def i32_pair_in_text(text):
    """impl Ord for Relation compares two versions only when the names and the operators are equal:
    is there such a pair of alternatives in the text whose comparison reaches a digit run above i32::MAX?
    (used by C13: which pairs a sort compares is the algorithm's business)"""
    text = re.sub(r"(?m)^[A-Za-z][A-Za-z0-9-]*:(?=\s)", "", text)      # field names of a control file
    alts = [(m.group(1), m.group(2), m.group(3)) for m in REL_VER_RE.finditer(text)]
    for i in range(len(alts)):
        for j in range(i + 1, len(alts)):
            a, b = alts[i], alts[j]
            if a[0] == b[0] and a[1] == b[1] and (cmp_panics(a[2], b[2]) or cmp_panics(b[2], a[2])):
                return True
    return False

def unreadable_version_in_text(text):
    """an alternative whose version text debversion rejects (epoch above u32::MAX)"""
    return any(ref_parse(m.group(3)) is None for m in REL_VER_RE.finditer(text))

def panic_reason(struct, lookup, lossless_text):
    """Walks a field the way the evaluators do (all over entries, any over alternatives, both
    short-circuiting) and says why the first panic happens, if one does:
      'op'     lossless, field read from text: the operator is none of the five (Relation::version unwraps)
      'epoch'  lossless, field read from text: debversion rejects the version text (epoch above u32::MAX)
      'i32'    any evaluator: the comparison reaches a digit run above i32::MAX (debversion 0.4.4)
    [lossless_text] = the evaluator is the lossless one on a tree the reader produced (only there can
    an unreadable operator or version exist)."""
    for e in struct:
        sat = False
        for (name, ver) in e:
            inst = lookup(name)
            if ver is not None:
                if ver[0] not in OPS:
                    return "op" if lossless_text else "untyped"
                if ref_parse(ver[1]) is None:
                    return "epoch" if lossless_text else "untyped"
                if inst is None:
                    continue
                if cmp_panics(inst, ver[1]):
                    return "i32"
                if op_holds(ver[0], ref_cmp_text(inst, ver[1])):
                    sat = True; break
            elif inst is not None:
                sat = True; break
        if not sat:
            return None
    return None

ALT_RE = re.compile(r"^\s*([A-Za-z0-9.+~-]+)\s*(?::\s*[A-Za-z0-9.+~-]+)?\s*(?:\(\s*([<>=]*)\s*([A-Za-z0-9.+~:-]+)\s*\))?")
def struct_of_text(text):
    """names / operators / version texts of a field the strict reader accepted, in order; None when the
    text does not have that shape (used only to classify a panic)"""
    struct = []
    for ent in text.split(","):
        if ent.strip(" \t\r\n") == "":
            continue
        alts = []
        for alt in ent.split("|"):
            m = ALT_RE.match(alt)
            if not m: return None
            alts.append((m.group(1), None if m.group(3) is None else (m.group(2), m.group(3))))
        struct.append(alts)
    return struct

def op_holds(op, c):
    return {"<<": c < 0, "<=": c <= 0, "=": c == 0, ">=": c >= 0, ">>": c > 0}[op]

def ref_satisfied(struct, lookup):
    """struct: [[(name, None | (op, ver))]]; lookup: name -> version text or None"""
    def rel_ok(r):
        name, ver = r
        inst = lookup(name)
        if inst is None: return False
        if ver is None: return True
        return op_holds(ver[0], ref_cmp_text(inst, ver[1]))
    return all(any(rel_ok(r) for r in e) for e in struct)

def last_binding(assignment):
    def f(name):
        out = None
        for k, v in assignment:
            if k == name: out = v
        return out
    return f

# ---------------------------------------------------------------- encodings

def enc_struct(struct):
    if not struct: return "-"
    def alt(r):
        n, v = r
        return hexs(n) if v is None else hexs(n) + ":" + hexs(v[0]) + ":" + hexs(v[1])
    return ";".join(",".join(alt(r) for r in e) for e in struct)

def dec_struct(s):
    from .core import unhex
    if s == "-": return []
    out = []
    for e in s.split(";"):
        alts = []
        if e:
            for a in e.split(","):
                p = a.split(":")
                alts.append((unhex(p[0]), None) if len(p) == 1 else (unhex(p[0]), (unhex(p[1]), unhex(p[2]))))
        out.append(alts)
    return out

def enc_assignment(asg):
    return ",".join(hexs(k) + ":" + hexs(v) for k, v in asg) if asg else "-"

def dec_assignment(s):
    from .core import unhex
    if s == "-": return []
    return [tuple(unhex(x) for x in kv.split(":")) for kv in s.split(",")]

def enc_probes(ps):
    return ",".join(hexs(p) for p in ps) if ps else "-"

def render(struct):
    """canonical text (the lossy printer's layout); None if an entry has no alternative"""
    if any(not e for e in struct): return None
    def alt(r):
        n, v = r
        if v is None: return n
        return f"{n} ({v[0]} {v[1]})" if v[0] != "" else f"{n} ({v[1]})"
    return ", ".join(" | ".join(alt(r) for r in e) for e in struct)

def sat_case(cid, struct, asg, probes=None, text="render"):
    if text == "render":
        text = render(struct)
    if probes is None:
        probes = list(dict.fromkeys([r[0] for e in struct for r in e] + [k for k, _ in asg] + ["zz-absent"]))
    return (cid, ["!" if text is None else hexs(text), enc_struct(struct), enc_assignment(asg), enc_probes(probes)])

# ---------------------------------------------------------------- versions

VER_CORPUS = [
    "1", "1.0", "1.0-1", "1.0-0", "1.00", "01.0", "1.0~rc1", "1.0~rc1-1", "1.0~~", "1.0~", "1.0+b1", "1.0-1+b1",
    "1.0-1~bpo12+1", "2.0", "0.9", "0", "00", "0~", "~", "~~", "~a", "a", "A", "Z", "a~", "+", ".", "-", "1a", "1A", "1+", "1.",
    "1-", "1-1", "1--1", "1-1-1", "1.2.3-4.5", "1:0", "0:1.0", "1:1.0", "2:0.1", "1:", "1:2:3", "a:1", "1:a", "1.0.0", "1.0.",
    "1.10", "1.9", "1.09", "2.4.7-1", "2.4.7-z", "1.0a", "1.0+", "1.0a~", "1.0+dfsg-2~bpo1", "0.19.0+dfsg-2~bpo1",
    "9999999999:1", "4294967295:1", "4294967296:1", "2147483647", "1.2147483647", "4294967295:0~", "7.6p2-4", "3.0~rc1+dfsg-1",
    "20240101", "0~20240101", "1.0-1.1", "1.0-1.", "1.0-.1", "1.0-~1", "1.0-a", "1.0-+", "1.0-00", "1.0-01",
]
VER_BAD = ["", " ", "1 0", "1_0", "1/0", "é", "1.0é", "-", ":", "1:", ":1", "1:-", "1.0-", "a b", "1.0\n", "\n1.0", "١", "١:1", "1:١"]
VER_UNREADABLE = ["4294967296:1", "9999999999:1.0-1", "99999999999999999999:0"]   # lexable, but no debversion::Version
VER_BIG = ["2147483648", "1.2147483648", "0~20240101123456", "1.0-20240101123456", "99999999999999999999", "1.02147483648", "1.000000000002147483647"]

PIECES = ["0", "1", "2", "9", "10", "09", "007", "123", "2147483647", "a", "b", "z", "A", "rc", "dfsg", "~", "~~", "+", ".", ".", ".", "-", ":"]
def gen_component(rng, rev=False):
    n = rng.choice([1, 1, 2, 3, 4, 6])
    out = ""
    for i in range(n):
        p = rng.choice(PIECES)
        if rev and p in ("-", ":"): p = "."
        out += p
    if not rev and not out[0].isdigit() and rng.random() < 0.8:
        out = rng.choice("0123") + out
    return out

def gen_version(rng):
    if rng.random() < 0.15:
        return rng.choice(VER_CORPUS)
    e = rng.choice(["", "", "", "0:", "1:", "2:", "01:", "4294967295:"])
    u = gen_component(rng)
    r = rng.choice(["", "", "-" + gen_component(rng, rev=True)])
    return e + u + r

def mutate_version(rng, v):
    k = rng.choice(["same", "tilde", "plus", "rev", "zero", "bump", "epoch", "edit", "edit"])
    if k == "same": return v
    if k == "tilde": return v + "~"
    if k == "plus": return v + rng.choice(["+", "+b1", "a", ".1"])
    if k == "rev": return v + "-" + rng.choice(["0", "1", "~1", "00"])
    if k == "zero":
        m = re.search(r"[0-9]+", v)
        return v[:m.start()] + "0" + v[m.start():] if m else v
    if k == "bump":
        ms = list(re.finditer(r"[0-9]+", v))
        if not ms: return v + "1"
        m = rng.choice(ms)
        return v[:m.start()] + str(int(m.group(0)) + rng.choice([1, 9, -1]) if int(m.group(0)) > 0 else 1) + v[m.end():]
    if k == "epoch":
        return (rng.choice(["0:", "1:"]) + v) if ":" not in v else v.split(":", 1)[1]
    return gen.mutate(rng, v, list("019a~+.-:"))

VER_ALPHABET_Q = list("01a~+.-:9")
VER_ALPHABET_T = list("01a~+.-:")

def vercmp_cases(tier, rng, prefix="v"):
    cases = []; seen = set()
    def add(a, b):
        if (a, b) in seen: return
        seen.add((a, b)); cases.append((f"{prefix}{len(cases)}", [hexs(a), hexs(b)]))
    corp = VER_CORPUS + VER_BAD
    for a in corp:
        for b in VER_CORPUS:
            add(a, b)
    for a in VER_BIG:                       # known class: debversion reads digit runs as i32
        for b in ["1", "1.0", a, "0~2024", "1.0-1"]:
            add(a, b); add(b, a)
    if tier == "thorough":
        small = list(gen.exhaustive(VER_ALPHABET_T, 3))
    else:
        small = list(gen.exhaustive(VER_ALPHABET_Q, 2))
    for a in small:
        for b in small:
            add(a, b)
    n = {"quick": 50000, "search": 100000, "thorough": 2000000}[tier]
    for _ in range(n):
        a = gen_version(rng)
        b = mutate_version(rng, a) if rng.random() < 0.6 else gen_version(rng)
        add(a, b)
        if rng.random() < 0.05:
            add(gen.mutate(rng, a, list("01a~+.-: _/é")), b)
    return cases

# ---------------------------------------------------------------- satisfaction

NAMES = ["a", "b", "c", "libc6", "python3-dulwich", "g++", "x.y", "foo~bar", "0ad", "A", "a-b", "a+"]
LADDER = ["0.9", "1.0~rc1-1", "1.0-1~", "1.0-1", "1.0-1+b1", "1.0.1-1", "1:0.1"]   # strictly increasing
EQUIV = {"1.0-1": ["1.0-1", "1.00-1", "0:1.0-1", "1.0-01", "01.0-1"]}              # equal, written differently

def decision_table(tier, rng):
    """every (operator or none) x (absent, lower, equal, higher) per alternative, shapes up to 2x2"""
    W = "1.0-1"
    opts = [None] + OPS
    states = ["absent", "lower", "equal", "higher"]
    inst = {"absent": None, "lower": "1.0~rc1-1", "equal": "1.0-1", "higher": "1.0-1+b1"}
    cells = [(o, s) for o in opts for s in states]           # 24
    def mk(shape, combo, k):
        it = iter(combo); struct = []; asg = []; i = 0
        for nalt in shape:
            e = []
            for _ in range(nalt):
                o, s = next(it); name = f"p{i}"; i += 1
                e.append((name, None if o is None else (o, W)))
                if inst[s] is not None: asg.append((name, inst[s]))
            struct.append(e)
        return sat_case(f"d{k}", struct, asg)
    out = []
    for shape in [(1,), (2,), (1, 1)]:
        for combo in itertools.product(cells, repeat=sum(shape)):
            out.append(mk(shape, combo, len(out)))
    n22 = {"quick": 15000, "search": 40000}.get(tier)
    if n22 is None:
        for combo in itertools.product(cells, repeat=4):
            out.append(mk((2, 2), combo, len(out)))
    else:
        for _ in range(n22):
            out.append(mk((2, 2), [rng.choice(cells) for _ in range(4)], len(out)))
        for _ in range(n22 // 4):
            shape = rng.choice([(2, 1), (1, 2), (3,), (1, 1, 1), (3, 2), (2, 2, 2)])
            out.append(mk(shape, [rng.choice(cells) for _ in range(sum(shape))], len(out)))
    return out

def gen_struct(rng, names=NAMES, epochs=True, ops=OPS):
    struct = []
    for _ in range(rng.choice([0, 1, 1, 2, 2, 3, 5])):
        e = []
        for _ in range(rng.choice([1, 1, 1, 2, 2, 3])):
            name = rng.choice(names)
            if rng.random() < 0.3:
                e.append((name, None))
            else:
                v = rng.choice(LADDER) if rng.random() < 0.4 else gen_version(rng)
                while ref_parse(v) is None or has_big_run(v) or (not epochs and ":" in v):
                    v = rng.choice(LADDER[:-1] if not epochs else LADDER)
                e.append((name, (rng.choice(ops), v)))
        struct.append(e)
    return struct

def gen_assignment(rng, struct, extra=True):
    asg = []
    for e in struct:
        for name, ver in e:
            r = rng.random()
            if r < 0.25: continue                     # absent
            if ver is None or ref_parse(ver[1]) is None:
                asg.append((name, rng.choice(LADDER))); continue
            w = ver[1]
            k = rng.choice(["equal", "equiv", "near", "ladder", "random"])
            if k == "equal": v = w
            elif k == "equiv": v = rng.choice(EQUIV.get(w, [w, w + "-0" if "-" not in w else w]))
            elif k == "near": v = mutate_version(rng, w)
            elif k == "ladder": v = rng.choice(LADDER)
            else: v = gen_version(rng)
            if ref_parse(v) is None or has_big_run(v): v = w
            asg.append((name, v))
    if extra and rng.random() < 0.3:
        asg.append((rng.choice(NAMES + ["unrelated"]), rng.choice(LADDER)))
    if asg and rng.random() < 0.2:                     # a duplicate name: the later binding wins in a map
        k, _ = rng.choice(asg); asg.append((k, rng.choice(LADDER)))
    if rng.random() < 0.3: rng.shuffle(asg)
    return asg

def sat_cases(tier, rng, prefix="s"):
    cases = []
    def add(struct, asg, **kw):
        cases.append(sat_case(f"{prefix}{len(cases)}", struct, asg, **kw))
    # hand-written: the doc examples and edge shapes
    add([], [])
    add([], [("a", "1")])
    add([[("samba", (">=", "2.0"))]], [("samba", "2.0")])
    add([[("samba", (">=", "2.0"))]], [("samba", "1.0")])
    add([[("python3-dulwich", (">=", "0.19.0"))], [("python3-requests", None)], [("python3-urllib3", ("<<", "1.26.0"))]],
        [("python3-dulwich", "0.19.0"), ("python3-requests", "2.25.1"), ("python3-urllib3", "1.25.11")])
    add([[("a", ("=", "1.0"))]], [("a", "1.0-0")])
    add([[("a", ("=", "1:1.0"))]], [("a", "1:1.0")])                   # epoch: read by both readers since /repo 0eb8794
    add([[("a", (">>", "1.0~rc1"))], [("b", None), ("c", ("<=", "2"))]], [("a", "1.0"), ("c", "2")])
    add([[]], [("a", "1")])                                             # an entry without alternatives: never satisfied
    add([[("a", None)], []], [("a", "1")])
    add([[("a", None), ("a", ("<<", "1"))]], [("a", "1")])
    n = {"quick": 30000, "search": 80000, "thorough": 1000000}[tier]
    for i in range(n):
        epochs = rng.random() < 0.25
        struct = gen_struct(rng, epochs=epochs)
        if rng.random() < 0.03 and struct:
            struct[rng.randrange(len(struct))] = []                    # text-free case
        asg = gen_assignment(rng, struct)
        if rng.random() < 0.25:
            asg = asg[:1]                                               # single pair: the pair form must agree
        add(struct, asg)
    return cases

def sat_known_cases(tier, rng, prefix="k"):
    """inputs in the two recorded finding classes (and around them)"""
    cases = []
    def add(struct, asg, **kw):
        cases.append(sat_case(f"{prefix}{len(cases)}", struct, asg, **kw))
    for op in BAD_OPS:
        add([[("a", (op, "1.0"))]], [("a", "1.0")])
        add([[("a", (op, "1.0"))]], [])
        add([[("b", None), ("a", (op, "1.0"))]], [("b", "1")])        # short-circuit: never reached
        add([[("b", None)], [("a", (op, "1.0"))]], [])                  # short-circuit: first entry fails
        add([[("a", (op, "1.0")), ("b", None)]], [("b", "1")])
    for big in VER_BIG:
        add([[("a", (">=", "1.0"))]], [("a", big)])
        add([[("a", (">=", big))]], [("a", "1.0")])
        add([[("a", (">=", big))]], [])
        add([[("b", None), ("a", (">=", big))]], [("b", "1"), ("a", "1")])
        add([[("a", ("=", big))]], [("a", big)])
    for bad in VER_UNREADABLE:                                        # debversion rejects: epoch above u32::MAX
        add([[("a", (">=", bad))]], [("a", "1.0")])
        add([[("a", (">=", bad))]], [])
        add([[("b", None), ("a", ("=", bad))]], [("b", "1")])         # short-circuit: never reached
        add([[("a", ("<<", bad)), ("b", None)]], [("b", "1")])
    # a big digit run that is present but never compared, or decided before it is reached: no panic
    add([[("a", (">=", "2147483648"))]], [("b", "1")])
    add([[("a", (">=", "2.2147483648"))]], [("a", "1.0")])
    add([[("a", (">=", "1.0"))]], [("a", "0.99999999999")])
    add([[("a", ("=", "1:99999999999"))]], [("a", "2:1")])
    n = {"quick": 300, "search": 300, "thorough": 3000}[tier]
    for _ in range(n):
        struct = gen_struct(rng, epochs=False, ops=OPS + BAD_OPS[:4])
        asg = gen_assignment(rng, struct)
        if rng.random() < 0.3 and asg:
            i = rng.randrange(len(asg)); asg[i] = (asg[i][0], rng.choice(VER_BIG))
        add(struct, asg)
    return cases

# ---- free text (the malformed stream): field text + who is installed -> lossless evaluators
TEXT_INSTALLED = [("a", "1"), ("1", "1"), ("aa", "1"), ("a1", "1.0"), ("11", "2"), ("libc6", "2.0-1"), ("python3-dulwich", "0.19.0"),
                  ("g++", "1.0~rc1"), ("x.y", "1"), ("0ad", "1:2.0"), ("b", "1.0")]

def struct_of_gen_entries(entries):
    """structure of a field produced by gen.gen_rel_field, or None if it holds what the strict reader rejects"""
    struct = []
    for e in entries:
        if e[0] == "substvar": return None
        if e[0] == "empty": continue
        alts = []
        for st in e[1]:
            alts.append((st["name"], st["version"]))
        struct.append(alts)
    return struct

def sat_text_cases(tier, rng, prefix="t"):
    cases = []; seen = set()
    def add(text, asg, exp="?"):
        key = (text, tuple(asg))
        if key in seen: return
        seen.add(key)
        cases.append((f"{prefix}{len(cases)}", [hexs(text), enc_assignment(asg), exp]))
    base = list(TEXT_INSTALLED)
    for s in gen.corpus_files("rel") + gen.repo_rel_corpus():
        add(s, base); add(s, [])
    # the finding classes and their neighbourhood, with free white space
    for t in ["a (>= 4294967296:1)", "a ( >= 4294967296:1 )", "b | a (= 9999999999:1)", "a (<< 4294967295:1)", "a (>= 4294967296:1) | b",
              "a (> 1)", "a ( >1)", "a (1)", "a (== 1)", "b | a (<> 1)", "a (>= 0~20240101123456)", "libc6 (>= 2147483648)",
              "a (>= 1:2.0)", "a (= 1:1)", "0ad (>= 1:2.0~rc1-3), a (<< 2:0)", "a (>= 1::2)", "a (= :1)"]:
        add(t, base); add(t, [("a", "1:2.0"), ("b", "1"), ("0ad", "1:2.0")]); add(t, [("a", "0~20240101123457")])
    nx = {"quick": 3, "search": 3, "thorough": 4}[tier]
    for s in gen.exhaustive(gen.REL_ALPHABET, nx):
        add(s, base)
    n = {"quick": 20000, "search": 50000, "thorough": 500000}[tier]
    for _ in range(n):
        t, entries = gen.gen_rel_field(rng, substvars=rng.random() < 0.3, empty_entries=rng.random() < 0.3)
        asg = [kv for kv in base if rng.random() < 0.6]
        if rng.random() < 0.3:
            asg.append((rng.choice(gen.REL_NAMES), rng.choice(LADDER)))
        st = struct_of_gen_entries(entries)
        exp = "?" if st is None else ("1" if ref_satisfied(st, last_binding(asg)) else "0")
        add(t, asg, exp)
        if rng.random() < 0.6:
            m = t
            for _ in range(rng.choice([1, 1, 2, 3])): m = gen.mutate(rng, m, gen.REL_ALPHABET)
            add(m, asg)
    return cases
