"""Case generators and reference functions for the C17 cone (debian-copyright).
Every random choice derives from the rng handed in (seeded by VERIF_SEED)."""
import itertools, os
from .core import hexs, REPO
from . import gen

# ------------------------------------------------------------------ reference functions
# (written from the property text / DEP-5; they are the oracle's own definitions, independent
#  of both the Coq model and the Rust code)
WS = set([0x9, 0xA, 0xB, 0xC, 0xD, 0x20, 0x85, 0xA0, 0x1680, 0x2028, 0x2029, 0x202F, 0x205F, 0x3000]
         + list(range(0x2000, 0x200B)))

def is_ws(ch):
    return ord(ch) in WS

def split_ws(s):
    out, cur = [], ""
    for ch in s:
        if is_ws(ch):
            if cur: out.append(cur); cur = ""
        else:
            cur += ch
    if cur: out.append(cur)
    return out

def glob_tokens(g):
    """list of '*', '?', ('lit', c); None when an escape is invalid"""
    toks = []
    i = 0
    while i < len(g):
        c = g[i]
        if c == "*": toks.append("*")
        elif c == "?": toks.append("?")
        elif c == "\\":
            if i + 1 < len(g) and g[i + 1] in "*?\\":
                toks.append(("lit", g[i + 1])); i += 1
            else:
                return None
        else:
            toks.append(("lit", c))
        i += 1
    return toks

def spec_match_tokens(toks, p):
    """'*' any run of characters (including '/' and LF), '?' exactly one character, a literal
    only itself; the whole path must be consumed.  Iterative wildcard matching."""
    ti = pi = 0
    star_t = star_p = -1
    n, m = len(toks), len(p)
    while pi < m:
        if ti < n and toks[ti] == "*":
            star_t, star_p = ti, pi
            ti += 1
        elif ti < n and (toks[ti] == "?" or (toks[ti] != "*" and toks[ti][1] == p[pi])):
            ti += 1; pi += 1
        elif star_t >= 0:
            star_p += 1
            ti, pi = star_t + 1, star_p
        else:
            return False
    while ti < n and toks[ti] == "*":
        ti += 1
    return ti == n

def spec_match(g, p):
    t = glob_tokens(g)
    if t is None:
        return None
    return spec_match_tokens(t, p)

def field_matches(patterns, path):
    """'1'/'0' for a list of patterns: a pattern with an invalid escape matches nothing (DEP-5
    calls it an error; the lookup must still answer for the other patterns and paragraphs)"""
    for g in patterns:
        if spec_match(g, path):
            return "1"
    return "0"

def reaches_invalid(patterns, path):
    """is a pattern with an invalid escape tried (no earlier pattern of the list matches)?
    That is where the code without C17-invalid-glob-escape panics."""
    for g in patterns:
        r = spec_match(g, path)
        if r is None:
            return True
        if r:
            return False
    return False

def has_invalid(patterns):
    return any(glob_tokens(g) is None for g in patterns)

def count_wildcards(g):
    return sum(1 for c in g if c in "*?")

def regex_size_weight(g):
    """over-estimate of the compiled size of the regex for g: a literal costs 32 bytes per UTF-8
    byte (measured: first failure at 327 675 bytes, whatever the characters: 81 919 x U+1F600,
    109 225 x U+4E2D, 163 838 x U+00E9, 327 675 x 'a'), a wildcard between 964 and 1 064
    (measured first failures between 9 855 and 10 878 wildcards); the costs add up
    (100 000 x 'a' + 7 257 x '*', 200 000 x 'a' + 4 239 x '?', 300 000 x 'a' + 883 x '*' fail)"""
    return 1100 * count_wildcards(g) + 32 * len(g.encode("utf-8"))

def in_regex_size_class(patterns):
    """known-finding class glob-regex-size-limit: the regex crate refuses to compile the pattern
    (default 10 MiB size limit).  Decidable over-approximation of where that happens."""
    return any(regex_size_weight(g) >= 10_000_000 for g in patterns)

def raw_path(b):
    """case-file field for a path given as raw bytes that are not valid UTF-8: the harness builds
    the path from the bytes, the model sees the lossy conversion (Rust's to_string_lossy and
    Python's errors='replace' both replace every maximal invalid subpart by U+FFFD)"""
    return "!" + b.hex() + ":" + hexs(b.decode("utf-8", errors="replace"))

def path_of_field(f):
    """the string the lookup should see for a path field"""
    if f.startswith("!"):
        return bytes.fromhex(f[1:].split(":")[0]).decode("utf-8", errors="replace")
    return bytes.fromhex(f).decode("utf-8")

SPECIAL_NAMES = ["Files", "License", "Copyright", "Format"]
def field_name_case_class(text):
    """known-finding class field-name-case: a line starts with Files / License / Copyright /
    Format spelled in another case, followed by a colon"""
    for line in text.split("\n"):
        name = line.split(":", 1)[0] if ":" in line else None
        if name is not None:
            for k in SPECIAL_NAMES:
                if name.lower() == k.lower() and name != k:
                    return True
    return False

# ------------------------------------------------------------------ glob stream
GLOB_FIELD_ALPHABET = ["a", ".", "+", "(", "[", "*", "?", "\\", "/", " ", "\n"]
GLOB_PATH_ALPHABET = ["a", ".", "+", "(", "[", "*", "?", "\\", "/", "\n"]
GLOB_ATOMS = ["a", "b", "debian", "src", "/", "/", ".", ".c", "*", "*", "?", "\\*", "\\?", "\\\\", "+", "(", ")", "[", "]",
              "{", "}", "^", "$", "|", "#", "&", "-", "~", "é", "中", "\U0001f600", "\x01"]
PATH_ATOMS = ["a", "b", "debian", "src", "/", "/", ".", ".c", "*", "?", "\\", "+", "(", ")", "[", "]", "{", "}", "^", "$",
              "|", "#", "&", "-", "~", "é", "中", "\U0001f600", "\x01", "\n", " ", "\r"]

def instantiate(rng, g):
    """a path the pattern g (valid escapes) should match, or near it"""
    t = glob_tokens(g) or []
    out = ""
    for x in t:
        if x == "*":
            out += "".join(rng.choice(PATH_ATOMS) for _ in range(rng.choice([0, 0, 1, 2, 3])))
        elif x == "?":
            out += rng.choice(["a", "/", "\n", "é", ".", "*", "\\", "\U0001f600"])
        else:
            out += x[1]
    if rng.random() < 0.25 and out:
        i = rng.randrange(len(out))
        out = rng.choice([out[:i] + out[i + 1:], out[:i] + rng.choice(PATH_ATOMS) + out[i:], out + rng.choice(PATH_ATOMS)])
    return out

def gen_glob(rng, valid=True):
    n = rng.choice([1, 1, 2, 3, 4, 6, 9])
    g = "".join(rng.choice(GLOB_ATOMS) for _ in range(n))
    if not valid and rng.random() < 0.7:
        i = rng.randrange(len(g) + 1)
        g = g[:i] + "\\" + rng.choice(["x", "/", ".", "a", ""]) + g[i:]
    return g

def glob_cases(tier, rng, prefix="g"):
    cases = []
    def add(field, paths):
        cases.append((f"{prefix}{len(cases)}", [hexs(field)] + [hexs(p) for p in paths]))
    # the repo's own unit tests of glob.rs
    for g, ps in [("*.rs", ["foo.rs", "bar.rs", "foo.rs.bak", "foo"]), ("?.rs", ["a.rs", "b.rs", "foo.rs", "foo"]),
                  ("\\?.rs", ["?.rs", "a.rs"]), ("\\*.rs", ["*.rs", "a.rs"]), ("\\\\?.rs", ["\\a.rs", "a.rs"]),
                  ("\\x.rs", ["x.rs"]), ("\\", [""]), ("a?b", ["a\nb"]), ("*", ["", "\n", "a\nb/c"]),
                  ("a/* b/*", ["a/x", "b/y", "a/x b/y"]), ("x\n y", ["x", "y", "x\n y"])]:
        add(g, ps)
    # exhaustive-small: every Files value of length <= n x every path of length <= m
    n, m = {"quick": (3, 3), "search": (3, 3), "thorough": (4, 3)}[tier]
    paths = list(gen.exhaustive(GLOB_PATH_ALPHABET, m))
    chunk = 400
    for g in gen.exhaustive(GLOB_FIELD_ALPHABET, n):
        for i in range(0, len(paths), chunk):
            add(g, paths[i:i + chunk])
    if tier == "thorough":
        paths4 = ["".join(t) for t in itertools.product(GLOB_PATH_ALPHABET, repeat=4)]
        for g in gen.exhaustive(GLOB_FIELD_ALPHABET, 3):
            if not any(c in g for c in "*?"):
                continue    # a literal pattern of length <= 3 never matches a path of length 4
            for i in range(0, len(paths4), 1000):
                add(g, paths4[i:i + 1000])
    # random: longer patterns, Unicode, regex metacharacters, several patterns per field
    ngen = {"quick": 4000, "search": 12000, "thorough": 60000}[tier]
    for _ in range(ngen):
        k = rng.choice([1, 1, 1, 2, 3])
        pats = [gen_glob(rng, valid=rng.random() < 0.9) for _ in range(k)]
        seps = [rng.choice([" ", " ", "\n", "\n ", "  ", "\t", "\u00a0", "\u2003", "\x1c"]) for _ in range(k - 1)]
        field = pats[0] + "".join(s + p for s, p in zip(seps, pats[1:]))
        if rng.random() < 0.1: field = rng.choice([" ", "\n", ""]) + field + rng.choice([" ", "\n", ""])
        ps = []
        for _ in range(rng.choice([2, 4, 8])):
            if rng.random() < 0.7:
                ps.append(instantiate(rng, rng.choice(pats)))
            else:
                ps.append("".join(rng.choice(PATH_ATOMS) for _ in range(rng.choice([0, 1, 2, 4, 7]))))
        add(field, ps)
    # pathological backtracking shapes (kept small enough for a backtracking matcher)
    for k in ([6, 10] if tier != "thorough" else [6, 10, 14]):
        add("*a" * k + "b", ["a" * (2 * k), "a" * (2 * k) + "b"])
        add("?" * k, ["a" * k, "a" * (k + 1), "\n" * k])
    return cases

def glob_size_limit_cases(prefix="z"):
    """members of the known-finding class glob-regex-size-limit (wildcards only; literals only,
    4 bytes each — 90 000 characters, far below any character count that matters for ASCII;
    a mixture neither part of which is large on its own) and two controls outside the class"""
    smile = "\U0001f600"
    return [(f"{prefix}0", [hexs("?" * 12000), hexs("a" * 12000)]),
            (f"{prefix}1", [hexs("?" * 6000), hexs("a" * 6000), hexs("a" * 5999)]),
            (f"{prefix}2", [hexs(smile * 90000), hexs(smile * 90000), hexs("b")]),
            (f"{prefix}3", [hexs("a" * 100000 + "*" * 8000), hexs("b"), hexs("a" * 100000)]),
            (f"{prefix}4", [hexs(smile * 60000 + "?" * 1500), hexs("b"), hexs(smile * 60000 + "x" * 1500)])]

def glob_nonutf8_cases(prefix="u"):
    """paths that are not valid UTF-8 (see raw_path)"""
    return [(f"{prefix}0", [hexs("*"), raw_path(b"\xff"), raw_path(b"a\xffb"), hexs("a")]),
            (f"{prefix}1", [hexs(""), raw_path(b"\xff")]),          # no pattern to try: no match
            (f"{prefix}2", [hexs("\\x *"), raw_path(b"\xc3(")]),   # an invalid escape first
            (f"{prefix}3", [hexs("debian/?.c a?b ??"), raw_path(b"debian/\xff.c"), raw_path(b"a\xe2\x82b"),
                            raw_path(b"\xf0\x9f\x98"), raw_path(b"\xff\xfe"), raw_path(b"\xed\xa0\x80")]),
            (f"{prefix}4", [hexs("\ufffd"), raw_path(b"\xff"), raw_path(b"\xc0\xaf")])]

def glob_invalid_escape_cases(prefix="e"):
    """an invalid escape in one pattern must not keep the other patterns from answering"""
    return [(f"{prefix}0", [hexs("* zzz\\"), hexs("a"), hexs("zzz\\"), hexs("")]),
            (f"{prefix}1", [hexs("zzz\\ *"), hexs("a"), hexs("zzz")]),
            (f"{prefix}2", [hexs("\\x"), hexs("x"), hexs("\\x"), hexs("")]),
            (f"{prefix}3", [hexs("a\\/b \\"), hexs("a/b"), hexs("a\\/b")]),
            (f"{prefix}4", [hexs("\\a\\* \\*"), hexs("*"), hexs("a*")])]

def copyright_nonutf8_cases(prefix="v"):
    H = "Format: " + FORMAT + "\n"
    doc = H + "\nFiles: *\nCopyright: c\nLicense: MIT\n text\n\nFiles:\nCopyright: c\nLicense: X\n"
    doc2 = H + "\nFiles: *\nCopyright: c\nLicense: MIT\n text\n\nFiles: debian/?.c\nCopyright: c\nLicense: X\n\nLicense: X\n x text\n"
    return [(f"{prefix}0", [hexs(doc), "2", raw_path(b"\xff"), hexs("a"), hexs("MIT")]),
            (f"{prefix}1", [hexs(H + "\nFiles:\nCopyright: c\nLicense: X\n"), "1", raw_path(b"\xff\xfe")]),
            (f"{prefix}2", [hexs(doc2), "3", raw_path(b"debian/\xff.c"), raw_path(b"debian/\xff\xff.c"), hexs("debian/a.c"), hexs("X")])]

def copyright_invalid_escape_cases(prefix="i"):
    """the audit's document: a later paragraph with 'Files: zzz\\' — every lookup must still answer"""
    H = "Format: " + FORMAT + "\n"
    A = "\nFiles: *\nCopyright: c\nLicense: MIT\n text\n"
    out = []
    for i, bad in enumerate(["zzz\\", "\\x", "a \\q b", "src/\\", "* \\"]):
        B = "\nFiles: " + bad + "\nCopyright: c\nLicense: GPL\n"
        out.append((f"{prefix}{2*i}", [hexs(H + A + B), "3", hexs("foo.c"), hexs("zzz"), hexs(""), hexs("MIT"), hexs("GPL")]))
        out.append((f"{prefix}{2*i+1}", [hexs(H + B + A), "3", hexs("foo.c"), hexs("a"), hexs("b"), hexs("MIT")]))
    return out

def copyright_field_case_cases(prefix="k"):
    """members of the known-finding class field-name-case"""
    H = "Format: " + FORMAT + "\n"
    P = "\n%s: *\n%s: c\n%s: MIT\n text\n"
    docs = [H + P % ("files", "Copyright", "License"), H + P % ("FILES", "Copyright", "License"),
            H + P % ("Files", "Copyright", "license"), H + P % ("Files", "copyright", "License"),
            H + P % ("Files", "Copyright", "License") + "\nlicense: MIT\n other\n",
            "format: " + FORMAT + "\n" + P % ("Files", "Copyright", "License"),
            "FORMAT: x\n"]
    return [(f"{prefix}{i}", [hexs(d), "2", hexs("a"), hexs("b/c"), hexs("MIT")]) for i, d in enumerate(docs)]

# ------------------------------------------------------------------ copyright stream
FORMAT = "https://www.debian.org/doc/packaging-manuals/copyright-format/1.0/"
LIC_NAMES = ["MIT", "GPL-3+", "Apache-2.0", "X", "BSD-3-clause", "GPL-2+ or MIT"]
PATTERN_POOL = ["*", "debian/*", "src/*", "src/*.c", "*.c", "src/a.c", "doc/?", "*/Makefile", "a", "a/*", "?", "\\*", "src/\\?.c",
                "*.[ch]", "lib(x)/*", "a+b", "x.y", "debian/*.install", "*é*", "**", "*/*/*", "src/**/x"]

def gen_pattern(rng):
    if rng.random() < 0.75:
        return rng.choice(PATTERN_POOL)
    g = gen_glob(rng, valid=rng.random() < 0.93)
    g = "".join(c for c in g if not is_ws(c) and c not in "\x01")
    return g or "*"

def gen_license_value(rng, names):
    """(text after 'License:', lines) — name only, name + text, or empty first line + text"""
    name = rng.choice(names)
    kind = rng.choice(["name", "name", "name", "named", "named", "textonly", "empty"])
    if kind == "name":
        return " " + name + "\n"
    body = "".join(" " + l + "\n" for l in rng.sample(["Permission is hereby granted.", ".", "THE SOFTWARE IS PROVIDED AS IS", "see /usr/share/common-licenses/X", "  indented"], rng.choice([1, 2, 3])))
    if kind == "named":
        return " " + name + "\n" + body
    if kind == "textonly":
        return "\n" + body
    return "\n"

def gen_files_value(rng):
    k = rng.choice([1, 1, 2, 2, 3])
    pats = [gen_pattern(rng) for _ in range(k)]
    out = rng.choice([" ", " ", "", "\n "]) + pats[0]
    for p in pats[1:]:
        out += rng.choice([" ", " ", "\n ", "\n ", "  ", "\t", "\n\t", " \n  "]) + p
    return out + "\n", pats

def gen_copyright_doc(rng, wellformed=True):
    """returns (text, patterns-of-each-Files-paragraph)"""
    names = rng.sample(LIC_NAMES, rng.choice([1, 2, 3]))
    t = "Format: " + FORMAT + "\n"
    if rng.random() < 0.5: t += "Upstream-Name: foo\n"
    if rng.random() < 0.3: t += "Source: https://example.com/foo\n"
    if rng.random() < 0.15: t += "Files-Excluded: vendor/* third_party/x\n *.min.js\n"
    if rng.random() < 0.12: t += "License:" + gen_license_value(rng, names)      # legal in a DEP-5 header
    if rng.random() < 0.1: t += "Copyright: 2020 Somebody\n"
    if not wellformed and rng.random() < 0.2: t += "Files: *\n"
    allpats = []
    tag = 0
    for _ in range(rng.choice([0, 1, 2, 2, 3, 4, 5])):
        t += rng.choice(["\n", "\n", "\n", "\n\n", "\n# a comment\n\n"]) if wellformed or rng.random() < 0.9 else "\n"
        kind = rng.choice(["files", "files", "files", "license", "license"] + ([] if wellformed else ["other", "nocopyright", "nolicense"]))
        if kind in ("files", "nocopyright", "nolicense"):
            fv, pats = gen_files_value(rng)
            fields = [("Files", fv)]
            if kind != "nocopyright": fields.append(("Copyright", rng.choice([" 2020 Joe\n", "\n 2020 Joe\n 2021 Ann\n"])))
            if kind != "nolicense": fields.append(("License", gen_license_value(rng, names)))
            if rng.random() < 0.8: fields.append(("Comment", f" p{tag}\n")); tag += 1
            if rng.random() < 0.5: rng.shuffle(fields)
            if rng.random() < 0.05: fields.append(("Files", " zzz\n"))    # duplicate field: the first one counts
            t += "".join(k + ":" + v for k, v in fields)
            allpats.append(pats)
        elif kind == "license":
            fields = [("License", gen_license_value(rng, names))]
            if rng.random() < 0.3: fields.append(("Comment", f" l{tag}\n")); tag += 1
            if rng.random() < 0.3: rng.shuffle(fields)
            t += "".join(k + ":" + v for k, v in fields)
        else:
            t += "Comment: stray paragraph\n"
    if rng.random() < 0.1: t = t[:-1]
    return t, allpats, names

def paths_for(rng, allpats, n):
    ps = []
    flat = [g for pats in allpats for g in pats]
    for _ in range(n):
        if flat and rng.random() < 0.75:
            ps.append(instantiate(rng, rng.choice(flat)))
        else:
            ps.append(rng.choice(["foo.c", "src/a.c", "debian/rules", "a", "", "doc/x", "x/y/z", "a\nb", "src/\n.c", "*", "src/?.c"]))
    return ps

def ccase(cid, text, paths, names):
    return (cid, [hexs(text), str(len(paths))] + [hexs(p) for p in paths] + [hexs(n) for n in names])

def small_docs(tier):
    """exhaustive-small: every arrangement of up to n Files paragraphs over a small pool of
    (pattern, licence form) x a small set of stand-alone licence configurations"""
    pool = ["*", "a/*", "a/b", "?", "*/b"]
    lic = [" X\n", " Y\n", " X\n inline text\n"]
    standalone = [[], ["License: X\n text of X\n"], ["License: X\n", "License: X\n text of X\n"],
                  ["License: Y\n text of Y\n", "License: X\n first X\n", "License: X\n second X\n"]]
    n = {"quick": 2, "search": 2, "thorough": 3}[tier]
    head = "Format: " + FORMAT + "\n"
    for k in range(n + 1):
        for combo in itertools.product(itertools.product(pool, lic), repeat=k):
            for sa in standalone:
                t = head
                paras = ["Files: %s\nCopyright: c\nLicense:%s" % (g, l) for g, l in combo]
                # stand-alone paragraphs go last, or (second arrangement) first
                yield t + "".join("\n" + p for p in paras + sa)
                if sa and k:
                    yield t + "".join("\n" + p for p in sa + paras)

def repo_copyright_corpus():
    out = []
    for rel in ["debian-copyright/src/lossless.rs", "debian-copyright/src/lossy.rs", "debian-copyright/src/lib.rs",
                "debian-copyright/README.md"]:
        for s in gen.rust_string_literals(os.path.join(REPO, rel)):
            if "\n" in s and len(s) < 6000:
                out.append(s)
    ex = os.path.join(REPO, "debian-copyright", "examples")
    if os.path.isdir(ex):
        for f in sorted(os.listdir(ex)):
            out += [s for s in gen.rust_string_literals(os.path.join(ex, f)) if "\n" in s and len(s) < 6000]
    return list(dict.fromkeys(out))

CORPUS_PATHS = ["foo.c", "debian/foo.c", "debian/rules", "src/a.c", "", "a\nb"]

def copyright_cases(tier, rng, prefix="c"):
    cases = []
    def add(text, paths, names):
        cases.append(ccase(f"{prefix}{len(cases)}", text, paths, names))
    for s in repo_copyright_corpus() + gen.corpus_files("copyright"):
        add(s, CORPUS_PATHS, ["GPL-3+", "MIT", ""])
    # hand-written edge cases, one per clause / per defect found
    H = "Format: " + FORMAT + "\n"
    for t, ps, ns in [
        (H + "\nFiles: a/* b/*\nCopyright: c\nLicense: MIT\n\nFiles: x\n y\nCopyright: c\nLicense: GPL\n", ["a/x", "b/y", "a/* b/*", "x", "y"], ["MIT", "GPL"]),
        (H + "\nFiles: a?b *.c\nCopyright: c\nLicense: MIT\n", ["a\nb", "axb", "x\n.c", "x.c"], []),
        (H + "\nFiles: *\nCopyright: c\nLicense: X\n\nLicense: X\n\nLicense: X\n the text\n", ["f"], ["X"]),
        (H + "License: MIT\n header text\n\nFiles: *\nCopyright: c\nLicense: MIT\n\nLicense: MIT\n real text\n", ["f"], ["MIT"]),
        (H + "Files: *\nCopyright: c\nLicense: MIT\n text\n\nFiles: b\nCopyright: c\nLicense: MIT\n", ["f", "b"], ["MIT"]),
        (H + "\nFiles: a \\x\nCopyright: c\nLicense: MIT\n", ["a", "b"], []),
        (H + "\nFiles: *\nCopyright: c\nLicense:\n\nLicense:\n foo\n", ["a"], ["", "foo"]),
        (H + "\nFiles: *\nCopyright: c\n", ["a"], []),
        (H + "\nFiles:\nCopyright: c\nLicense: X\n", ["", "a"], ["X"]),
        (H, ["a"], ["X"]), ("Format:", ["a"], []), ("Format:x", ["a"], []),
    ]:
        add(t, ps, ns)
    for t in small_docs(tier):
        add(t, ["a/b", "a", "b", "a/c", "x/b", "a\nb"], ["X", "Y", "Z"])
    ngen = {"quick": 2500, "search": 8000, "thorough": 40000}[tier]
    for _ in range(ngen):
        t, allpats, names = gen_copyright_doc(rng, wellformed=rng.random() < 0.8)
        add(t, paths_for(rng, allpats, rng.choice([2, 4, 6])), names + ["nope", ""])
    return cases

NOT_FORMAT_PREFIXES = ["", "\n", " ", "# comment\n", "format: x\n", "Format x\n", "Format :x\n", "\ufeffFormat: x\n",
                       "Files: *\n", "Forma", "Format", "FORMAT: x\n", "Format-Specification: x\n", "\r\nFormat: x\n"]

def copyright_malformed_cases(tier, rng, prefix="m"):
    cases = []
    def add(text, paths, names):
        cases.append(ccase(f"{prefix}{len(cases)}", text, paths, names))
    ngen = {"quick": 2500, "search": 8000, "thorough": 40000}[tier]
    for p in NOT_FORMAT_PREFIXES:
        add(p, ["a"], ["X"])
        add(p + "\nFiles: *\nCopyright: c\nLicense: X\n", ["a"], ["X"])
    for i in range(ngen):
        t, allpats, names = gen_copyright_doc(rng, wellformed=rng.random() < 0.5)
        r = rng.random()
        if r < 0.15:
            t = rng.choice(NOT_FORMAT_PREFIXES) + t[rng.choice([0, 0, 7, 8]):]
        else:
            for _ in range(rng.choice([1, 1, 2, 3])):
                t = gen.mutate(rng, t, gen.DEB822_ALPHABET + ["*", "?", "\\", "/", "F", "L"])
        add(t, paths_for(rng, allpats, rng.choice([1, 2, 4])), names + [""])
    return cases
