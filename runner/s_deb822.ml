(* streams about the deb822 readers *)
open Util
open Base

let tokens_s (ts : (Deb822Lex.kind * BinNums.coq_N list) list) =
  cat "," (L.map (fun (k, s) -> string_of_int (int_of_n (Deb822Lex.kind_code k)) ^ ":" ^ hx s) ts)

let items_s (it : (BinNums.coq_N list * BinNums.coq_N list) list) =
  cat "," (L.map (fun (k, v) -> hx k ^ "=" ^ hx v) it)
let doc_items_s d = cat "" (L.map (fun p -> "[" ^ items_s p ^ "]") d)

(* stream deb822-parse: fields = [hex input] *)
let deb822_parse (fs : string list) : string =
  let s = str_of_hex (L.nth fs 0) in
  let lx = res_str tokens_s (Deb822Lex.lex s) in
  (* the byte-level lexer (model/ByteLex.v: every slice at a byte offset, PANIC off a boundary) *)
  let blx = res_str tokens_s (ByteLex.bytelex s) in
  let rel = res_str (fun (t, n) ->
      Printf.sprintf "text=%s|nerr=%d|depth=%d|paras=%s" (hx (text t)) (int_of_nat n)
        (int_of_nat (depth t)) (doc_items_s (Deb822Parse.doc_items t))) (Deb822Parse.from_str_relaxed s) in
  let strict = res_str (fun t -> "OK:" ^ hx (text t) ^ ":" ^ doc_items_s (Deb822Parse.doc_items t)) (Deb822Parse.from_str s) in
  let rd = res_str (fun t -> "OK:" ^ hx (text t)) (Deb822Parse.read s) in
  let rdr = res_str (fun (t, n) -> Printf.sprintf "%s:%d" (hx (text t)) (int_of_nat n)) (Deb822Parse.read_relaxed s) in
  Printf.sprintf "lex=%s|blex=%s|%s|strict=%s|read=%s|readr=%s" lx blx rel strict rd rdr

let () = register "deb822-parse" deb822_parse
