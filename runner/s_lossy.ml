(* streams about the lossy deb822 reader / printer *)
open Util
open Base

let items_s it = cat "," (L.map (fun (k, v) -> hx k ^ "=" ^ hx v) it)
let doc_s d = cat "" (L.map (fun p -> "[" ^ items_s p ^ "]") d)

(* stream lossy-parse: fields = [hex text] *)
let lossy_parse (fs : string list) : string =
  let s = str_of_hex (L.nth fs 0) in
  let lossy = res_str (fun d -> "OK:" ^ doc_s d) (Lossy.lossy_from_str s) in
  let lpara = res_str (fun p -> "OK:" ^ items_s p) (Lossy.lossy_paragraph_from_str s) in
  let strict = res_str (fun t -> "OK:" ^ S_deb822.doc_items_s (Deb822Parse.doc_items t)) (Deb822Parse.from_str s) in
  whole_hang [lossy; lpara; strict] (Printf.sprintf "lossy=%s|lpara=%s|strict=%s" lossy lpara strict)

(* lossy documents on the case line: paragraphs ';' fields ',' name=value (hex; empty = nothing) *)
let parse_ldoc (enc : string) =
  if enc = "-" then [] else
  L.map (fun p ->
      if p = "" then [] else
      L.map (fun f -> match S.split_on_char '=' f with
          | [k; v] -> (str_of_hex k, str_of_hex v)
          | _ -> failwith "bad field") (S.split_on_char ',' p))
    (S.split_on_char ';' enc)

(* stream lossy-rt: fields = [ldoc; ops]   ops: space separated g:k s:k:v i:k:v r:k on paragraph 0 *)
let lossy_rt (fs : string list) : string =
  let d = parse_ldoc (L.nth fs 0) in
  let text = Lossy.print_doc d in
  let reread = res_str (fun d' -> "OK:" ^ doc_s d') (Lossy.lossy_from_str text) in
  let lossless = res_str (fun t -> "OK:" ^ S_deb822.doc_items_s (Deb822Parse.doc_items t)) (Deb822Parse.from_str text) in
  let ops = L.filter (fun x -> x <> "" && x <> "-") (S.split_on_char ' ' (L.nth fs 1)) in
  let p0 = match d with p :: _ -> p | [] -> [] in
  let (_, outs) = L.fold_left (fun (p, acc) op ->
      match S.split_on_char ':' op with
      | ["g"; k] -> (p, ("g" ^ opt_hex (Lossy.l_get p (str_of_hex k))) :: acc)
      | ["s"; k; v] -> let p' = Lossy.l_set p (str_of_hex k) (str_of_hex v) in (p', ("s" ^ items_s p') :: acc)
      | ["i"; k; v] -> let p' = Lossy.l_insert p (str_of_hex k) (str_of_hex v) in (p', ("i" ^ items_s p') :: acc)
      | ["r"; k] -> let p' = Lossy.l_remove p (str_of_hex k) in (p', ("r" ^ items_s p') :: acc)
      | _ -> failwith "bad op") (p0, []) ops in
  whole_hang [reread; lossless]
    (Printf.sprintf "text=%s|reread=%s|lossless=%s|ops=%s" (hx text) reread lossless (cat "/" (L.rev outs)))

let () = register "lossy-parse" lossy_parse
let () = register "lossy-wf" lossy_parse
let () = register "lossy-rt" lossy_rt
let () = register "lossy-rt-any" lossy_rt
