(* Streams of the C13 cone: the model of wrap-and-sort for relationship fields
   (coq/model/RelWrap.v) on the same cases as harness/src/s_relwrap.rs.
   The last field of a case selects the variant of the model: four 0/1 flags in the order of
   RelWrap.variant (qual_node, substvars, entry_ord, ctl_subst); vlib/props/c13.py sets them from
   the source text of the repository under test, so that the model compared is the model of that
   code (1111 = RelWrap.fixed, 0000 = RelWrap.shipped).
   Record grammar: see harness/src/s_relwrap.rs. *)
open Util
open Base

let variant_of (s : string) : RelWrap.variant =
  if S.length s = 4 && S.for_all (fun c -> c = '0' || c = '1') s then
    let b i = s.[i] = '1' in
    { RelWrap.v_qual_node = b 0; v_substvars = b 1; v_entry_ord = b 2; v_ctl_subst = b 3 }
  else failwith "bad variant flags"

let acc = (RelAcc.relation_version, RelAcc.relation_architectures)
let entries_s t = S_relgrammar.entries_s acc t
let substvars_s t = S_relgrammar.substvars_s t

let rel_wrap (fs : string list) : string =
  let s = str_of_hex (L.nth fs 0) in
  let v = variant_of (L.nth fs 1) in
  match RelParse.parse_relaxed s true with
  | OutOfFuel -> "HANG"
  | Err _ | Panic _ -> "PANIC"
  | Ok (t, n) ->
    let head = Printf.sprintf "e1=%d|acc=%s|sv=%s" (int_of_nat n) (entries_s t) (substvars_s t) in
    (match RelWrap.relations_ws v t with
     | OutOfFuel -> "HANG"
     | Err _ | Panic _ -> head ^ "|w1=PANIC|wacc=-|wsv=-|w2=-|re1=-|re0=-|racc=-|rsv=-|w2p=-"
     | Ok w ->
       let w1 = text w in
       let app t = match RelWrap.relations_ws v t with
         | Ok x -> hx (text x) | OutOfFuel -> "HANG" | _ -> "PANIC" in
       let w2 = app w in
       (match RelParse.parse_relaxed w1 true with
        | OutOfFuel -> "HANG"
        | Err _ | Panic _ ->
          Printf.sprintf "%s|w1=%s|wacc=%s|wsv=%s|w2=%s|re1=PANIC|re0=-|racc=-|rsv=-|w2p=-" head (hx w1) (entries_s w) (substvars_s w) w2
        | Ok (rr, n1) ->
          let re0 = match RelParse.parse_relaxed w1 false with
            | Ok (_, n0) -> string_of_int (int_of_nat n0) | OutOfFuel -> "HANG" | _ -> "PANIC" in
          let w2p = app rr in
          whole_hang [w2; re0; w2p]
            (Printf.sprintf "%s|w1=%s|wacc=%s|wsv=%s|w2=%s|re1=%d|re0=%s|racc=%s|rsv=%s|w2p=%s"
               head (hx w1) (entries_s w) (substvars_s w) w2 (int_of_nat n1) re0 (entries_s rr) (substvars_s rr) w2p)))

(* Control::wrap_and_sort: the reader of C01 (Deb822Parse), the reformatting of C07
   (Deb822Wrap.control_ws, the code as it is in /repo: Deb822Wrap.fixed) with this cone's model of
   the relation branch of format_field as its [rel] parameter *)
let parse_settings (s : string) =
  let p = Array.of_list (S.split_on_char ':' s) in
  let ind = if p.(0) = "f" then Deb822Wrap.FieldNameLength
    else Deb822Wrap.Spaces (n_of_int (int_of_string (S.sub p.(0) 1 (S.length p.(0) - 1)))) in
  (ind, p.(1) = "1", (if p.(2) = "-" then None else Some (n_of_int (int_of_string p.(2)))))

let rel_wrap_ctl (fs : string list) : string =
  let s = str_of_hex (L.nth fs 0) in
  let (ind, iel, mll) = parse_settings (L.nth fs 1) in
  let v = variant_of (L.nth fs 2) in
  match Deb822Parse.from_str s with
  | Err _ -> "ERR" | Panic _ -> "PANIC" | OutOfFuel -> "HANG"
  | Ok d ->
    let cw t = Deb822Wrap.control_ws Deb822Wrap.fixed (RelWrap.ctl_rel v) ind iel mll t in
    (match cw d with
     | OutOfFuel -> "HANG"
     | Err _ | Panic _ -> "PANIC"
     | Ok r1 ->
       let t2 = match cw r1 with Ok r2 -> hx (text r2) | OutOfFuel -> "HANG" | _ -> "PANIC" in
       whole_hang [t2] (Printf.sprintf "t1=%s|t2=%s" (hx (text r1)) t2))

let () = register "rel-wrap" rel_wrap
let () = register "rel-wrap-text" rel_wrap
let () = register "rel-wrap-ctl" rel_wrap_ctl
