(* stream deb822-store: the store model coq/model/Deb822Store.v on the case files of
   harness/src/s_store.rs (same record format): a document, N paragraph registers, a program that
   says through which handle every edit goes; after every instruction the outcome code, the
   printed document, its items, and text + items of the paragraph in every register *)
open Util
open Base

let items_s it = cat "," (L.map (fun (k, v) -> hx k ^ "=" ^ hx v) it)
let doc_s t = cat "" (L.map (fun p -> "[" ^ items_s p ^ "]") (Deb822Parse.doc_items t))

let pairs1 (enc : string) =
  if enc = "-" || enc = "" then [] else
  L.map (fun f -> match S.index_opt f '=' with
      | Some i -> (str_of_hex (S.sub f 0 i), str_of_hex (S.sub f (i + 1) (S.length f - i - 1)))
      | None -> failwith "bad pair") (S.split_on_char ',' enc)
let pairs (enc : string) = if enc = "-" then [] else L.map pairs1 (S.split_on_char ';' enc)

let init_of (s : string) : Deb822Store.dinit =
  if s = "N" then Deb822Store.DNew
  else if S.length s >= 2 && S.sub s 0 2 = "T:" then Deb822Store.DParse (str_of_hex (S.sub s 2 (S.length s - 2)))
  else if S.length s >= 2 && S.sub s 0 2 = "F:" then Deb822Store.DPairs (pairs (S.sub s 2 (S.length s - 2)))
  else failwith "bad init"

let hop_of (op : string) : Deb822Store.hop =
  let u = str_of_hex and n s = nat_of_int (int_of_string s) in
  match S.split_on_char ':' op with
  | ["G"; d; i] -> Deb822Store.HPara (n d, n i)
  | ["P"; d; e] -> Deb822Store.HNewPara (n d, pairs1 e)
  | ["S"; k; a; v] -> Deb822Store.HSet (n k, u a, u v)
  | ["I"; k; a; v] -> Deb822Store.HInsert (n k, u a, u v)
  | ["R"; k; a] -> Deb822Store.HRemove (n k, u a)
  | ["N"; k; a; b] -> Deb822Store.HRename (n k, u a, u b)
  | ["A"; d] -> Deb822Store.HAdd (n d)
  | ["J"; d; i] -> Deb822Store.HInsertP (n d, n i)
  | ["D"; i] -> Deb822Store.HRemoveP (n i)
  | _ -> failwith ("bad op " ^ op)

let regs_s nregs st =
  cat "." (L.init nregs (fun k ->
    match Deb822Store.reg_tree (nat_of_int k) st with
    | None -> "-"
    | Some p -> "+" ^ hx (text p) ^ "!" ^ items_s (Deb822Parse.items p)))

let deb822_store (fs : string list) : string =
  let nregs = int_of_string (L.nth fs 1) in
  match Deb822Store.init_state (init_of (L.nth fs 0)) (nat_of_int nregs) with
  | Err _ -> "ERR" | Panic _ -> "PANIC" | OutOfFuel -> "HANG"
  | Ok st0 ->
    let ops = L.filter (fun x -> x <> "" && x <> "-") (S.split_on_char ' ' (L.nth fs 2)) in
    let root st = match Deb822Store.root_tree st with Ok t -> t | _ -> failwith "no root" in
    let t0 = root st0 in
    let rec go st ops acc =
      match ops with
      | [] -> Some (st, L.rev acc)
      | op :: rest ->
        (match Deb822Store.run_hop (hop_of op) st with
         | Ok (code, st') ->
           let t' = root st' in
           go st' rest ((Printf.sprintf "%d:%s~%s~%s" (int_of_n code) (hx (text t')) (doc_s t') (regs_s nregs st')) :: acc)
         | _ -> None) in
    (match go st0 ops [] with
     | None -> "PANIC"
     | Some (st, outs) ->
       let final = text (root st) in
       let reread = res_str (fun t' -> "OK:" ^ doc_s t') (Deb822Parse.from_str final) in
       whole_hang [reread] (Printf.sprintf "init=%s~%s|steps=%s|reread=%s" (hx (text t0)) (doc_s t0) (cat "/" outs) reread))

let () = register "deb822-store" deb822_store
