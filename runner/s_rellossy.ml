(* streams about the lossy relations reader/printer and its conversions (C14).
   Value syntax: see harness/src/s_rellossy.rs (the two files print identical records). *)
open Util
open Base
open RelLossy

let split_char c s = S.split_on_char c s

(* ---- dumps ---- *)
let op_s = function VC_ge -> "ge" | VC_le -> "le" | VC_eq -> "eq" | VC_gt -> "gt" | VC_lt -> "lt"
let op_of = function
  | "ge" -> VC_ge | "le" -> VC_le | "eq" -> VC_eq | "gt" -> VC_gt | "lt" -> VC_lt
  | _ -> failwith "bad operator in case file"

let ver_s (v : dversion) =
  Printf.sprintf "%s:%s:%s"
    (match v.dv_epoch with None -> "-" | Some e -> string_of_int (int_of_n e))
    (hx v.dv_upstream) (opt_hex v.dv_revision)

let rel_s (r : dversion relation) =
  cat "~" [hx r.r_name; opt_hex r.r_archqual;
           (match r.r_version with None -> "-" | Some (c, v) -> op_s c ^ ":" ^ ver_s v);
           (match r.r_archs with None -> "-" | Some a -> cat "," ("L" :: L.map hx a));
           cat ";" ("P" :: L.map (fun g ->
               cat "," ("G" :: L.map (function Enabled s -> "e." ^ hx s | Disabled s -> "d." ^ hx s) g))
               r.r_profiles)]
let entry_s e = cat "/" ("E" :: L.map rel_s e)
let rels_s rs = cat "&" ("R" :: L.map entry_s rs)

let after tag l = match l with t :: r when t = tag -> r | _ -> failwith ("bad value in case file: expected " ^ tag)
let opt_of s = if s = "-" then None else Some (str_of_hex (S.sub s 1 (S.length s - 1)))

let rel_of (s : string) : dversion relation =
  match split_char '~' s with
  | [n; q; v; a; p] ->
    { r_name = str_of_hex n;
      r_archqual = opt_of q;
      r_archs = (if a = "-" then None else Some (L.map str_of_hex (after "L" (split_char ',' a))));
      r_version =
        (if v = "-" then None else
           match split_char ':' v with
           | [o; e; u; r] ->
             Some (op_of o, { dv_epoch = (if e = "-" then None else Some (n_of_int (int_of_string e)));
                              dv_upstream = str_of_hex u; dv_revision = opt_of r })
           | _ -> failwith "bad version in case file");
      r_profiles =
        L.map (fun g ->
            L.map (fun t ->
                let h = str_of_hex (S.sub t 2 (S.length t - 2)) in
                if t.[0] = 'e' then Enabled h else Disabled h)
              (after "G" (split_char ',' g)))
          (after "P" (split_char ';' p)) }
  | _ -> failwith "bad relation in case file"
let rels_of (s : string) : dversion relation list list =
  L.map (fun e -> L.map rel_of (after "E" (split_char '/' e))) (after "R" (split_char '&' s))

let hang parts r = if L.exists (fun p -> p = "HANG") parts then "HANG" else r

(* ---- the two generations of the model: (reader of one, reader of many, printer of one, printer of many) *)
type nl = BinNums.coq_N list
type gen = {
  from_rel : nl -> dversion relation res;
  from_rels : nl -> dversion relation list list res;
  pr_rel : dversion relation -> nl;
  pr_rels : dversion relation list list -> nl }

let fixed = { from_rel = relation_from_str dv_parse; from_rels = relations_from_str dv_parse;
              pr_rel = print_relation dv_print; pr_rels = print_relations dv_print }
let oldnl = { from_rel = oldnl_relation_from_str dv_parse; from_rels = oldnl_relations_from_str dv_parse;
              pr_rel = print_relation dv_print; pr_rels = print_relations dv_print }
let old = { from_rel = old_relation_from_str dv_parse; from_rels = old_relations_from_str dv_parse;
            pr_rel = old_print_relation dv_print; pr_rels = old_print_relations dv_print }

(* stream rel-lossy: fields = [relations value] *)
let rel_lossy g (fs : string list) : string =
  let v = rels_of (L.nth fs 0) in
  let t = g.pr_rels v in
  let rtv = g.from_rels t in
  let rt = res_str rels_s rtv in
  let eq = (match rtv with Ok x -> bool_s (rels_s x = rels_s v) | Err _ -> "-" | Panic _ -> "PANIC" | OutOfFuel -> "HANG") in
  let flat = L.concat v in
  let ones = L.map (fun r -> g.from_rel (g.pr_rel r)) flat in
  let one = L.map (res_str rel_s) ones in
  let oneq = L.map2 (fun r x -> match x with Ok y -> bool_s (rel_s y = rel_s r) | Err _ -> "-" | Panic _ -> "PANIC" | OutOfFuel -> "HANG")
      flat ones in
  hang (rt :: one)
    (Printf.sprintf "t=%s|rt=%s|eq=%s|one=%s|oneq=%s" (hx t) rt eq (cat "&" one) (cat "," oneq))

(* stream rel-lossy-text: fields = [hex input] *)
let rel_lossy_text g (fs : string list) : string =
  let s = str_of_hex (L.nth fs 0) in
  let relv = g.from_rel s and relsv = g.from_rels s in
  let rel = res_str rel_s relv and rels = res_str rels_s relsv in
  let relp, rel2 = (match relv with
      | Ok r -> let p = g.pr_rel r in (hx p, res_str rel_s (g.from_rel p))
      | _ -> ("-", "-")) in
  let relsp, rels2 = (match relsv with
      | Ok r -> let p = g.pr_rels r in (hx p, res_str rels_s (g.from_rels p))
      | _ -> ("-", "-")) in
  hang [rel; rels; rel2; rels2]
    (Printf.sprintf "rel=%s|rels=%s|relp=%s|rel2=%s|relsp=%s|rels2=%s" rel rels relp rel2 relsp rels2)

(* stream rel-lossy-conv: fields = [relations value].  Model: coq/model/RelConv.v (the conversions
   through cone C11's model of RelationBuilder::build and cone C10's accessor model). *)
let rel_lossy_conv (fs : string list) : string =
  let v = rels_of (L.nth fs 0) in
  let flat = L.concat v in
  let txt r = print_relation dv_print r in
  let tx f = res_str (fun t -> hx (text t)) f in
  let lossy = L.map (fun r -> hx (txt r)) flat in
  let lt = L.map (fun r -> tx (RelConv.to_lossless r)) flat in
  let back = L.map (fun r -> res_str rel_s (bind (RelConv.to_lossless r) RelConv.to_lossy)) flat in
  let ll = L.map (fun r -> res_str rel_s (RelConv.read_as_lossy (txt r))) flat in
  let et = L.map (fun e -> tx (RelConv.entry_to_lossless e)) v in
  let eb = L.map (fun e -> res_str entry_s (bind (RelConv.entry_to_lossless e) RelConv.entry_to_lossy)) v in
  let el = L.map (fun e -> res_str entry_s (RelConv.read_entry_as_lossy (print_entry dv_print e))) v in
  let ft = tx (RelConv.field_to_lossless v) in
  let fb = res_str rels_s (bind (RelConv.field_to_lossless v) RelConv.field_to_lossy) in
  let fl = res_str rels_s (RelConv.read_field_as_lossy (print_relations dv_print v)) in
  hang (lt @ back @ ll @ et @ eb @ el @ [ft; fb; fl])
    (Printf.sprintf "lossy=%s|lt=%s|back=%s|ll=%s|et=%s|eb=%s|el=%s|ft=%s|fb=%s|fl=%s"
       (cat "," lossy) (cat "," lt) (cat "&" back) (cat "&" ll) (cat "," et) (cat "&" eb) (cat "&" el) ft fb fl)

(* stream debversion: fields = [hex input] *)
let debversion (fs : string list) : string =
  match dv_parse (str_of_hex (L.nth fs 0)) with
  | Some v ->
    let p = dv_print v in
    let again = (match dv_parse p with Some w -> bool_s (ver_s w = ver_s v) | None -> "0") in
    Printf.sprintf "v=%s|p=%s|again=%s" (ver_s v) (hx p) again
  | None -> "v=ERR|p=-|again=-"

let () =
  register "rel-lossy" (rel_lossy fixed);
  register "rel-lossy-text" (rel_lossy_text fixed);
  register "rel-lossy-conv" rel_lossy_conv;
  register "debversion" debversion;
  register "rel-lossy-oldnl" (rel_lossy oldnl);
  register "rel-lossy-text-oldnl" (rel_lossy_text oldnl);
  register "rel-lossy-old" (rel_lossy old);
  register "rel-lossy-text-old" (rel_lossy_text old)
