(* stream `codec` (C18): typed field values and their text form.  Mirrors harness/src/s_codec.rs:
   fields = tag, op, args...;  op p: parse a text;  op r: print a value and read the text back. *)
open Util
open Base

let utf8 (s : BinNums.coq_N list) : string = utf8_of_codepoints (L.map int_of_n s)
let str_of_ascii (s : string) : BinNums.coq_N list = L.map n_of_int (codepoints_of_utf8 s)
let x s = "x" ^ hx s
let ux (a : string) = str_of_hex (S.sub a 1 (S.length a - 1))
let opt = function None -> "-" | Some s -> "+" ^ hx s
let uopt (a : string) = if a = "-" then None else Some (str_of_hex (S.sub a 1 (S.length a - 1)))
let dec (n : BinNums.coq_N) : string = utf8 (CodecStr.print_usize n)
let undec (a : string) : BinNums.coq_N =
  match CodecStr.parse_usize (str_of_ascii a) with Ok n -> n | _ -> failwith "bad integer atom"

(* a record whose parts may be a non-value outcome *)
exception Out of string
let get (r : 'a res) : 'a = match r with
  | Ok a -> a | Err _ -> raise (Out "ERR") | Panic _ -> raise (Out "PANIC") | OutOfFuel -> raise (Out "HANG")

(* op p: v=<value|ERR>|t=<hex of the value printed again|->   *)
let parse_rec (parse : unit -> 'a) (repr : 'a -> string) (print : 'a -> BinNums.coq_N list) : string =
  match (try `V (parse ()) with Out o -> `O o) with
  | `O "ERR" -> "v=ERR|t=-"
  | `O o -> o
  | `V v -> (try Printf.sprintf "v=%s|t=%s" (repr v) (hx (print v)) with Out o -> if o = "ERR" then "PRINT-ERR" else o)
(* op r: t=<hex text>|v=<value read back|ERR> *)
let rt_rec (text : unit -> BinNums.coq_N list) (parse : BinNums.coq_N list -> 'a) (repr : 'a -> string) : string =
  match (try `V (text ()) with Out o -> `O o) with
  | `O o -> if o = "ERR" then "PRINT-ERR" else o
  | `V t ->
    (match (try `V (parse t) with Out o -> `O o) with
     | `O "ERR" -> Printf.sprintf "t=%s|v=ERR" (hx t)
     | `O o -> o
     | `V v -> Printf.sprintf "t=%s|v=%s" (hx t) (repr v))

(* ---- enumerations *)
let variant_name (t : EnumTab.enum_tab) (v : BinNums.coq_N) : string =
  match L.nth_opt t.EnumTab.et_variants (int_of_n v) with Some n -> utf8 n | None -> "?" ^ string_of_int (int_of_n v)
let variant_index (t : EnumTab.enum_tab) (name : string) : BinNums.coq_N option =
  let rec go i = function
    | [] -> None
    | n :: r -> if utf8 n = name then Some (n_of_int i) else go (i + 1) r in
  go 0 t.EnumTab.et_variants

let enum_codec (t : EnumTab.enum_tab) op a =
  match op with
  | "p" -> parse_rec (fun () -> get (EnumTab.enum_parse t (str_of_hex (L.nth a 0)))) (variant_name t)
             (fun v -> get (EnumTab.enum_print t v))
  | _ -> (match variant_index t (L.nth a 0) with
      | None -> "NOVARIANT"
      | Some v -> rt_rec (fun () -> get (EnumTab.enum_print t v)) (fun s -> get (EnumTab.enum_parse t s)) (variant_name t))

let prio = Enums_gen.coq_Priority_tab
let prio_of a = match variant_index prio a with Some v -> v | None -> failwith "priority name"

(* ---- records *)
let cksum_codec k op a =
  let repr (v : Codecs.cksum) = Printf.sprintf "%s,%s,%s" (x v.Codecs.ck_hash) (dec v.Codecs.ck_size) (x v.Codecs.ck_file) in
  match op with
  | "p" -> parse_rec (fun () -> get (Codecs.cksum_from_str k (str_of_hex (L.nth a 0)))) repr (Codecs.cksum_to_string k)
  | _ ->
    let v = { Codecs.ck_hash = ux (L.nth a 0); ck_size = undec (L.nth a 1); ck_file = ux (L.nth a 2) } in
    rt_rec (fun () -> Codecs.cksum_to_string k v) (fun s -> get (Codecs.cksum_from_str k s)) repr

let file_codec op a =
  let repr (v : Codecs.cfile) =
    Printf.sprintf "%s,%s,%s,%s,%s" (x v.Codecs.cf_md5) (dec v.Codecs.cf_size) (x v.Codecs.cf_section)
      (variant_name prio v.Codecs.cf_priority) (x v.Codecs.cf_file) in
  match op with
  | "p" -> parse_rec (fun () -> get (Codecs.file_from_str prio (str_of_hex (L.nth a 0)))) repr
             (fun v -> get (Codecs.file_to_string prio v))
  | _ ->
    let v = { Codecs.cf_md5 = ux (L.nth a 0); cf_size = undec (L.nth a 1); cf_section = ux (L.nth a 2);
              cf_priority = prio_of (L.nth a 3); cf_file = ux (L.nth a 4) } in
    rt_rec (fun () -> get (Codecs.file_to_string prio v)) (fun s -> get (Codecs.file_from_str prio s)) repr

let sorted_pieces (t : BinNums.coq_N list) : BinNums.coq_N list =
  let p = S.split_on_char ' ' (utf8 t) in
  str_of_ascii (S.concat " " (L.sort compare p))

let ple_codec op a =
  let repr (v : Codecs.ple) =
    let ex = L.sort compare (L.map (fun (k, w) -> (utf8 k, utf8 w)) v.Codecs.pl_extra) in
    Printf.sprintf "%s,%s,%s,%s,%d%s" (x v.Codecs.pl_package) (x v.Codecs.pl_type) (x v.Codecs.pl_section)
      (variant_name prio v.Codecs.pl_priority) (L.length ex)
      (S.concat "" (L.map (fun (k, w) -> "," ^ x (str_of_ascii k) ^ "," ^ x (str_of_ascii w)) ex)) in
  match op with
  | "p" -> parse_rec (fun () -> get (Codecs.ple_from_str prio (str_of_hex (L.nth a 0)))) repr
             (fun v -> sorted_pieces (get (Codecs.ple_to_string prio v v.Codecs.pl_extra)))
  | _ ->
    let n = int_of_string (L.nth a 4) in
    let rec extras i m = if i >= n then m else
        extras (i + 1) (Codecs.map_insert (ux (L.nth a (5 + 2 * i))) (ux (L.nth a (6 + 2 * i))) m) in
    let v = { Codecs.pl_package = ux (L.nth a 0); pl_type = ux (L.nth a 1); pl_section = ux (L.nth a 2);
              pl_priority = prio_of (L.nth a 3); pl_extra = extras 0 [] } in
    (* the text is reported with its space-separated pieces sorted; the read-back uses the real text *)
    (match (try `V (get (Codecs.ple_to_string prio v v.Codecs.pl_extra)) with Out o -> `O o) with
     | `O o -> if o = "ERR" then "PRINT-ERR" else o
     | `V t ->
       (match Codecs.ple_from_str prio t with
        | Ok w -> Printf.sprintf "t=%s|v=%s" (hx (sorted_pieces t)) (repr w)
        | Err _ -> Printf.sprintf "t=%s|v=ERR" (hx (sorted_pieces t))
        | Panic _ -> "PANIC" | OutOfFuel -> "HANG"))

let profile_codec op a =
  let repr = function Codecs.Enabled s -> "E," ^ x s | Codecs.Disabled s -> "D," ^ x s in
  match op with
  | "p" -> parse_rec (fun () -> get (Codecs.profile_from_str (str_of_hex (L.nth a 0)))) repr Codecs.profile_to_string
  | _ ->
    let v = if L.nth a 0 = "E" then Codecs.Enabled (ux (L.nth a 1)) else Codecs.Disabled (ux (L.nth a 1)) in
    rt_rec (fun () -> Codecs.profile_to_string v) (fun s -> get (Codecs.profile_from_str s)) repr

let pvcs_codec op a =
  let repr (v : Vcs.parsed_vcs) = Printf.sprintf "%s,%s,%s" (x v.Vcs.repo_url) (opt v.Vcs.branch) (opt v.Vcs.subpath) in
  match op with
  | "p" -> parse_rec (fun () -> get (Vcs.parsed_vcs_from_str (str_of_hex (L.nth a 0)))) repr Vcs.parsed_vcs_to_string
  | _ ->
    let v = { Vcs.repo_url = ux (L.nth a 0); branch = uopt (L.nth a 1); subpath = uopt (L.nth a 2) } in
    rt_rec (fun () -> Vcs.parsed_vcs_to_string v) (fun s -> get (Vcs.parsed_vcs_from_str s)) repr

let vcs_repr = function
  | Vcs.Git (u, b, p) -> Printf.sprintf "Git,%s,%s,%s" (x u) (opt b) (opt p)
  | Vcs.Bzr (u, p) -> Printf.sprintf "Bzr,%s,%s" (x u) (opt p)
  | Vcs.Hg u -> "Hg," ^ x u
  | Vcs.Svn u -> "Svn," ^ x u
  | Vcs.Cvs (r, m) -> Printf.sprintf "Cvs,%s,%s" (x r) (opt m)
let vcs_codec op a =
  match op with
  | "p" ->
    (match Vcs.vcs_from_field (str_of_hex (L.nth a 0)) (str_of_hex (L.nth a 1)) with
     | Ok v -> let (n, t) = Vcs.vcs_to_field v in Printf.sprintf "v=%s|n=%s|t=%s" (vcs_repr v) (hx n) (hx t)
     | Err _ -> "v=ERR|n=-|t=-" | Panic _ -> "PANIC" | OutOfFuel -> "HANG")
  | _ ->
    let v = match L.nth a 0 with
      | "Git" -> Vcs.Git (ux (L.nth a 1), uopt (L.nth a 2), uopt (L.nth a 3))
      | "Bzr" -> Vcs.Bzr (ux (L.nth a 1), uopt (L.nth a 2))
      | "Hg" -> Vcs.Hg (ux (L.nth a 1))
      | "Svn" -> Vcs.Svn (ux (L.nth a 1))
      | _ -> Vcs.Cvs (ux (L.nth a 1), uopt (L.nth a 2)) in
    let (n, t) = Vcs.vcs_to_field v in
    (match Vcs.vcs_from_field n t with
     | Ok w -> Printf.sprintf "n=%s|t=%s|v=%s" (hx n) (hx t) (vcs_repr w)
     | Err _ -> Printf.sprintf "n=%s|t=%s|v=ERR" (hx n) (hx t)
     | Panic _ -> "PANIC" | OutOfFuel -> "HANG")

let forwarded_codec op a =
  let repr = function Codecs.FwNo -> "No" | Codecs.FwNotNeeded -> "NotNeeded" | Codecs.FwYes s -> "Yes," ^ x s in
  match op with
  | "p" -> parse_rec (fun () -> get (Codecs.forwarded_from_str (str_of_hex (L.nth a 0)))) repr Codecs.forwarded_to_string
  | _ ->
    let v = match L.nth a 0 with "No" -> Codecs.FwNo | "NotNeeded" -> Codecs.FwNotNeeded | _ -> Codecs.FwYes (ux (L.nth a 1)) in
    rt_rec (fun () -> Codecs.forwarded_to_string v) (fun s -> get (Codecs.forwarded_from_str s)) repr

let co_repr = function Codecs.Commit s -> "Commit," ^ x s | Codecs.Other s -> "Other," ^ x s
let co_build a i = if L.nth a i = "Commit" then Codecs.Commit (ux (L.nth a (i + 1))) else Codecs.Other (ux (L.nth a (i + 1)))
let co_codec from_str to_string op a =
  match op with
  | "p" -> parse_rec (fun () -> get (from_str (str_of_hex (L.nth a 0)))) co_repr to_string
  | _ -> let v = co_build a 0 in rt_rec (fun () -> to_string v) (fun s -> get (from_str s)) co_repr

let ocat = Enums_gen.coq_OriginCategory_tab
let otab = Enums_gen.parse_origin_tab
let porigin_codec op a =
  let repr (c, o) = (match c with None -> "-" | Some c -> variant_name ocat c) ^ "," ^ co_repr o in
  match op with
  | "p" -> parse_rec (fun () -> Codecs.parse_origin otab (str_of_hex (L.nth a 0))) repr
             (fun (c, o) -> get (Codecs.format_origin ocat otab c o))
  | _ ->
    let c = if L.nth a 0 = "-" then None else
        (match variant_index ocat (L.nth a 0) with Some c -> Some c | None -> failwith "category") in
    let o = co_build a 1 in
    rt_rec (fun () -> get (Codecs.format_origin ocat otab c o)) (fun s -> Codecs.parse_origin otab s) repr

let license_codec op a =
  let repr = function
    | Codecs.LName n -> "Name," ^ x n | Codecs.LText t -> "Text," ^ x t
    | Codecs.LNamed (n, t) -> "Named," ^ x n ^ "," ^ x t in
  match op with
  | "p" -> parse_rec (fun () -> get (Codecs.license_from_str (str_of_hex (L.nth a 0)))) repr Codecs.license_to_string
  | _ ->
    let v = match L.nth a 0 with
      | "Name" -> Codecs.LName (ux (L.nth a 1)) | "Text" -> Codecs.LText (ux (L.nth a 1))
      | _ -> Codecs.LNamed (ux (L.nth a 1), ux (L.nth a 2)) in
    rt_rec (fun () -> Codecs.license_to_string v) (fun s -> get (Codecs.license_from_str s)) repr

(* VERIF_SIGNATURE_MODEL=unfixed selects the reader as it was before proposed_fixes/C18-signature-keyblock.patch *)
let signature_reader =
  match Sys.getenv_opt "VERIF_SIGNATURE_MODEL" with
  | Some "unfixed" -> Codecs.signature_from_str_unfixed
  | _ -> Codecs.signature_from_str
let signature_codec op a =
  let repr = function Codecs.KeyBlock t -> "KeyBlock," ^ x t | Codecs.KeyPath p -> "KeyPath," ^ x p in
  match op with
  | "p" -> parse_rec (fun () -> get (signature_reader (str_of_hex (L.nth a 0)))) repr Codecs.signature_to_string
  | _ ->
    let v = if L.nth a 0 = "KeyBlock" then Codecs.KeyBlock (ux (L.nth a 1)) else Codecs.KeyPath (ux (L.nth a 1)) in
    rt_rec (fun () -> Codecs.signature_to_string v) (fun s -> get (signature_reader s)) repr

let identity_codec a =
  match Codecs.parse_identity (str_of_hex (L.nth a 0)) with
  | Ok (n, e) -> Printf.sprintf "v=%s,%s" (x n) (x e)
  | Err _ -> "v=ERR" | Panic _ -> "PANIC" | OutOfFuel -> "HANG"

let codec (fs : string list) : string =
  match fs with
  | tag :: op :: a ->
    (try
      (match tag with
       | "priority" -> enum_codec Enums_gen.coq_Priority_tab op a
       | "multiarch" -> enum_codec Enums_gen.coq_MultiArch_tab op a
       | "urgency" -> enum_codec Enums_gen.coq_Urgency_tab op a
       | "constraint" -> enum_codec Enums_gen.coq_VersionConstraint_tab op a
       | "origincat" -> enum_codec Enums_gen.coq_OriginCategory_tab op a
       | "repotype" -> enum_codec Enums_gen.coq_RepositoryType_tab op a
       | "ynf" -> enum_codec Enums_gen.coq_YesNoForce_tab op a
       | "md5" -> cksum_codec Codecs.Md5 op a
       | "sha1" -> cksum_codec Codecs.Sha1 op a
       | "sha256" -> cksum_codec Codecs.Sha256 op a
       | "sha512" -> cksum_codec Codecs.Sha512 op a
       | "file" -> file_codec op a
       | "ple" -> ple_codec op a
       | "profile" -> profile_codec op a
       | "pvcs" -> pvcs_codec op a
       | "vcs" -> vcs_codec op a
       | "forwarded" -> forwarded_codec op a
       | "origin" -> co_codec Codecs.origin_from_str Codecs.origin_to_string op a
       | "applied" -> co_codec Codecs.applied_from_str Codecs.applied_to_string op a
       | "porigin" -> porigin_codec op a
       | "license" -> license_codec op a
       | "signature" -> signature_codec op a
       | "identity" -> identity_codec a
       | _ -> "UNKNOWN-TAG")
    with Out o -> o)
  | _ -> "BAD-CASE"

let () = register "codec" codec
