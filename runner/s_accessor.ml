(* streams accessor / control-select / accessor-table (C15): the row semantics of
   coq/model/Accessors.v on the tree model, rows looked up in the generated table *)
open Util
open Base
open Accessors

let ctx = { c_xparse = id_xparse; c_enums = Accessors_gen.enums }
let lit (s : string) : BinNums.coq_N list = L.map n_of_int (codepoints_of_utf8 s)
let plain (s : BinNums.coq_N list) : string = utf8_of_codepoints (L.map int_of_n s)

(* ---- value <-> text (the same embedding as harness/src/s_accessor.rs) ---- *)
let dec_of_n n = plain (show_N n)
let n_of_dec (s : string) = dec_value BinNums.N0 (lit s)
let atom_s = function AS s -> "s" ^ hx s | AN n -> "n" ^ dec_of_n n
let rec v_s = function
  | VNone -> "N"
  | VSome v -> "O" ^ v_s v
  | VStr s -> "S" ^ hx s
  | VBool b -> if b then "B1" else "B0"
  | VNum n -> "U" ^ dec_of_n n
  | VList l -> "L" ^ cat "," (L.map (fun s -> "." ^ hx s) l)
  | VRecs l -> "R" ^ cat ";" (L.map (fun r -> cat "," (L.map atom_s r)) l)
let tl1 s = S.sub s 1 (S.length s - 1)
let rec v_of (s : string) : value =
  match s.[0] with
  | 'N' -> VNone
  | 'O' -> VSome (v_of (tl1 s))
  | 'S' -> VStr (str_of_hex (tl1 s))
  | 'B' -> VBool (s = "B1")
  | 'U' -> VNum (n_of_dec (tl1 s))
  | 'L' -> let b = tl1 s in
    if b = "" then VList [] else VList (L.map (fun x -> str_of_hex (tl1 x)) (S.split_on_char ',' b))
  | 'R' -> let b = tl1 s in
    if b = "" then VRecs [] else
      VRecs (L.map (fun r -> L.map (fun a -> if a.[0] = 's' then AS (str_of_hex (tl1 a)) else AN (n_of_dec (tl1 a)))
                        (S.split_on_char ',' r)) (S.split_on_char ';' b))
  | _ -> failwith "bad value"

(* a HashMap is printed sorted by key, the last of several equal keys winning *)
let canon_map (v : value) : value =
  let fix l =
    let kv = L.filter_map (function [AS k; AS x] -> Some (hx k, (k, x)) | _ -> None) l in
    let tbl = Hashtbl.create 8 in
    L.iter (fun (h, p) -> Hashtbl.replace tbl h p) kv;
    let keys = L.sort_uniq compare (L.map fst kv) in
    L.map (fun h -> let (k, x) = Hashtbl.find tbl h in [AS k; AS x]) keys in
  match v with
  | VSome (VRecs l) -> VSome (VRecs (fix l))
  | VRecs l -> VRecs (fix l)
  | v -> v

let items_s it = cat "," (L.map (fun (k, v) -> hx k ^ "=" ^ hx v) it)
let doc_s t = cat "" (L.map (fun p -> "[" ^ items_s p ^ "]") (Deb822Parse.doc_items t))

exception Stop of string

let kind_of = function
  | "changes::Changes" -> "changes" | "copyright::Header" -> "cr_header"
  | "copyright::FilesParagraph" -> "cr_files" | "copyright::LicenseParagraph" -> "cr_license"
  | "dep3::PatchHeader" -> "dep3"
  | "control::Source" | "control::Binary" | "apt::Source" | "apt::Package" | "apt::Release" | "buildinfo::Buildinfo" -> "para"
  | _ -> raise (Stop "NOTYPE")

let starts_with pre s = S.length s >= S.length pre && S.sub s 0 (S.length pre) = pre

let find_idx p l = let rec go i = function [] -> None | x :: r -> if p x then Some i else go (i + 1) r in go 0 l

(* the tree and the index of the paragraph the typed view stands on *)
let make (kind : string) (text : BinNums.coq_N list) (pidx : int) =
  if (kind = "cr_header" || kind = "cr_files" || kind = "cr_license") && not (starts_with "Format:" (plain text))
  then raise (Stop "NOPARSE");
  let t = match Deb822Parse.from_str text with
    | Ok t -> t | Err _ -> raise (Stop "NOPARSE") | Panic _ -> raise (Stop "PANIC") | OutOfFuel -> raise (Stop "HANG") in
  let ps = Deb822Parse.paragraphs t in
  let n = L.length ps in
  let has p k = Deb822Parse.contains_key p (lit k) in
  let idx = match kind with
    | "para" -> if pidx < n then pidx else raise (Stop "NOOBJ")
    | "changes" -> if n = 1 then 0 else raise (Stop "NOOBJ")
    | "dep3" -> if n >= 1 then 0 else raise (Stop "NOPARSE")
    | "cr_header" -> if n >= 1 then 0 else raise (Stop "NOOBJ")
    | "cr_files" ->
      (match find_idx (fun p -> has p "Files") (match ps with [] -> [] | _ :: r -> r) with Some i -> i + 1 | None -> raise (Stop "NOOBJ"))
    | _ ->
      (match find_idx (fun p -> not (has p "Files") && has p "License") (match ps with [] -> [] | _ :: r -> r) with
       | Some i -> i + 1 | None -> raise (Stop "NOOBJ")) in
  (t, idx)

let para_of t idx = L.nth (Deb822Parse.paragraphs t) idx
let shown_text kind t idx =
  match kind with "changes" -> None | "dep3" -> Some (text (para_of t idx)) | _ -> Some (text t)

let accessor (fs : string list) : string =
  match fs with
  | ty :: htext :: pidx :: ops ->
    (try
      let kind = kind_of ty in
      let pidx = int_of_string pidx in
      let (t0, i0) = make kind (str_of_hex htext) pidx in
      let t = ref t0 and idx = ref i0 and dead = ref false in
      let row m = match find_row Accessors_gen.table (lit ty) (lit m) with Some r -> r | None -> raise Not_found in
      let run op =
        if !dead then "-" else
        match S.split_on_char '~' op with
        | ["G"; m; arg] ->
          (try
            let r = row m in
            (match getter ctx coq_TI r (str_of_hex arg) (children (para_of !t !idx)) with
             | Ok v -> v_s (match r.r_codec with CEnv -> canon_map v | _ -> v)
             | Err _ -> "ERR" | Panic _ -> raise (Stop "PANIC") | OutOfFuel -> raise (Stop "HANG"))
          with Not_found -> "NOROW")
        | ["S"; m; arg; v] ->
          (try
            let r = row m in
            (match setter ctx coq_TI r (str_of_hex arg) (v_of v) (children (para_of !t !idx)) with
             | Ok cs -> t := Deb822Edit.on_para !t (nat_of_int !idx) (fun _ -> cs); "ok"
             | Err _ -> "ERR" | Panic _ -> raise (Stop "PANIC") | OutOfFuel -> raise (Stop "HANG"))
          with Not_found -> "NOROW")
        | ["R"] ->
          (match shown_text kind !t !idx with
           | None -> "-"
           | Some tx ->
             (try let (t', i') = make kind tx pidx in t := t'; idx := i'; "reread"
              with Stop ("PANIC" | "HANG" as e) -> raise (Stop e) | Stop e -> dead := true; e))
        | "E" :: _ -> "-"
        | _ -> failwith "bad op" in
      let outs = L.map run ops in
      let live = if !dead then "-" else match kind with
        | "changes" | "cr_files" | "cr_license" -> "-"
        | _ -> items_s (Deb822Parse.items (para_of !t !idx)) in
      let (tx, rr) = match shown_text kind !t !idx with
        | None -> ("-", "-")
        | Some tx -> (hx tx, res_str (fun t' -> "OK:" ^ doc_s t') (Deb822Parse.from_str tx)) in
      whole_hang [rr] (Printf.sprintf "ops=%s|live=%s|text=%s|rr=%s" (cat "/" outs) live tx rr)
    with Stop e -> e)
  | _ -> failwith "bad case"

let control_select (fs : string list) : string =
  match Deb822Parse.from_str (str_of_hex (L.nth fs 0)) with
  | Err _ -> "NOPARSE" | Panic _ -> "PANIC" | OutOfFuel -> "HANG"
  | Ok t ->
    let ps = Deb822Parse.paragraphs t in
    let name i k = let v = match Deb822Parse.get (L.nth ps i) (lit k) with Some s -> VSome (VStr s) | None -> VNone in
      Printf.sprintf "%d:%s" i (v_s v) in
    let src = match control_source t with Some i -> name (int_of_nat i) "Source" | None -> "-" in
    let bins = cat "," (L.map (fun i -> name (int_of_nat i) "Package") (control_binaries t)) in
    Printf.sprintf "n=%d|source=%s|binaries=%s" (L.length ps) src bins

let accessor_table (_ : string list) : string =
  cat "," (L.map (fun r ->
    let role = match r.r_role with RGetter -> "RGetter" | RSetter -> "RSetter" | ROther -> "ROther" in
    plain r.r_ty ^ "." ^ plain r.r_method ^ "." ^ role) Accessors_gen.table)

let () = register "accessor" accessor
let () = register "accessor-any" accessor
let () = register "control-select" control_select
let () = register "accessor-table" accessor_table
