(* stream of the C20 cone: the lossy typed documents read, printed, read again, printed again, next
   to the lossless reader's view of the input *)
open Util
open Base
open TypedDocs
open TypedExt

let kind_code = function
  | "control" -> Some 0 | "copyright" -> Some 1 | "release" -> Some 2 | "aptsource" -> Some 3
  | "aptpackage" -> Some 4 | "removal" -> Some 5 | "buildinfo" -> Some 6 | "dep3" -> Some 7
  | "repositories" -> Some 8 | _ -> None
(* kinds with a field held in a hash container (Environment, Types) *)
let kind_unordered k = (k = 6 || k = 8)   (* kinds with a hash container: only the `ord` probe is left *)
let unordered_keys = [hx (str_of_hex "5479706573"); hx (str_of_hex "456e7669726f6e6d656e74")]   (* "Types", "Environment" *)

let sort_lines (hexv : string) : string =
  let v = bytes_of_hex hexv in
  let ls = L.sort compare (S.split_on_char '\n' v) in
  let b = Buffer.create 16 in
  S.iter (fun c -> Buffer.add_string b (Printf.sprintf "%02x" (Char.code c))) (S.concat "\n" ls);
  Buffer.contents b

let items_s un it =
  cat "," (L.map (fun (k, v) ->
      let hk = hx k and hv = hx v in
      hk ^ "=" ^ (if un && L.mem hk unordered_keys then sort_lines hv else hv)) it)
let dump un paras =
  cat ";" (L.map (fun (r, it) -> Printf.sprintf "%c:%s" (Char.chr (int_of_n r)) (items_s un it)) paras)

let rec trim_end_lf (s : string) =
  let n = S.length s in
  if n > 0 && s.[n - 1] = '\n' then trim_end_lf (S.sub s 0 (n - 1)) else s
let multi_unordered un paras =
  un && L.exists (fun (_, it) ->
      L.exists (fun (k, v) -> L.mem (hx k) unordered_keys && S.contains (trim_end_lf (bytes_of_hex (hx v))) '\n') it) paras
let text_s un paras t = if multi_unordered un paras then "~" else hx t

let err_s = function
  | ESyntax -> "E:syntax"
  | ENoParas -> "E:noparas"
  | EField (Derive.Missing k) -> "E:missing:" ^ hx k
  | EField (Derive.Parsing k) -> "E:field:" ^ hx k
  | ENoSource -> "E:nosource"
  | EManySource -> "E:manysource"
  | ENeither -> "E:neither"
  | ENotMachineReadable -> "E:nmr"

let ll_view s =
  match Deb822Parse.from_str s with
  | Ok t -> cat ";" (L.map (fun p -> "[" ^ items_s false p ^ "]") (Deb822Parse.doc_items t))
  | Err _ -> "ERR"
  | Panic _ -> "PANIC"
  | OutOfFuel -> "HANG"

let ly_view s =
  match Lossy.lossy_paragraph_from_str s with
  | Ok p -> "[" ^ items_s false p ^ "]"
  | Err _ -> "ERR"
  | Panic _ -> "PANIC"
  | OutOfFuel -> "HANG"

(* external codec table: "id:hexraw:hexcanon" or "id:hexraw:-" *)
let parse_table (enc : string) : Derive.ext_table =
  if enc = "-" || enc = "" then [] else
  L.map (fun e -> match S.split_on_char ':' e with
      | [i; raw; canon] -> ((n_of_int (int_of_string i), str_of_hex raw), (if canon = "-" then None else Some (str_of_hex canon)))
      | _ -> failwith "bad table entry") (S.split_on_char ',' enc)

(* fields: [kind; hex text; external codec table] *)
let typed_doc (fs : string list) : string =
  match kind_code (L.nth fs 0) with
  | None -> "UNKNOWN-KIND:" ^ L.nth fs 0
  | Some k ->
    let kn = n_of_int k in
    let s = str_of_hex (L.nth fs 1) in
    let tbl = parse_table (L.nth fs 2) in
    let un = false in
    let has_ord = kind_unordered k in
    let ll = ll_view s in
    let ly = if k = 2 || k = 3 || k = 4 then ly_view s else "" in
    let r =
      match y_run kn tbl s with
      | TPanic _ -> "p=PANIC"
      | THang -> "HANG"
      | TErr e -> "p=" ^ err_s e
      | TOk o1 ->
        let head = Printf.sprintf "p=OK|v=%s|t=%s" (dump un o1.y_paras) (text_s un o1.y_paras o1.y_text) in
        let second =
          match y_run kn tbl o1.y_text with
          | TPanic _ -> "|r=PANIC"
          | THang -> "HANG"
          | TErr e -> "|r=" ^ err_s e
          | TOk o2 ->
            let eq = if x_has_eq kn
              then L.length o1.y_vals = L.length o2.y_vals && L.for_all2 xsval_eqb o1.y_vals o2.y_vals
              else dump un o1.y_paras = dump un o2.y_paras in
            let same = if multi_unordered un o1.y_paras || multi_unordered un o2.y_paras
              then dump un o1.y_paras = dump un o2.y_paras else o1.y_text = o2.y_text in
            Printf.sprintf "|r=OK|v2=%s|eq=%s|t2=%s|same=%s" (dump un o2.y_paras) (bool_s eq)
              (text_s un o2.y_paras o2.y_text) (bool_s same) in
        if second = "HANG" then "HANG" else
        head ^ second ^ (if has_ord then "|ord=1" else "") in
    if r = "HANG" || ll = "HANG" || ly = "HANG" then "HANG" else
    r ^ "|ll=" ^ ll ^ (if ly = "" then "" else "|ly=" ^ ly)

let () = register "typed-doc" typed_doc
let () = register "typed-doc-malformed" typed_doc
let () = register "typed-doc-small" typed_doc
