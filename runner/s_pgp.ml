(* streams about PGP clear-sign unwrapping (model: coq/model/Pgp.v), property C19 *)
open Util
open Base

let err_name (e : BinNums.coq_N) = match int_of_n e with
  | 1 -> "MissingPgpSignature" | 2 -> "MissingPayload"
  | 3 -> "TruncatedPgpSignature" | 4 -> "JunkAfterPgpSignature"
  | n -> "?" ^ string_of_int n

(* canonical result of strip_pgp_signature (same format as harness/src/s_pgp.rs) *)
let res_s (r : (BinNums.coq_N list * BinNums.coq_N list option) Base.res) : string =
  match r with
  | Ok (p, None) -> "U:" ^ hx p
  | Ok (p, Some s) -> "S:" ^ hx p ^ ":" ^ hx s
  | Err e -> "E:" ^ err_name e
  | Panic _ -> "PANIC"
  | OutOfFuel -> "HANG"

let strip_rec (s : BinNums.coq_N list) : string = res_s (Pgp.strip_pgp_signature s)

(* "L,hex,hex" -> list of strings *)
let unlist (f : string) : BinNums.coq_N list list =
  match S.split_on_char ',' f with
  | "L" :: items -> L.map str_of_hex items
  | _ -> failwith "bad list field"
let list_rec (l : BinNums.coq_N list list) : string = cat "" ("L" :: L.map (fun x -> "," ^ hx x) l)

(* stream pgp-strip: fields = [hex input; ...ignored tags] *)
let pgp_strip (fs : string list) : string =
  let s = str_of_hex (L.nth fs 0) in
  let r = strip_rec s in
  whole_hang [r] (Printf.sprintf "r=%s|lines=%s" r (list_rec (Pgp.lines s)))

let rec range a b = if a >= b then [] else a :: range (a + 1) b

(* stream pgp-wrap: fields = [headers; payload lines; signature lines; hex extra] *)
let pgp_wrap (fs : string list) : string =
  let hs = unlist (L.nth fs 0) and ps = unlist (L.nth fs 1) and ss = unlist (L.nth fs 2) in
  let extra = str_of_hex (L.nth fs 3) in
  let msg = Pgp.wrap hs ps ss in
  let n = L.length (Pgp.wrap_lines hs ps ss) in
  let full = strip_rec msg in
  let cuts = L.map (fun k -> strip_rec (Pgp.cut_lines (nat_of_int k) hs ps ss)) (range 0 n) in
  let junk = strip_rec (msg @ extra) in
  whole_hang (full :: junk :: cuts)
    (Printf.sprintf "msg=%s|full=%s|cuts=%s|junk=%s" (hx msg) full (cat ";" cuts) junk)

(* stream pgp-cutc: fields = [headers; payload lines; signature lines] *)
let pgp_cutc (fs : string list) : string =
  let hs = unlist (L.nth fs 0) and ps = unlist (L.nth fs 1) and ss = unlist (L.nth fs 2) in
  let msg = Pgp.wrap hs ps ss in
  let n = L.length msg in
  let cuts = L.map (fun i ->
      let x = Pgp.cut_chars (nat_of_int i) hs ps ss in
      let r = strip_rec x in
      if r = "U:" ^ hx x then "U=" else r) (range 0 n) in
  whole_hang cuts (Printf.sprintf "n=%d|cuts=%s" n (cat ";" cuts))

let () = register "pgp-strip" pgp_strip
let () = register "pgp-wrap" pgp_wrap
let () = register "pgp-cutc" pgp_cutc
