(* streams whose model side is the SPECIFICATION (Grammar.v): the implementation is compared
   with content/spec_* of the generated abstract document, i.e. with the right-hand sides of
   the C03 theorems. *)
open Util
open Grammar

let unh s = if s = "-" then [] else str_of_hex s
let bool_of s = (s = "1")

(* flat token encoding of a document, space separated:
   B | C hex nl | P | F name ws first nl n (indent text)^n | c hex nl          ("-" = empty string) *)
let parse_doc (enc : string) : block list =
  let toks = L.filter (fun x -> x <> "" && x <> "-" || false) (S.split_on_char ' ' enc) in
  let toks = if enc = "-" then [] else L.filter (fun x -> x <> "") (S.split_on_char ' ' enc) in
  let rec field ts =
    match ts with
    | name :: ws :: first :: nl :: n :: rest ->
      let n = int_of_string n in
      let rec conts k ts acc =
        if k = 0 then (L.rev acc, ts) else
        match ts with
        | i :: t :: r -> conts (k - 1) r ((unh i, unh t) :: acc)
        | _ -> failwith "bad cont" in
      let (cs, rest) = conts n rest [] in
      ({ f_name = unh name; f_ws = unh ws; f_first = unh first; f_cont = cs; f_nl = bool_of nl }, rest)
    | _ -> failwith "bad field"
  and items ts acc =
    match ts with
    | "F" :: r -> let (f, r') = field r in items r' (IField f :: acc)
    | "c" :: h :: nl :: r -> items r (IComment (unh h, bool_of nl) :: acc)
    | _ -> (L.rev acc, ts)
  and blocks ts acc =
    match ts with
    | [] -> L.rev acc
    | "B" :: r -> blocks r (BBlank :: acc)
    | "C" :: h :: nl :: r -> blocks r (BComment (unh h, bool_of nl) :: acc)
    | "P" :: "F" :: r ->
      let (f, r') = field r in
      let (its, r'') = items r' [] in
      blocks r'' (BPara (f, its) :: acc)
    | _ -> failwith "bad doc encoding" in
  blocks toks []

let items_s it = cat "," (L.map (fun (k, v) -> hx k ^ "=" ^ hx v) it)

(* stream deb822-doc: fields = [hex text; doc encoding; hex probe key] *)
let deb822_doc (fs : string list) : string =
  let text = str_of_hex (L.nth fs 0) in
  let d = parse_doc (L.nth fs 1) in
  let k = str_of_hex (L.nth fs 2) in
  if not (wf_doc d) then "GENERATOR-NOT-WF"
  else if render d <> text then "GENERATOR-RENDER-MISMATCH:" ^ hx (render d)
  else begin
    let c = content d in
    let first = match c with [] -> "ERR" | p :: _ -> "OK:" ^ items_s p in
    let per_para p =
      Printf.sprintf "keys=%s;get=%s;all=%s;has=%s" (cat "," (L.map hx (spec_keys p)))
        (opt_hex (spec_get p k)) (cat "," (L.map hx (spec_get_all p k))) (bool_s (spec_contains p k)) in
    Printf.sprintf "strict=OK:%s|first=%s|look=%s" (cat "" (L.map (fun p -> "[" ^ items_s p ^ "]") c)) first (cat "/" (L.map per_para c))
  end

let () = register "deb822-doc" deb822_doc
let () = register "deb822-reject" S_deb822.deb822_parse
