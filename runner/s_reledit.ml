(* stream rel-edit: the register machine of coq/model/RelEdit.v on the case files of
   harness/src/s_reledit.rs (same record format).
   VERIF_C11_MODEL selects the variant of the model: shipped | fixed (default) | fixes:<a>,<b>,..
   (exactly those fixes; vlib/props/c11.py sets this from the fixes it finds applied in the
   repository under test) | only-<name> | no-<name>. *)
open Util
open Base
open RelEdit

let variant : RelEdit.variant =
  let mk f =
    { fx_insert_first = f "insert-first"; fx_append_sep = f "append-sep"; fx_pipe = f "pipe";
      fx_entry_push = f "entry-push"; fx_version_pos = f "version-pos"; fx_remove_last = f "remove-last";
      fx_first_substvar = f "first-substvar"; fx_replace_ws = f "replace-ws"; fx_in_place = f "in-place" } in
  match (try Sys.getenv "VERIF_C11_MODEL" with Not_found -> "fixed") with
  | "shipped" -> RelEdit.shipped
  | "fixed" | "" -> RelEdit.fixed
  | s when S.length s >= 6 && S.sub s 0 6 = "fixes:" ->
    (* exactly the listed fixes (what vlib/props/c11.py finds applied in the repository) *)
    let l = S.split_on_char ',' (S.sub s 6 (S.length s - 6)) in
    mk (fun n -> L.mem n l)
  | s ->
    (* "only-<name>": the shipped code plus one fix; "no-<name>": all fixes but one *)
    let only = S.length s > 5 && S.sub s 0 5 = "only-" in
    let name = if only then S.sub s 5 (S.length s - 5) else S.sub s 3 (S.length s - 3) in
    mk (fun n -> if n = name then only else not only)

let u = str_of_hex
let nat s = nat_of_int (int_of_string s)

let vc_of = function
  | "ge" -> VGe | "le" -> VLe | "eq" -> VEq | "gt" -> VGt | "lt" -> VLt | _ -> failwith "bad vc"
exception Bad_version
(* a version operand is a debversion::Version: what the code sees of it is Display(FromStr(text)),
   the model's RelEdit.version_operand; a text that is not a version makes the operand an error *)
let ver_of (s : string) =
  if s = "-" then None
  else match S.index_opt s '.' with
    | Some i ->
      (match version_operand (u (S.sub s (i + 1) (S.length s - i - 1))) with
       | Ok v -> Some (vc_of (S.sub s 0 i), v)
       | _ -> raise Bad_version)
    | None -> failwith "bad ver"
let strs_of s = if s = "-" || s = "_" then [] else L.map u (S.split_on_char '.' s)
(* builder: "-" .architectures() not called, "_" called with an empty vec; lossy: "!" None *)
let archs_opt_of s = if s = "-" || s = "!" then None else Some (strs_of s)
let group_of s =
  if s = "-" || s = "_" then []
  else L.map (fun p -> let n = u (S.sub p 1 (S.length p - 1)) in
                if p.[0] = 'd' then PDisabled n else PEnabled n) (S.split_on_char '.' s)
let groups_of s = if s = "-" then [] else L.map group_of (S.split_on_char '+' s)
let opt_of s = if s = "-" then None else Some (u s)

let relspec_of (spec : string) : relspec =
  match S.split_on_char '~' spec with
  | ["p"; t] -> RSParse (u t)
  | ["s"; n] -> RSSimple (u n)
  | ["n"; n; v] -> RSNew (u n, ver_of v)
  | ["b"; n; v; q; a; p; ap] -> RSBuild (u n, ver_of v, opt_of q, archs_opt_of a, groups_of p @ groups_of ap)
  | ["l"; n; v; q; a; p] -> RSLossy (u n, ver_of v, opt_of q, (if a = "!" then None else Some (strs_of a)), groups_of p)
  | _ -> failwith ("bad relation spec " ^ spec)

let entryspec_of (spec : string) : entryspec =
  let tag = spec.[0] and rest = S.sub spec 1 (S.length spec - 1) in
  let parts = if rest = "" then [] else S.split_on_char ',' rest in
  match tag with
  | 'P' -> ESParse (u rest)
  | 'V' -> ESFromVec (L.map relspec_of parts)
  | 'E' -> ESNewPush (L.map relspec_of parts)
  | 'L' -> ESFromLossy (L.map relspec_of parts)
  | _ -> failwith "bad entry spec"

let initspec_of (spec : string) : initspec =
  let tag = spec.[0] and rest = S.sub spec 1 (S.length spec - 1) in
  match tag with
  | 'N' -> INew
  | 'T' -> IRelaxed (u rest)
  | 'S' -> IStrict (u rest)
  | 'C' -> IFromVec (if rest = "" then [] else L.map entryspec_of (S.split_on_char ';' rest))
  | _ -> failwith "bad init"

let op_of (s : string) : op =
  match S.split_on_char '/' s with
  | ["ge"; k; i] -> OGetEntry (nat k, nat i)
  | ["gr"; k; m; j] -> OGetRel (nat k, nat m, nat j)
  | ["ne"; k; e] -> ONewEntry (nat k, entryspec_of e)
  | ["nr"; k; r] -> ONewRel (nat k, relspec_of r)
  | ["push"; k] -> OPush (nat k)
  | ["ins"; i; k] -> OInsert (nat i, nat k)
  | ["rep"; i; k] -> OReplace (nat i, nat k)
  | ["rme"; i] -> ORemoveEntry (nat i)
  | ["epush"; k; m] -> OEPush (nat k, nat m)
  | ["erep"; k; j; m] -> OEReplace (nat k, nat j, nat m)
  | ["ermr"; k; j] -> OERemoveRel (nat k, nat j)
  | ["erm"; k] -> OERemove (nat k)
  | ["rrm"; m] -> ORRemove (nat m)
  | ["sv"; m; v] -> OSetVersion (nat m, ver_of v)
  | ["dc"; m] -> ODropConstraint (nat m)
  | ["sq"; m; q] -> OSetArchqual (nat m, u q)
  | ["sa"; m; a] -> OSetArchs (nat m, strs_of a)
  | ["ap"; m; g] -> OAddProfile (nat m, group_of g)
  | _ -> failwith ("bad op " ^ s)

(* ---- records ---- *)
let vc_text = function VGe -> ">=" | VLe -> "<=" | VEq -> "=" | VGt -> ">>" | VLt -> "<<"
let hexa s = let b = Buffer.create 8 in S.iter (fun c -> Buffer.add_string b (Printf.sprintf "%02x" (Char.code c))) s; Buffer.contents b
let profile_s = function PEnabled n -> "e" ^ hx n | PDisabled n -> "d" ^ hx n
let relrec_s (r : relrec) =
  let qual = match r.rr_qual with None -> "-" | Some q -> hx q in
  let ver = match r.rr_ver with
    | None -> "-"
    | Some (vc, v) -> hexa (vc_text vc) ^ "." ^ hx v in
  let archs = match r.rr_archs with None -> "-" | Some [] -> "_" | Some l -> cat "." (L.map hx l) in
  let groups = L.map (fun g -> if g = [] then "_" else cat "." (L.map profile_s g)) r.rr_profs in
  let profs = if groups = [] then "-" else cat "+" groups in
  Printf.sprintf "%s~%s~%s~%s~%s" (hx r.rr_name) qual ver archs profs
(* what the accessors return, versions through debversion: the model's RelEdit.structure_d *)
let structure_s (t : RelLex.rkind elem) =
  match structure_d t with
  | Ok es -> cat ";" (L.map (fun e -> cat "," (L.map relrec_s e)) es)
  | _ -> "!"

exception Stop of string

let state_s (dump : bool) (st : state) : string =
  match root_tree st with
  | Ok t ->
    let tx = text t in
    let strict = (match RelParse.relations_from_str tx with Ok _ -> true | Err _ -> false
                                                           | Panic _ -> raise (Stop "PANIC") | OutOfFuel -> raise (Stop "HANG")) in
    let relaxed = (match RelParse.parse_relaxed tx true with Ok (t', n) -> (t', n = Datatypes.O)
                                                            | Err _ -> raise (Stop "ERR") | Panic _ -> raise (Stop "PANIC") | OutOfFuel -> raise (Stop "HANG")) in
    let flags = bool_s strict ^ bool_s (snd relaxed) in
    if dump then
      let et = L.map (fun e -> let x = text e in if x = [] then "_" else hx x) (RelEdit.entries t) in
      let et = if et = [] then "-" else cat "." et in
      Printf.sprintf "%s:%s:%s:%s:%s" (hx tx) flags (structure_s t) (structure_s (fst relaxed)) et
    else Printf.sprintf "%s:%s" (hx tx) flags
  | Err _ -> raise (Stop "MODEL-ERR") | Panic _ -> raise (Stop "PANIC") | OutOfFuel -> raise (Stop "HANG")

let outcome_s = function 0 -> "ok" | 1 -> "skip" | 2 -> "g1" | 3 -> "g0" | 4 -> "n1" | 5 -> "n0" | 6 -> "ok1" | 7 -> "ok0" | _ -> "?"

(* an operand whose version text is not a debversion::Version: the harness reports n0 *)
let bad_version_step (st : state) (o : string) : (string * state) option =
  let unparsable = ESParse (u "28") and unparsable_r = RSParse (u "28") in
  let via op = (match run_op variant op st with Ok (_, st') -> Some ("n0:-", st') | _ -> None) in
  match S.split_on_char '/' o with
  | "ne" :: k :: _ -> via (ONewEntry (nat k, unparsable))
  | "nr" :: k :: _ -> via (ONewRel (nat k, unparsable_r))
  | ["sv"; m; _] ->
    (match has_reg (rreg (nat m)) st with
     | Ok (true, _) -> (match reg_text (rreg (nat m)) st with
         | Ok (Some t, _) -> Some ("n0:" ^ hx t, st)
         | _ -> None)
     | _ -> None)
  | _ -> None

let run (dump : bool) (init : string) (prog : string) : string =
  match (try init_state variant (initspec_of init) with Bad_version -> Err (n_of_int 1)) with
  | Err _ -> "init=ERR" | Panic _ -> "init=PANIC" | OutOfFuel -> "HANG"
  | Ok st0 ->
    (match (try Stdlib.Ok (state_s dump st0) with Stop s -> Stdlib.Error s) with
     | Stdlib.Error s -> if s = "HANG" then "HANG" else "init=" ^ s
     | Stdlib.Ok init_s ->
       let ops = L.filter (fun x -> x <> "" && x <> "-") (S.split_on_char ' ' prog) in
       let rec go st ops acc =
         match ops with
         | [] -> L.rev acc
         | o :: rest ->
           (match (try Stdlib.Ok (op_of o) with Bad_version -> Stdlib.Error ()) with
            | Stdlib.Error () ->
              (match bad_version_step st o with
               | Some (rec_, st') -> go st' rest (rec_ :: acc)
               | None ->
                 (* sv through an empty register: skip *)
                 (match (try Stdlib.Ok (state_s dump st) with Stop s -> Stdlib.Error s) with
                  | Stdlib.Ok s -> go st rest (Printf.sprintf "skip:%s:-" s :: acc)
                  | Stdlib.Error s -> L.rev (s :: acc)))
            | Stdlib.Ok theop ->
           (match run_op variant theop st with
            | Ok ((code, h), st') ->
              let c = outcome_s (int_of_n code) in
              let hs = (match h with None -> "-" | Some t -> hx t) in
              if c.[0] = 'g' || c.[0] = 'n' then go st' rest ((c ^ ":" ^ hs) :: acc)
              else (match (try Stdlib.Ok (state_s dump st') with Stop s -> Stdlib.Error s) with
                  | Stdlib.Ok s -> go st' rest (Printf.sprintf "%s:%s:%s" c s hs :: acc)
                  | Stdlib.Error s -> L.rev (s :: acc))
            | Panic _ -> L.rev ("PANIC" :: acc)
            | Err e -> L.rev (("MODEL-ERR" ^ string_of_int (int_of_n e)) :: acc)
            | OutOfFuel -> L.rev ("HANG" :: acc))) in
       let steps = go st0 ops [] in
       if L.mem "HANG" steps then "HANG" else Printf.sprintf "init=%s|steps=%s" init_s (cat "/" steps))

let replace_all (s : string) (a : string) (b : string) : string =
  let la = S.length a in
  let buf = Buffer.create (S.length s) in
  let i = ref 0 in
  while !i < S.length s do
    if !i + la <= S.length s && S.sub s !i la = a then (Buffer.add_string buf b; i := !i + la)
    else (Buffer.add_char buf s.[!i]; incr i)
  done;
  Buffer.contents buf

let rel_edit (fs : string list) : string =
  match fs with
  | dump :: init :: _note :: progs ->
    let runs = L.mapi (fun i p ->
        let r = run (dump = "1") init p in
        replace_all (replace_all r "init=" (Printf.sprintf "i%d=" i)) "steps=" (Printf.sprintf "s%d=" i)) progs in
    if L.mem "HANG" runs then "HANG" else cat "|" runs
  | _ -> failwith "bad case"

let () = register "rel-edit" rel_edit
