(* streams of the C16 cone: the derive macro expansion at both paragraph back-ends *)
open Util
open Base
open Derive
open DeriveExt

let find_struct (id : string) : structspec option =
  let want = L.map n_of_int (codepoints_of_utf8 id) in
  L.find_opt (fun s -> s.s_id = want) Structs_gen.all_structs
let sk = Structs_gen.ll_set_variant
let rk = Structs_gen.ll_remove_variant

(* "hexk=hexv,hexk=hexv" ("-" = no item) *)
let parse_items (enc : string) : (BinNums.coq_N list * BinNums.coq_N list) list =
  if enc = "-" || enc = "" then [] else
  L.map (fun f -> match S.split_on_char '=' f with
      | [k; v] -> (str_of_hex k, str_of_hex v)
      | _ -> failwith "bad item") (S.split_on_char ',' enc)

(* external codec table: "id:hexraw:hexcanon" or "id:hexraw:-" *)
let parse_table (enc : string) : ext_table =
  if enc = "-" || enc = "" then [] else
  L.map (fun e -> match S.split_on_char ':' e with
      | [i; raw; canon] -> ((n_of_int (int_of_string i), str_of_hex raw), (if canon = "-" then None else Some (str_of_hex canon)))
      | _ -> failwith "bad table entry") (S.split_on_char ',' enc)

let parse_keys (enc : string) : string list =
  if enc = "-" || enc = "" then [] else S.split_on_char ',' enc

(* the lines of a value held in a hash container come out in arbitrary order: sort them *)
let sort_lines (hexv : string) : string =
  let v = bytes_of_hex hexv in
  let ls = L.sort compare (S.split_on_char '\n' v) in
  let b = Buffer.create 16 in
  S.iter (fun c -> Buffer.add_string b (Printf.sprintf "%02x" (Char.code c))) (S.concat "\n" ls);
  Buffer.contents b

let items_s (unordered : string list) it =
  cat "," (L.map (fun (k, v) ->
      let hk = hx k and hv = hx v in
      hk ^ "=" ^ (if L.mem hk unordered then sort_lines hv else hv)) it)

(* texts are left out when a hash-container field has more than one line *)
let multi_unordered (unordered : string list) it =
  L.exists (fun (k, v) -> L.mem (hx k) unordered && L.mem (n_of_int 10) v) it
let text_s (unordered : string list) it (t : BinNums.coq_N list) =
  if multi_unordered unordered it then "~" else hx t

let dres_s (ok : 'a -> string) (r : 'a dres) : string =
  match r with
  | DOk v -> ok v
  | DErr (Missing k) -> "E:missing:" ^ hx k
  | DErr (Parsing k) -> "E:parse:" ^ hx k

(* equality of struct values: derive(PartialEq) where the struct has it, otherwise (like the harness)
   equality of what the two values print to *)
let rt_s (st : structspec) un v r =
  dres_s (fun v' ->
      let eq = if st.s_eq then yval_eqb v v'
        else (match y_to_lossy st.s_fields v, y_to_lossy st.s_fields v' with
            | Some a, Some b -> items_s un a = items_s un b
            | _, _ -> false) in
      if eq then "1" else "0") r

(* stream derive: fields = [struct id; source items; prior text (hex) or "-"; ext table; unordered keys (hex)] *)
let derive (fs : string list) : string =
  match find_struct (L.nth fs 0) with
  | None -> "UNKNOWN-STRUCT:" ^ L.nth fs 0
  | Some st ->
    let fields = st.s_fields in
    let src = parse_items (L.nth fs 1) in
    let prior = L.nth fs 2 in
    let tbl = parse_table (L.nth fs 3) in
    let un = parse_keys (L.nth fs 4) in
    (* every text one of the three table-driven deserialisers (2 Url, 14 Vec<Url>, 15 NaiveDate) will be
       asked about must be in the case's table; the other codecs are computed by their models *)
    let incomplete = L.exists (fun f -> match f.f_de with
        | DExt i when L.mem (int_of_n i) [2; 14; 15] -> (match Lossy.l_get src f.f_key with
            | Some s -> not (L.exists (fun ((j, x), _) -> j = i && x = s) tbl)
            | None -> false)
        | _ -> false) fields in
    if incomplete then "EXT-TABLE-INCOMPLETE" else
    let from_l = y_from_lossy tbl fields src in
    let from_ll = if st.s_from then dres_s (fun _ -> "OK") (y_from_ll tbl sk rk fields (ll_of_list src)) else "-" in
    let head = Printf.sprintf "from=%s|fromll=%s" (dres_s (fun _ -> "OK") from_l) from_ll in
    match from_l with
    | DErr _ -> head
    | DOk v0 ->
      (* case field 5: keys of list fields whose value is replaced by the empty list *)
      let clr = if L.length fs > 5 then parse_keys (L.nth fs 5) else [] in
      let known k = L.exists (fun f -> hx f.f_key = k) fields in
      if not (L.for_all known clr) then head ^ "|clr=UNSUPPORTED" else
      let v = L.map2 (fun f x -> if L.mem (hx f.f_key) clr then Some (VList []) else x) fields v0 in
      if not st.s_to then head ^ "|to=UNSUPPORTED" else
      let to_l = y_to_lossy fields v and to_ll = y_to_ll sk rk fields v in
      (match to_l, to_ll with
       | Some pl, Some pt ->
         let part_to = Printf.sprintf "to=%s|totext=%s|toll=%s|tolltext=%s"
             (items_s un pl) (text_s un pl (Lossy.print_para pl))
             (items_s un (ll_items pt)) (text_s un pl (texts pt)) in
         let part_rt = if st.s_from then
             Printf.sprintf "|rt=%s|rtll=%s" (rt_s st un v (y_from_lossy tbl fields pl)) (rt_s st un v (y_from_ll tbl sk rk fields pt))
           else "" in
         let part_upd =
           if prior = "-" then "" else begin
             let ptext = str_of_hex prior in
             let lossy_part =
               match Lossy.lossy_paragraph_from_str ptext with
               | Ok p0 ->
                 (match y_update_lossy fields v p0 with
                  | Some p1 ->
                    Printf.sprintf "|prior=%s|upd=%s|updtext=%s%s" (items_s un p0) (items_s un p1) (text_s un pl (Lossy.print_para p1))
                      (if st.s_from then "|updrt=" ^ rt_s st un v (y_from_lossy tbl fields p1) else "")
                  | None -> "|upd=ILLTYPED")
               | Err _ -> "|prior=ERR"
               | Panic _ -> "|prior=PANIC"
               | OutOfFuel -> "|prior=HANG" in
             let ll_part =
               match Deb822Parse.paragraph_from_str ptext with
               | Ok p0node ->
                 let p0 = children p0node in
                 (match y_update_ll sk rk fields v p0 with
                  | Some p1 ->
                    Printf.sprintf "|priorll=%s|priorlltext=%s|updll=%s|updlltext=%s%s" (items_s un (ll_items p0)) (hx (texts p0))
                      (items_s un (ll_items p1)) (text_s un pl (texts p1))
                      (if st.s_from then "|updllrt=" ^ rt_s st un v (y_from_ll tbl sk rk fields p1) else "")
                  | None -> "|updll=ILLTYPED")
               | Err _ -> "|priorll=ERR"
               | Panic _ -> "|priorll=PANIC"
               | OutOfFuel -> "|priorll=HANG" in
             lossy_part ^ ll_part
           end in
         let r = head ^ "|" ^ part_to ^ part_rt ^ part_upd in
         if S.length r >= 4 && (let rec has i = i + 4 <= S.length r && (S.sub r i 4 = "HANG" || has (i + 1)) in has 0) then "HANG" else r
       | _, _ -> head ^ "|to=ILLTYPED")

(* stream derive-codec: fields = [codec; hex text]: the std conversions the codecs are built from *)
let num_s = function None -> "ERR" | Some n -> "OK:" ^ hx n
let list_s l = "OK:" ^ cat "," (L.map hx l)
let derive_codec (fs : string list) : string =
  let s = str_of_hex (L.nth fs 1) in
  let u bits = num_s (match parse_udec (n_of_int bits) s with Some n -> Some (print_dec n) | None -> None) in
  let i bits = num_s (match parse_int (n_of_int bits) s with Some z -> Some (print_int z) | None -> None) in
  match L.nth fs 0 with
  | "u8" -> u 8 | "u16" -> u 16 | "u32" -> u 32 | "u64" -> u 64
  | "i32" -> i 32 | "i64" -> i 64
  | "ws" -> list_s (split_ws s)
  | "nl" -> list_s (Grammar.split_lf s)
  | "lines" -> list_s (Lossy.lines s)
  | c -> "UNKNOWN-CODEC:" ^ c

let () = register "derive" derive
let () = register "derive-malformed" derive
let () = register "derive-codec" derive_codec
