(* Glue between text case files and the extracted model: part of the trusted base. *)
module L = Stdlib.List
module S = Stdlib.String
open BinNums
open Datatypes

let rec pos_of_int (i : int) : positive =
  if i = 1 then Coq_xH else if i land 1 = 0 then Coq_xO (pos_of_int (i lsr 1)) else Coq_xI (pos_of_int (i lsr 1))
let n_of_int (i : int) : coq_N = if i = 0 then N0 else Npos (pos_of_int i)
let rec int_of_pos = function Coq_xH -> 1 | Coq_xO p -> 2 * int_of_pos p | Coq_xI p -> 2 * int_of_pos p + 1
let int_of_n = function N0 -> 0 | Npos p -> int_of_pos p
let rec int_of_nat = function O -> 0 | S n -> 1 + int_of_nat n
let rec nat_of_int i = if i <= 0 then O else S (nat_of_int (i - 1))

let hexval c = match c with
  | '0'..'9' -> Char.code c - 48 | 'a'..'f' -> Char.code c - 87 | 'A'..'F' -> Char.code c - 55
  | _ -> failwith "bad hex"
let bytes_of_hex (h : string) : string =
  let n = S.length h / 2 in
  S.init n (fun i -> Char.chr (hexval h.[2*i] * 16 + hexval h.[2*i+1]))

(* decode valid UTF-8 into code points *)
let codepoints_of_utf8 (s : string) : int list =
  let n = S.length s in
  let rec go i acc =
    if i >= n then L.rev acc else
    let b = Char.code s.[i] in
    if b < 0x80 then go (i+1) (b :: acc)
    else if b < 0xE0 then go (i+2) ((((b land 0x1F) lsl 6) lor (Char.code s.[i+1] land 0x3F)) :: acc)
    else if b < 0xF0 then
      go (i+3) ((((b land 0x0F) lsl 12) lor ((Char.code s.[i+1] land 0x3F) lsl 6) lor (Char.code s.[i+2] land 0x3F)) :: acc)
    else
      go (i+4) ((((b land 0x07) lsl 18) lor ((Char.code s.[i+1] land 0x3F) lsl 12)
                 lor ((Char.code s.[i+2] land 0x3F) lsl 6) lor (Char.code s.[i+3] land 0x3F)) :: acc)
  in go 0 []

let utf8_of_codepoints (l : int list) : string =
  let b = Buffer.create 16 in
  L.iter (fun c ->
    if c < 0x80 then Buffer.add_char b (Char.chr c)
    else if c < 0x800 then (Buffer.add_char b (Char.chr (0xC0 lor (c lsr 6)));
                            Buffer.add_char b (Char.chr (0x80 lor (c land 0x3F))))
    else if c < 0x10000 then (Buffer.add_char b (Char.chr (0xE0 lor (c lsr 12)));
                              Buffer.add_char b (Char.chr (0x80 lor ((c lsr 6) land 0x3F)));
                              Buffer.add_char b (Char.chr (0x80 lor (c land 0x3F))))
    else (Buffer.add_char b (Char.chr (0xF0 lor (c lsr 18)));
          Buffer.add_char b (Char.chr (0x80 lor ((c lsr 12) land 0x3F)));
          Buffer.add_char b (Char.chr (0x80 lor ((c lsr 6) land 0x3F)));
          Buffer.add_char b (Char.chr (0x80 lor (c land 0x3F))))) l;
  Buffer.contents b

let str_of_hex (h : string) : coq_N list = L.map n_of_int (codepoints_of_utf8 (bytes_of_hex h))
let hex_of_str (s : coq_N list) : string =
  let u = utf8_of_codepoints (L.map int_of_n s) in
  let b = Buffer.create (2 * S.length u) in
  S.iter (fun c -> Buffer.add_string b (Printf.sprintf "%02x" (Char.code c))) u;
  Buffer.contents b

let hx = hex_of_str
let opt_hex = function None -> "-" | Some s -> "+" ^ hx s
let bool_s b = if b then "1" else "0"
let cat sep l = S.concat sep l
let split_tab (l : string) = S.split_on_char '\t' l

(* ---- stream registry: every runner/s_*.ml registers its streams at module initialisation ---- *)
let streams : (string * (string list -> string)) list ref = ref []
let register (name : string) (f : string list -> string) = streams := (name, f) :: !streams

let res_str (f : 'a -> string) (r : 'a Base.res) : string =
  match r with
  | Base.Ok a -> f a
  | Base.Err _ -> "ERR"
  | Base.Panic _ -> "PANIC"
  | Base.OutOfFuel -> "HANG"

(* a record any of whose parts is HANG is HANG as a whole (the harness can only kill the whole case) *)
let whole_hang (parts : string list) (r : string) = if L.mem "HANG" parts then "HANG" else r
