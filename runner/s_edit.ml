(* stream deb822-edit: an initial document and a list of editing operations; after every
   operation the printed document and items() of every paragraph; at the end the strict re-read *)
open Util
open Base

let items_s it = cat "," (L.map (fun (k, v) -> hx k ^ "=" ^ hx v) it)
let doc_s t = cat "" (L.map (fun p -> "[" ^ items_s p ^ "]") (Deb822Parse.doc_items t))

(* init:  T:<hex text> (from_str_relaxed) | F:<ldoc> (FromIterator of paragraphs built from pairs) | N (Deb822::new)
          | P:<hex;hex;..> (FromIterator of paragraphs parsed from each text) *)
let init_tree (s : string) : Deb822Lex.kind elem res =
  if s = "N" then Ok (Deb822Edit.deb822_of_paragraphs [])
  else if S.length s >= 2 && S.sub s 0 2 = "T:" then
    (match Deb822Parse.from_str_relaxed (str_of_hex (S.sub s 2 (S.length s - 2))) with
     | Ok (t, _) -> Ok t | Err e -> Err e | Panic n -> Panic n | OutOfFuel -> OutOfFuel)
  else if S.length s >= 2 && S.sub s 0 2 = "F:" then
    Ok (Deb822Edit.deb822_of_paragraphs
          (L.map Deb822Edit.paragraph_of_pairs (S_lossy.parse_ldoc (S.sub s 2 (S.length s - 2)))))
  else if S.length s >= 2 && S.sub s 0 2 = "P:" then
    (* FromIterator of paragraphs obtained by Paragraph::from_str of each ';'-separated text *)
    let texts = L.filter (fun x -> x <> "") (S.split_on_char ';' (S.sub s 2 (S.length s - 2))) in
    let rec go acc = function
      | [] -> Ok (Deb822Edit.deb822_of_paragraphs (L.rev acc))
      | h :: r -> (match Deb822Parse.paragraph_from_str (str_of_hex h) with
                   | Ok p -> go (p :: acc) r | Err e -> Err e | Panic n -> Panic n | OutOfFuel -> OutOfFuel) in
    go [] texts
  else failwith "bad init"

(* the text of every paragraph (Paragraph::to_string), '.'-terminated so that empty texts stay visible *)
let ptexts t = cat "" (L.map (fun p -> hx (text p) ^ ".") (Deb822Parse.paragraphs t))

let npara t = L.length (Deb822Parse.paragraphs t)

(* ops: S:p:k:v  I:p:k:v  R:p:k  N:p:old:new  A  J:i  D:i *)
let apply_op (t : Deb822Lex.kind elem) (op : string) : Deb822Lex.kind elem * string =
  let u = str_of_hex in
  match S.split_on_char ':' op with
  | ["S"; p; k; v] -> let p = int_of_string p in
    if p >= npara t then (t, "skip") else (Deb822Edit.on_para t (nat_of_int p) (fun cs -> Deb822Edit.para_set cs (u k) (u v)), "")
  | ["I"; p; k; v] -> let p = int_of_string p in
    if p >= npara t then (t, "skip") else (Deb822Edit.on_para t (nat_of_int p) (fun cs -> Deb822Edit.para_insert cs (u k) (u v)), "")
  | ["R"; p; k] -> let p = int_of_string p in
    if p >= npara t then (t, "skip") else (Deb822Edit.on_para t (nat_of_int p) (fun cs -> Deb822Edit.para_remove cs (u k)), "")
  | ["N"; p; o; n] -> let p = int_of_string p in
    if p >= npara t then (t, "skip") else
      let ps = Deb822Parse.paragraphs t in
      let found = snd (Deb822Edit.para_rename (children (L.nth ps p)) (u o) (u n)) in
      (Deb822Edit.on_para t (nat_of_int p) (fun cs -> fst (Deb822Edit.para_rename cs (u o) (u n))), if found then "renamed" else "notfound")
  | ["A"] -> (Deb822Edit.add_paragraph t, "")
  | ["J"; i] -> (Deb822Edit.insert_paragraph t (nat_of_int (int_of_string i)), "")
  | ["D"; i] -> (Deb822Edit.remove_paragraph t (nat_of_int (int_of_string i)), "")
  | _ -> failwith ("bad op " ^ op)

let deb822_edit (fs : string list) : string =
  match init_tree (L.nth fs 0) with
  | Err _ -> "ERR" | Panic _ -> "PANIC" | OutOfFuel -> "HANG"
  | Ok t0 ->
    let ops = L.filter (fun x -> x <> "" && x <> "-") (S.split_on_char ' ' (L.nth fs 1)) in
    let (t, outs) = L.fold_left (fun (t, acc) op ->
        let (t', note) = apply_op t op in
        (t', (Printf.sprintf "%s%s~%s~%s" note (hx (text t')) (doc_s t') (ptexts t')) :: acc)) (t0, []) ops in
    let final = text t in
    let reread = res_str (fun t' -> "OK:" ^ doc_s t') (Deb822Parse.from_str final) in
    whole_hang [reread] (Printf.sprintf "init=%s~%s~%s|steps=%s|reread=%s" (hx (text t0)) (doc_s t0) (ptexts t0) (cat "/" (L.rev outs)) reread)

let () = register "deb822-edit" deb822_edit
let () = register "deb822-edit-any" deb822_edit
