(* C12 streams: vercmp (Debian version ordering), sat / sat-text (dependency satisfaction) *)
open Util
open Base

let ver_s (v : DebVersion.version) : string =
  Printf.sprintf "%s:%s:%s"
    (match v.DebVersion.epoch with None -> "-" | Some e -> string_of_int (int_of_n e))
    (hx v.DebVersion.upstream) (opt_hex v.DebVersion.revision)

let cmp_s (c : Datatypes.comparison) : string =
  match c with Datatypes.Lt -> "LT" | Datatypes.Eq -> "EQ" | Datatypes.Gt -> "GT"

(* stream vercmp: fields = [hex a; hex b] *)
let vercmp (fs : string list) : string =
  let a = str_of_hex (L.nth fs 0) and b = str_of_hex (L.nth fs 1) in
  let pa = DebVersion.parse_version a and pb = DebVersion.parse_version b in
  let show = function None -> "ERR" | Some v -> ver_s v in
  let cmp, rev, eq, refc =
    match pa, pb with
    | Some x, Some y ->
        res_str cmp_s (DebVersion.ver_cmp x y), res_str cmp_s (DebVersion.ver_cmp y x),
        res_str bool_s (DebVersion.ver_eq x y), cmp_s (DebVersion.vcmp x y)
    | _, _ -> "-", "-", "-", "-" in
  ignore refc;
  whole_hang [cmp; rev; eq]
    (Printf.sprintf "a=%s|b=%s|cmp=%s|rev=%s|eq=%s" (show pa) (show pb) cmp rev eq)

let () = register "vercmp" vercmp
