(* C12 streams: vercmp (Debian version ordering), sat / sat-text (dependency satisfaction) *)
open Util
open Base

let ver_s (v : DebVersion.version) : string =
  Printf.sprintf "%s:%s:%s"
    (match v.DebVersion.epoch with None -> "-" | Some e -> string_of_int (int_of_n e))
    (hx v.DebVersion.upstream) (opt_hex v.DebVersion.revision)

let cmp_s (c : Datatypes.comparison) : string =
  match c with Datatypes.Lt -> "LT" | Datatypes.Eq -> "EQ" | Datatypes.Gt -> "GT"

(* stream vercmp: fields = [hex a; hex b] *)
let vercmp (fs : string list) : string =
  let a = str_of_hex (L.nth fs 0) and b = str_of_hex (L.nth fs 1) in
  let pa = DebVersion.parse_version a and pb = DebVersion.parse_version b in
  let show = function None -> "ERR" | Some v -> ver_s v in
  let cmp, rev, eq =
    match pa, pb with
    | Some x, Some y ->
        res_str cmp_s (DebVersion.ver_cmp x y), res_str cmp_s (DebVersion.ver_cmp y x),
        res_str bool_s (DebVersion.ver_eq x y)
    | _, _ -> "-", "-", "-" in
  whole_hang [cmp; rev; eq]
    (Printf.sprintf "a=%s|b=%s|cmp=%s|rev=%s|eq=%s" (show pa) (show pb) cmp rev eq)

let () = register "vercmp" vercmp

(* ---- decoding of structured cases ---- *)
let split_on c s = if s = "" then [] else S.split_on_char c s

(* alt = hexname | hexname:hexop:hexver *)
let parse_alt (a : string) =
  match S.split_on_char ':' a with
  | [n] -> (str_of_hex n, None)
  | [n; o; v] -> (str_of_hex n, Some (str_of_hex o, str_of_hex v))
  | _ -> failwith "bad alternative"
let parse_struct (s : string) =
  if s = "-" then [] else L.map (fun e -> L.map parse_alt (split_on ',' e)) (S.split_on_char ';' s)
let parse_assignment (s : string) =
  if s = "-" then [] else
  L.map (fun kv -> match S.split_on_char ':' kv with
                   | [k; v] -> (str_of_hex k, str_of_hex v)
                   | _ -> failwith "bad assignment") (S.split_on_char ',' s)
let parse_probes (s : string) = if s = "-" then [] else L.map str_of_hex (S.split_on_char ',' s)

let rb (r : bool Base.res) : string = res_str bool_s r
let opt_ver = function None -> "-" | Some v -> ver_s v

(* the text-based parts shared by sat and sat-text: ll, lr, ne, le *)
let text_parts (text : BinNums.coq_N list) (closure : BinNums.coq_N list -> DebVersion.version option) =
  let ll = match RelParse.relations_from_str text with
    | Base.Ok t -> rb (Sat.deb_ll_sat t closure)
    | Base.Err _ -> "ERR" | Base.Panic _ -> "PANIC" | Base.OutOfFuel -> "HANG" in
  let lr, ne, le = match RelParse.parse_relaxed text false with
    | Base.Ok (t, n) ->
        rb (Sat.deb_ll_sat t closure), string_of_int (int_of_nat n),
        cat "" (L.map (fun e -> match Sat.deb_ll_entry_sat e closure with
                                | Base.Ok true -> "1" | Base.Ok false -> "0"
                                | Base.OutOfFuel -> "HANG" | _ -> "P") (RelParse.r_entries t))
    | Base.Err _ -> "ERR", "-", "" | Base.Panic _ -> "PANIC", "-", "" | Base.OutOfFuel -> "HANG", "-", "" in
  (ll, lr, ne, le)

(* stream sat-text: fields = [hex text; assignment] *)
let sat_text (fs : string list) : string =
  let text = str_of_hex (L.nth fs 0) in
  match Sat.deb_type_assignment (parse_assignment (L.nth fs 1)) with
  | None -> "BADCASE"
  | Some asg ->
    let closure = Sat.find_last asg in
    let (ll, lr, ne, le) = text_parts text closure in
    whole_hang [ll; lr] (Printf.sprintf "ll=%s|lr=%s|ne=%s|le=%s" ll lr ne le)

(* S-expression dump of a tree, as Relations::verif_dump prints it: (kind child ...) for nodes,
   kind:hex for tokens *)
let rec dump_tree (t : RelLex.rkind Base.elem) : string =
  match t with
  | Base.Tok (k, s) -> Printf.sprintf "%d:%s" (int_of_n (RelLex.rkind_code k)) (hx s)
  | Base.Node (k, cs) ->
    Printf.sprintf "(%d%s)" (int_of_n (RelLex.rkind_code k)) (cat "" (L.map (fun c -> " " ^ dump_tree c) cs))

(* Relations::wrap_and_sort() applied to a tree, then Relations::satisfied_by: the model of the C13
   cone (RelWrap.relations_ws, the code with the C13 patches, which /repo has: variant fixed).
   props/C12.v, C12_wrap_invariant_any_tree: on the safe domain this is the answer for the tree itself *)
let wrapped_sat (t : RelLex.rkind Base.elem) closure : string =
  match RelWrap.relations_ws RelWrap.fixed t with
  | Base.Ok w -> rb (Sat.deb_ll_sat w closure)
  | Base.Err _ -> "ERR" | Base.Panic _ -> "PANIC" | Base.OutOfFuel -> "HANG"

(* stream sat: fields = [hex text or "!"; structure; assignment; probes] *)
let sat (fs : string list) : string =
  let st = parse_struct (L.nth fs 1) in
  match Sat.deb_type_assignment (parse_assignment (L.nth fs 2)) with
  | None -> "BADCASE"
  | Some asg ->
    (* the closure goes to the crate's field-level evaluators; the map and the pair can only be
       handed to lossy::Relation::satisfied_by, alternative by alternative *)
    let closure = Sat.find_last asg in
    let hmap = Sat.LMap (Sat.hm_of_list asg) in
    let pair = match asg with [] -> None | (n, v) :: _ -> Some (Sat.LPair (n, v)) in
    let typed = Sat.deb_type_field st in
    let has_text = L.nth fs 0 <> "!" in
    let (ll, lr, ne, le) =
      if has_text then text_parts (str_of_hex (L.nth fs 0)) closure else ("-", "-", "-", "") in
    (* lw: the tolerant reader's tree after wrap_and_sort *)
    let lw = if not has_text then "-" else
      match RelParse.parse_relaxed (str_of_hex (L.nth fs 0)) false with
      | Base.Ok (t, _) -> wrapped_sat t closure
      | Base.Err _ -> "ERR" | Base.Panic _ -> "PANIC" | Base.OutOfFuel -> "HANG" in
    let ly = if not has_text then "-" else
      match typed with None -> "ERR" | Some f -> rb (Sat.deb_lossy_sat f closure) in
    let rt = if not has_text then "-" else match typed with None -> "-" | Some _ -> "1" in
    let lc, lcd, cw = match typed with None -> "-", "-", "-" | Some f ->
      let t = Sat.deb_build_field f in rb (Sat.deb_ll_sat t closure), dump_tree t, wrapped_sat t closure in
    let yc = match typed with None -> "-" | Some f -> rb (Sat.deb_lossy_sat f closure) in
    let by lk = match typed with None -> "-" | Some f -> rb (Sat.deb_by_relation f lk) in
    let ym = by hmap in
    let yp = match pair with None -> "-" | Some p -> by p in
    let sv, svd = match typed with None -> "-", "-" | Some f ->
      (match Sat.deb_sv_field f with
       | Base.Ok t -> rb (Sat.deb_ll_sat t closure), dump_tree t
       | Base.Err _ -> "ERR", "-" | Base.Panic _ -> "PANIC", "-" | Base.OutOfFuel -> "HANG", "-") in
    let lk = cat "," (L.map (fun n ->
        Printf.sprintf "%s/%s/%s" (opt_ver (Sat.lookup_version hmap n)) (opt_ver (closure n))
          (match pair with None -> "-" | Some p -> opt_ver (Sat.lookup_version p n)))
        (parse_probes (L.nth fs 3))) in
    whole_hang [ll; lr; ly; lc; yc; ym; yp; sv; lw; cw]
      (Printf.sprintf "ty=%s|ll=%s|lr=%s|ne=%s|le=%s|ly=%s|rt=%s|lc=%s|yc=%s|ym=%s|yp=%s|sv=%s|lw=%s|cw=%s|lcd=%s|svd=%s|lk=%s"
         (match typed with None -> "0" | Some _ -> "1") ll lr ne le ly rt lc yc ym yp sv lw cw lcd svd lk)

let () = register "sat-text" sat_text
let () = register "sat" sat
