(* streams about relationship fields *)
open Util
open Base

let rtokens_s (ts : (RelLex.rkind * BinNums.coq_N list) list) =
  cat "," (L.map (fun (k, s) -> string_of_int (int_of_n (RelLex.rkind_code k)) ^ ":" ^ hx s) ts)

(* stream rel-parse: fields = [hex input] *)
let rel_parse (fs : string list) : string =
  let s = str_of_hex (L.nth fs 0) in
  let lx = res_str rtokens_s (RelLex.rlex s) in
  let relaxed allow = res_str (fun (t, n) -> Printf.sprintf "%s:%d:%d" (hx (text t)) (int_of_nat n) (int_of_nat (depth t)))
      (RelParse.parse_relaxed s allow) in
  let r0 = relaxed false and r1 = relaxed true in
  let strict = res_str (fun t -> "OK:" ^ hx (text t)) (RelParse.relations_from_str s) in
  let ent = res_str (fun t -> "OK:" ^ hx (text t)) (RelParse.entry_from_str s) in
  let rel = res_str (fun t -> "OK:" ^ hx (text t)) (RelParse.relation_from_str s) in
  whole_hang [lx; r0; r1; strict; ent; rel]
    (Printf.sprintf "lex=%s|r0=%s|r1=%s|strict=%s|entry=%s|relation=%s" lx r0 r1 strict ent rel)

let () = register "rel-parse" rel_parse
