(* stream totality: the outcome class (OK / ERR / PANIC / HANG) of every text-parsing entry point
   that has a model.  The harness prints all entry points; the C02 check compares the common keys. *)
open Util
open Base

let cls (r : 'a res) : string = res_str (fun _ -> "OK") r

let totality (fs : string list) : string =
  let s = str_of_hex (L.nth fs 0) in
  let entries = [
    ("d822", (fun () -> cls (Deb822Parse.from_str s)));
    ("d822r", (fun () -> cls (Deb822Parse.from_str_relaxed s)));
    ("d822read", (fun () -> cls (Deb822Parse.from_str s)));          (* read = read_to_string + from_str *)
    ("d822readr", (fun () -> cls (Deb822Parse.from_str_relaxed s)));
    ("para", (fun () -> cls (Deb822Parse.paragraph_from_str s)));
    ("ld822", (fun () -> cls (Lossy.lossy_from_str s)));
    ("lpara", (fun () -> cls (Lossy.lossy_paragraph_from_str s)));
    ("rels", (fun () -> cls (RelParse.relations_from_str s)));
    ("relsr0", (fun () -> cls (RelParse.parse_relaxed s false)));
    ("relsr1", (fun () -> cls (RelParse.parse_relaxed s true)));
    ("entry", (fun () -> cls (RelParse.entry_from_str s)));
    ("rel", (fun () -> cls (RelParse.relation_from_str s)));
    ("pgp", (fun () -> cls (Pgp.strip_pgp_signature s)));
    ("copyright", (fun () -> cls (Copyright.ll_from_str s)));
    ("copyrightr", (fun () -> cls (Copyright.ll_from_str_relaxed s)));
    ("lcopyright", (fun () -> cls (Copyright.ly_from_str Copyright.fixed s)));
    ("md5", (fun () -> cls (Codecs.cksum_from_str Codecs.Md5 s)));
    ("sha1", (fun () -> cls (Codecs.cksum_from_str Codecs.Sha1 s)));
    ("sha256", (fun () -> cls (Codecs.cksum_from_str Codecs.Sha256 s)));
    ("sha512", (fun () -> cls (Codecs.cksum_from_str Codecs.Sha512 s)));
    ("priority", (fun () -> cls (EnumTab.enum_parse Enums_gen.coq_Priority_tab s)));
    ("urgency", (fun () -> cls (EnumTab.enum_parse Enums_gen.coq_Urgency_tab s)));
    ("multiarch", (fun () -> cls (EnumTab.enum_parse Enums_gen.coq_MultiArch_tab s)));
    ("vconstraint", (fun () -> cls (EnumTab.enum_parse Enums_gen.coq_VersionConstraint_tab s)));
    ("origincat", (fun () -> cls (EnumTab.enum_parse Enums_gen.coq_OriginCategory_tab s)));
    ("repotype", (fun () -> cls (EnumTab.enum_parse Enums_gen.coq_RepositoryType_tab s)));
    ("ynf", (fun () -> cls (EnumTab.enum_parse Enums_gen.coq_YesNoForce_tab s)));
    ("pkglist", (fun () -> cls (Codecs.ple_from_str Enums_gen.coq_Priority_tab s)));
    ("changesfile", (fun () -> cls (Codecs.file_from_str Enums_gen.coq_Priority_tab s)));
    ("buildprofile", (fun () -> cls (Codecs.profile_from_str s)));
    ("forwarded", (fun () -> cls (Codecs.forwarded_from_str s)));
    ("origin", (fun () -> cls (Codecs.origin_from_str s)));
    ("applied", (fun () -> cls (Codecs.applied_from_str s)));
    ("license", (fun () -> cls (Codecs.license_from_str s)));
    ("signature", (fun () -> cls (Codecs.signature_from_str s)));
    ("identity", (fun () -> cls (Codecs.parse_identity s)));
    ("parsedvcs", (fun () -> cls (ByteVcs.parsed_vcs_from_str_b s)));   (* byte level: PANIC off a boundary *)
    ("vcsgit", (fun () -> cls (Vcs.vcs_from_field (str_of_hex "476974") s)));
  ] in
  let only = match fs with [_; o] -> Some (S.split_on_char ',' o) | _ -> None in
  let parts = L.filter_map (fun (n, f) ->
      match only with Some o when not (L.mem n o) -> None | _ -> Some (n ^ "=" ^ f ())) entries in
  cat "|" parts

let () = register "totality" totality
let () = register "totality-scale" (fun _ -> "-")
let () = register "totality-stack" (fun _ -> "-")
