(* Streams of the C10 cone.
   rel-acc     : the accessor model (RelAcc) on the tree of the parser model, any text.
   rel-acc-pre : the same with the parser / version() / architectures() as they were before the
                 fixes 0eb8794, 43dd02f, 541b0f5 in /repo.
   rel-doc     : the model side is the SPECIFICATION (RelGrammar): the implementation is compared
                 with rcontent of the generated abstract field, i.e. with the right-hand sides
                 of the C10 theorems.
   Record grammar: see harness/src/s_relacc.rs. *)
open Util
open RelGrammar

let op_s = function
  | RelAcc.VGe -> "ge" | RelAcc.VLe -> "le" | RelAcc.VEq -> "eq" | RelAcc.VGt -> "gt" | RelAcc.VLt -> "lt"
let profile_s = function RelAcc.Enabled s -> "e" ^ hx s | RelAcc.Disabled s -> "d" ^ hx s
let groups_s gs = cat "" (L.map (fun g -> "<" ^ cat "." (L.map profile_s g) ^ ">") gs)

let ver_s = function
  | Base.Ok None -> "-"
  | Base.Ok (Some (o, v)) -> op_s o ^ "." ^ hx v
  | Base.OutOfFuel -> "HANG"
  | _ -> "PANIC"

let relation_s (version, archs) r =
  let n = match RelAcc.relation_name r with Base.Ok s -> hx s | Base.OutOfFuel -> "HANG" | _ -> "PANIC" in
  let q = opt_hex (RelAcc.relation_archqual r) in
  let v = ver_s (version r) in
  let a = match archs r with None -> "-" | Some l -> "+" ^ cat "." (L.map hx l) in
  let p = groups_s (RelAcc.relation_profiles r) in
  Printf.sprintf "n:%s,q:%s,v:%s,a:%s,p:%s" n q v a p

let entries_s version t =
  cat ";" (L.map (fun e -> cat "/" (L.map (relation_s version) (RelAcc.entry_relations e))) (RelAcc.relations_entries t))
let substvars_s t = cat "," (L.map hx (RelAcc.relations_substvars t))

let lossless_part parse version s ~subst_free_only =
  let relaxed allow =
    match parse s allow with
    | Base.Ok (t, n) -> (string_of_int (int_of_nat n), entries_s version t, substvars_s t)
    | Base.OutOfFuel -> ("HANG", "HANG", "HANG")
    | _ -> ("PANIC", "PANIC", "PANIC") in
  let (e1, acc1, sv1) = relaxed true in
  let (e0, acc0, sv0) = relaxed false in
  let strict = if e0 = "0" then "OK" else if e0 = "HANG" || e0 = "PANIC" then e0 else "ERR" in
  let acc0 = if acc0 = acc1 then "=" else acc0 in
  let sv0 = if sv0 = sv1 then "=" else sv0 in
  let (e0, strict, acc0, sv0) = if subst_free_only then ("-", "-", "-", "-") else (e0, strict, acc0, sv0) in
  whole_hang [e1; acc1; e0]
    (Printf.sprintf "e1=%s|acc=%s|sv=%s|e0=%s|strict=%s|acc0=%s|sv0=%s" e1 acc1 sv1 e0 strict acc0 sv0)

let rel_acc (fs : string list) : string =
  let s = str_of_hex (L.nth fs 0) in
  lossless_part RelParse.parse_relaxed (RelAcc.relation_version, RelAcc.relation_architectures) s ~subst_free_only:false

let rel_acc_pre (fs : string list) : string =
  let s = str_of_hex (L.nth fs 0) in
  lossless_part RelParsePre.parse (RelParsePre.relation_version_pre, RelParsePre.relation_architectures_pre) s ~subst_free_only:false

(* ---- decoding of the abstract field (vlib/gen_relgrammar.py: encode) ---- *)
let unh s = if s = "-" then [] else str_of_hex s
let rec take_n n f ts acc = if n = 0 then (L.rev acc, ts) else let (x, ts') = f ts in take_n (n - 1) f ts' (x :: acc)

let dec_term = function
  | w :: neg :: name :: r -> ({ t_ws = unh w; t_neg = (neg = "1"); t_name = unh name }, r)
  | _ -> failwith "bad term"
let dec_group = function
  | "G" :: w0 :: n :: r ->
    let (ts, r') = take_n (int_of_string n) dec_term r [] in
    (match r' with
     | w1 :: r'' -> ({ g_ws0 = unh w0; g_terms = ts; g_ws1 = unh w1 }, r'')
     | _ -> failwith "bad group")
  | _ -> failwith "bad group"
let dec_op = function
  | "ge" -> RelAcc.VGe | "le" -> RelAcc.VLe | "eq" -> RelAcc.VEq | "gt" -> RelAcc.VGt | "lt" -> RelAcc.VLt
  | _ -> failwith "bad op"
let dec_rel = function
  | "R" :: name :: r ->
    let (q, r) = match r with
      | "q0" :: r -> (None, r)
      | "q1" :: w0 :: w1 :: n :: r -> (Some { q_ws0 = unh w0; q_ws1 = unh w1; q_name = unh n }, r)
      | _ -> failwith "bad qual" in
    let (v, r) = match r with
      | "v0" :: r -> (None, r)
      | "v1" :: w0 :: w1 :: op :: w2 :: r ->
        let (e, r) = match r with
          | "e0" :: r -> (None, r)
          | "e1" :: e :: r -> (Some (unh e), r)
          | _ -> failwith "bad epoch" in
        (match r with
         | ver :: n :: r ->
           let (more, r) = take_n (int_of_string n) (function s :: r -> (unh s, r) | _ -> failwith "bad piece") r [] in
           (match r with
            | w3 :: r ->
              (Some { v_ws0 = unh w0; v_ws1 = unh w1; v_op = dec_op op; v_ws2 = unh w2; v_epoch = e; v_ver = unh ver;
                      v_more = more; v_ws3 = unh w3 }, r)
            | _ -> failwith "bad version")
         | _ -> failwith "bad version")
      | _ -> failwith "bad version" in
    let (a, r) = match r with
      | "a0" :: r -> (None, r)
      | "a1" :: r -> let (g, r) = dec_group r in (Some g, r)
      | _ -> failwith "bad archs" in
    (match r with
     | n :: r ->
       let (ps, r) = take_n (int_of_string n) dec_group r [] in
       (match r with
        | trail :: r -> ({ r_name = unh name; r_qual = q; r_ver = v; r_archs = a; r_profs = ps; r_trail = unh trail }, r)
        | _ -> failwith "bad rel")
     | _ -> failwith "bad rel")
  | _ -> failwith "bad rel"
let dec_ws_then f = function
  | w :: r -> let (x, r') = f r in ((unh w, x), r')
  | _ -> failwith "bad ws"
let dec_item = function
  | "E" :: r ->
    let (r0, r) = dec_rel r in
    (match r with
     | n :: r -> let (alts, r) = take_n (int_of_string n) (dec_ws_then dec_rel) r [] in (IEntry (r0, alts), r)
     | _ -> failwith "bad entry")
  | "S" :: seg :: n :: r ->
    let (segs, r) = take_n (int_of_string n) (function s :: r -> (unh s, r) | _ -> failwith "bad seg") r [] in
    (match r with
     | trail :: r -> (ISubst (unh seg, segs, unh trail), r)
     | _ -> failwith "bad subst")
  | "N" :: r -> (IEmpty, r)
  | _ -> failwith "bad item"
let dec_field (enc : string) : rfield =
  match L.filter (fun x -> x <> "") (S.split_on_char ' ' enc) with
  | "F" :: lead :: r ->
    let (i0, r) = dec_item r in
    (match r with
     | n :: r ->
       let (more, r) = take_n (int_of_string n) (dec_ws_then dec_item) r [] in
       if r <> [] then failwith "trailing tokens";
       { f_lead = unh lead; f_first = i0; f_rest = more }
     | _ -> failwith "bad field")
  | _ -> failwith "bad field"

(* ---- the specification's record ---- *)
let relx_s (x : relx) =
  let v = match x.x_ver with None -> "-" | Some (o, v) -> op_s o ^ "." ^ hx v in
  let a = match x.x_archs with
    | None -> "-"
    | Some l -> "+" ^ cat "." (L.map (fun a -> hx (arch_acc_text a)) l) in
  Printf.sprintf "n:%s,q:%s,v:%s,a:%s,p:%s" (hx x.x_name) (opt_hex x.x_qual) v a (groups_s x.x_profs)
let content_s es = cat ";" (L.map (fun e -> cat "/" (L.map relx_s e)) es)

let has_dollar (s : BinNums.coq_N list) = L.exists (fun c -> int_of_n c = 36) s

(* stream rel-doc: fields = [hex text; encoding; lossy-domain flag] *)
let rel_doc (fs : string list) : string =
  let text = str_of_hex (L.nth fs 0) in
  let f = dec_field (L.nth fs 1) in
  let flag = L.nth fs 2 in
  let subst = has_dollar text in
  if not (wf_rfield true f) then "GENERATOR-NOT-WF"
  else if (not subst) && not (wf_rfield false f) then "GENERATOR-NOT-WF-STRICT"
  else if rrender f <> text then "GENERATOR-RENDER-MISMATCH:" ^ hx (rrender f)
  else if (flag = "1") <> lossy_dom f then "GENERATOR-LOSSY-FLAG-MISMATCH"
  else begin
    let (es, svs) = rcontent f in
    let acc = content_s es in
    let sv = cat "," (L.map hx svs) in
    let rest = if subst then "e0=-|strict=-|acc0=-|sv0=-" else "e0=0|strict=OK|acc0==|sv0==" in
    Printf.sprintf "e1=0|acc=%s|sv=%s|%s|lossy=%s" acc sv rest (if flag = "1" then acc else "-")
  end

(* stream rel-doc-model: the same cases through the MODEL of the reader (parser + accessors), to
   keep the executable model tied to the specification on every run as well *)
let rel_doc_model (fs : string list) : string =
  let s = str_of_hex (L.nth fs 0) in
  lossless_part RelParse.parse_relaxed (RelAcc.relation_version, RelAcc.relation_architectures) s ~subst_free_only:(has_dollar s)

let () = register "rel-acc" rel_acc
let () = register "rel-acc-pre" rel_acc_pre
let () = register "rel-doc" rel_doc
let () = register "rel-doc-model" rel_doc_model
let () = register "rel-lossy-probe" rel_acc
