(* streams about debian-copyright (C17).  Record formats: docs/cones/C17.md.
   VERIF_C17_MODEL selects the variant of the model: shipped | committed | fixed (default) | six
   0/1 flags in the order of Copyright.variant.  vlib/props/c17.py sets it from what it finds in
   the sources of the repository under test (which of the two proposed patches are applied). *)
open Util
open Base

let variant () =
  match Sys.getenv_opt "VERIF_C17_MODEL" with
  | Some "shipped" -> Copyright.shipped
  | Some "committed" -> Copyright.committed
  | Some b when S.length b = 6 && not (S.exists (fun c -> c <> '0' && c <> '1') b) ->
      let f i = b.[i] = '1' in
      { Copyright.v_dotall = f 0; v_lossy_ws = f 1; v_lp_name = f 2; v_skip_header = f 3;
        v_lenient = f 4; v_lossy_path = f 5 }
  | _ -> Copyright.fixed

let lic_s (l : Copyright.license) = match l with
  | Copyright.LName n -> "N:" ^ hx n
  | Copyright.LText t -> "T:" ^ hx t
  | Copyright.LNamed (n, t) -> "M:" ^ hx n ^ ":" ^ hx t
let opt_lic_s = function None -> "-" | Some l -> lic_s l
let bit (r : bool res) = match r with
  | Ok true -> "1" | Ok false -> "0" | Err _ -> "E" | Panic _ -> "P" | OutOfFuel -> "H"
let short (f : 'a -> string) (r : 'a res) = match r with
  | Ok a -> f a | Err _ -> "E" | Panic _ -> "P" | OutOfFuel -> "H"

(* a path field "!<hex raw bytes>:<hex of its lossy conversion>" is a path that is not valid UTF-8:
   the harness builds the path from the raw bytes; the model of a variant with v_lossy_path looks
   the converted string up, the model of one without takes the to_str().unwrap() panic *)
let is_raw (p : string) = S.length p > 0 && p.[0] = '!'
let lossy_of (p : string) = str_of_hex (L.nth (S.split_on_char ':' p) 1)

let k s = L.map n_of_int (L.map Char.code (L.of_seq (S.to_seq s)))

(* stream glob: fields = [hex Files value; hex path ...] *)
let glob (fs : string list) : string =
  let v = variant () in
  let pat = str_of_hex (L.hd fs) in
  let para = [ (k "Files", pat); (k "Copyright", k "c"); (k "License", k "l") ] in
  match Copyright.ly_files_para v para with
  | Ok fp -> "m=" ^ cat "" (L.map (fun p ->
      if is_raw p && not v.Copyright.v_lossy_path then bit (Copyright.ly_matches_nonutf8 v fp)
      else bit (Copyright.ly_matches v fp (if is_raw p then lossy_of p else str_of_hex p))) (L.tl fs))
  | _ -> "ERR"

let ll_fp_s (p : (BinNums.coq_N list * BinNums.coq_N list) list) =
  let files = match Copyright.ll_files p with Ok l -> cat "." (L.map hx l) | _ -> "PANIC" in
  files ^ "~" ^ opt_lic_s (Copyright.ll_fp_license p) ^ "~" ^ opt_hex (Copyright.pget p (k "Comment"))

let rec take n l = if n = 0 then [] else match l with [] -> [] | x :: r -> x :: take (n - 1) r
let rec drop n l = if n = 0 then l else match l with [] -> [] | _ :: r -> drop (n - 1) r

(* stream copyright: fields = [hex text; k; hex path * k; hex name *] *)
let copyright (fs : string list) : string =
  let v = variant () in
  let text = str_of_hex (L.nth fs 0) in
  let kk = int_of_string (L.nth fs 1) in
  let rest = drop 2 fs in
  let paths = L.map (fun p ->
      if is_raw p then (if v.Copyright.v_lossy_path then Some (lossy_of p) else None)
      else Some (str_of_hex p)) (take kk rest) in
  let names = L.map str_of_hex (drop kk rest) in
  let rx = match Copyright.ll_from_str_relaxed text with
    | Ok (_, n) -> string_of_int (int_of_nat n)
    | Err e -> if int_of_n e = 2 then "ERR:nmr" else "ERR"
    | Panic _ -> "PANIC" | OutOfFuel -> "HANG" in
  let ll = match Copyright.ll_from_str text with
    | Err e -> (if int_of_n e = 2 then "ll=ERR:nmr" else "ll=ERR") ^ "|lf=|ls=|lq=|ln="
    | Panic _ -> "ll=PANIC|lf=|ls=|lq=|ln="
    | OutOfFuel -> "HANG"
    | Ok d ->
      let files = Copyright.ll_iter_files v d in
      let lf = cat "," (L.map ll_fp_s files) in
      let ls = cat "," (L.map (fun p ->
          opt_hex (Copyright.ll_lp_name v p) ^ "~" ^ opt_hex (Copyright.ll_lp_text p) ^ "~" ^
          short lic_s (Copyright.ll_lp_license p)) (Copyright.ll_iter_licenses v d)) in
      let lq = cat ";" (L.map (fun path ->
          let m, f, l = match path with
            | Some path -> (fun p -> Copyright.ll_matches v p path), Copyright.ll_find_files v d path,
                           Copyright.ll_find_license_for_file v d path
            | None -> Copyright.ll_matches_nonutf8 v, Copyright.ll_find_files_nonutf8 v d,
                      Copyright.ll_find_license_for_file_nonutf8 v d in
          let bits = cat "" (L.map (fun p -> bit (m p)) files) in
          let ff = short (function None -> "-" | Some (_, p) -> ll_fp_s p) f in
          let fl = short opt_lic_s l in
          bits ^ "/" ^ ff ^ "/" ^ fl) paths) in
      let ln = cat ";" (L.map (fun n -> short opt_lic_s (Copyright.ll_find_license_by_name v d n)) names) in
      Printf.sprintf "ll=OK|lf=%s|ls=%s|lq=%s|ln=%s" lf ls lq ln in
  let ly = match Copyright.ly_from_str v text with
    | Err e -> (if int_of_n e = 2 then "ly=ERR:nmr" else "ly=ERR") ^ "|yc=|yq=|yn="
    | Panic _ -> "ly=PANIC|yc=|yq=|yn="
    | OutOfFuel -> "HANG"
    | Ok c ->
      let files = c.Copyright.c_files in
      let yq = cat ";" (L.map (fun path ->
          let m, f, l = match path with
            | Some path -> (fun fp -> Copyright.ly_matches v fp path), Copyright.ly_find_files v c path,
                           Copyright.ly_find_license_for_file v c path
            | None -> Copyright.ly_matches_nonutf8 v, Copyright.ly_find_files_nonutf8 v c,
                      Copyright.ly_find_license_for_file_nonutf8 v c in
          let bits = cat "" (L.map (fun fp -> bit (m fp)) files) in
          let ff = short (function None -> "-" | Some (i, _) -> string_of_int (int_of_nat i)) f in
          let fl = short opt_lic_s l in
          bits ^ "/" ^ ff ^ "/" ^ fl) paths) in
      let yn = cat ";" (L.map (fun n -> opt_lic_s (Copyright.ly_find_license_by_name c n)) names) in
      Printf.sprintf "ly=OK|yc=%d.%d|yq=%s|yn=%s" (L.length files) (L.length c.Copyright.c_licenses) yq yn in
  whole_hang [rx; ll; ly] (Printf.sprintf "%s|rx=%s|%s" ll rx ly)

let () = register "glob" glob; register "copyright" copyright
