(* Runner: reads a case file (one case per line: id TAB field TAB field ...), evaluates the
   extracted Coq model, prints "id TAB record".  Records are canonical strings that the Rust
   harness prints identically for the implementation.  Streams live in s_*.ml and register
   themselves in Util.streams. *)
open Util

let () =
  let stream = Sys.argv.(1) in
  let f = try L.assoc stream !streams with Not_found -> (prerr_endline ("unknown stream " ^ stream); exit 2) in
  let ic = if Array.length Sys.argv > 2 then open_in Sys.argv.(2) else stdin in
  (try
    while true do
      let line = input_line ic in
      if line <> "" then begin
        match split_tab line with
        | id :: fs -> print_string id; print_char '\t';
          print_endline (try f fs with e -> "MODEL-EXCEPTION:" ^ Printexc.to_string e)
        | [] -> ()
      end
    done
  with End_of_file -> ());
  flush stdout
