(* Runner: reads a case file (one case per line: id TAB field TAB field ...), evaluates the
   extracted Coq model, prints "id TAB record".  Records are canonical strings that the Rust
   harness prints identically for the implementation. *)
open Model
open Util

let res_str (f : 'a -> string) (r : 'a res) : string =
  match r with
  | Ok a -> f a
  | Err _ -> "ERR"
  | Panic _ -> "PANIC"
  | OutOfFuel -> "HANG"

let tokens_s (ts : (kind * n list) list) =
  cat "," (List.map (fun (k, s) -> string_of_int (int_of_n (kind_code k)) ^ ":" ^ hx s) ts)

let items_s (it : (n list * n list) list) =
  cat "," (List.map (fun (k, v) -> hx k ^ "=" ^ hx v) it)
let doc_items_s (d : (n list * n list) list list) = cat ";" (List.map items_s d)

(* stream deb822-parse: fields = [hex input] *)
let deb822_parse (fs : string list) : string =
  let s = str_of_hex (List.nth fs 0) in
  let lx = res_str tokens_s (lex s) in
  let rel = res_str (fun (t, n) ->
      Printf.sprintf "text=%s|nerr=%d|depth=%d|paras=%s" (hx (text t)) (int_of_nat n)
        (int_of_nat (depth t)) (doc_items_s (doc_items t))) (from_str_relaxed s) in
  let strict = res_str (fun t -> "OK:" ^ hx (text t) ^ ":" ^ doc_items_s (doc_items t)) (from_str s) in
  Printf.sprintf "lex=%s|%s|strict=%s" lx rel strict

(* a record any of whose parts is HANG is HANG as a whole (the harness can only kill the whole case) *)
let whole_hang (parts : string list) (r : string) = if List.mem "HANG" parts then "HANG" else r

let rtokens_s (ts : (rkind * n list) list) =
  cat "," (List.map (fun (k, s) -> string_of_int (int_of_n (rkind_code k)) ^ ":" ^ hx s) ts)

(* stream rel-parse: fields = [hex input] *)
let rel_parse (fs : string list) : string =
  let s = str_of_hex (List.nth fs 0) in
  let lx = res_str rtokens_s (rlex s) in
  let relaxed allow = res_str (fun (t, n) -> Printf.sprintf "%s:%d:%d" (hx (text t)) (int_of_nat n) (int_of_nat (depth t)))
      (parse_relaxed s allow) in
  let r0 = relaxed false and r1 = relaxed true in
  let strict = res_str (fun t -> "OK:" ^ hx (text t)) (relations_from_str s) in
  let ent = res_str (fun t -> "OK:" ^ hx (text t)) (entry_from_str s) in
  let rel = res_str (fun t -> "OK:" ^ hx (text t)) (relation_from_str s) in
  whole_hang [lx; r0; r1; strict; ent; rel]
    (Printf.sprintf "lex=%s|r0=%s|r1=%s|strict=%s|entry=%s|relation=%s" lx r0 r1 strict ent rel)

let streams : (string * (string list -> string)) list ref = ref [
  ("deb822-parse", deb822_parse);
  ("rel-parse", rel_parse);
]

let () =
  let stream = Sys.argv.(1) in
  let f = try List.assoc stream !streams with Not_found -> (prerr_endline ("unknown stream " ^ stream); exit 2) in
  let ic = if Array.length Sys.argv > 2 then open_in Sys.argv.(2) else stdin in
  (try
    while true do
      let line = input_line ic in
      if line <> "" then begin
        match split_tab line with
        | id :: fs -> print_string id; print_char '\t'; print_endline (f fs)
        | [] -> ()
      end
    done
  with End_of_file -> ());
  flush stdout
