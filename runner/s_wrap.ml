(* streams para-wrap / doc-wrap / control-wrap (C07): the model of the wrap-and-sort
   reformatting (coq/model/Deb822Wrap.v) on the same cases as harness/src/s_wrap.rs.
   VERIF_C07_MODEL = fixed (default) | shipped | eight 0/1 flags in the order of Deb822Wrap.variant
   (six flags: the first six, the last two -- C07-21, C07-22 -- off; 11111100 = /repo 5517d72) *)
open Util
open Base

let variant : Deb822Wrap.variant =
  match Sys.getenv_opt "VERIF_C07_MODEL" with
  | Some "shipped" -> Deb822Wrap.shipped
  | Some s when (S.length s = 6 || S.length s = 8) && S.for_all (fun c -> c = '0' || c = '1') s ->
    let b i = i < S.length s && s.[i] = '1' in
    { Deb822Wrap.v_para_nl = b 0; v_doc_lines = b 1; v_fmt_lines = b 2; v_hash = b 3; v_terminate = b 4; v_typo = b 5;
      v_upl_hash = b 6; v_rel_keep = b 7 }
  | _ -> Deb822Wrap.fixed

exception Stop of string
let get (r : 'a res) : 'a =
  match r with Ok a -> a | Err _ -> raise (Stop "ERR") | Panic _ -> raise (Stop "PANIC") | OutOfFuel -> raise (Stop "HANG")

type cfg = { ind : Deb822Wrap.indentation; iel : bool; mll : BinNums.coq_N option;
             psort : char; esort : char; fmt : char; pws : bool }

let parse_cfg (s : string) : cfg =
  let p = Array.of_list (S.split_on_char ':' s) in
  let ind = if p.(0) = "f" then Deb822Wrap.FieldNameLength
    else Deb822Wrap.Spaces (n_of_int (int_of_string (S.sub p.(0) 1 (S.length p.(0) - 1)))) in
  { ind; iel = p.(1) = "1";
    mll = (if p.(2) = "-" then None else Some (n_of_int (int_of_string p.(2))));
    psort = p.(3).[0]; esort = p.(4).[0]; fmt = p.(5).[0];
    pws = (if Array.length p > 6 then p.(6) <> "0" else true) }

let formatter c = match c with
  | 'i' -> Some Deb822Wrap.fmt_identity
  | 's' -> Some Deb822Wrap.fmt_semi
  | 'u' -> Some Deb822Wrap.fmt_upl
  | _ -> None
let entry_sorter c = match c with 'k' -> Some Deb822Wrap.by_name | _ -> None
let para_sorter c = match c with
  | 'v' -> Some Deb822Wrap.by_first_value
  | 'c' -> Some Deb822Wrap.control_order
  | _ -> None

let ws_para c p = Deb822Wrap.para_ws variant c.ind c.iel c.mll (entry_sorter c.esort) (formatter c.fmt) p
let ws_entry c e = Deb822Wrap.entry_ws variant c.ind c.iel c.mll (formatter c.fmt) e
let ws_doc c t = Deb822Wrap.doc_ws variant (para_sorter c.psort) (if c.pws then Some (ws_para c) else None) t

let items_s = S_deb822.items_s
let doc_s t = S_deb822.doc_items_s (Deb822Parse.doc_items t)
let reread (t : BinNums.coq_N list) : string =
  match Deb822Parse.from_str t with
  | Ok r -> "OK:" ^ doc_s r
  | Err _ -> "ERR" | Panic _ -> raise (Stop "PANIC") | OutOfFuel -> raise (Stop "HANG")

let entry_s e = opt_hex (Deb822Parse.entry_key e) ^ "=" ^ hx (Deb822Parse.entry_value e)

let guarded (f : unit -> string) : string = try f () with Stop s -> s

let para_wrap (fs : string list) : string =
  let s = str_of_hex (L.nth fs 0) in
  let c = parse_cfg (L.nth fs 1) in
  guarded (fun () ->
    match Deb822Parse.from_str s with
    | Err _ -> "strict=ERR" | Panic _ -> "PANIC" | OutOfFuel -> "HANG"
    | Ok d ->
      let out = L.map (fun p ->
          let r1 = get (ws_para c p) in
          let t1 = text r1 in
          let r2 = get (ws_para c r1) in
          let es = cat ";" (L.map (fun e ->
              let e1 = get (ws_entry c e) in
              let e2 = get (ws_entry c e1) in
              Printf.sprintf "%s,%s,%s" (hx (text e1)) (entry_s e1) (hx (text e2))) (Deb822Parse.entries p)) in
          Printf.sprintf "%s~%s~%s~%s~%s" (hx t1) (items_s (Deb822Parse.items r1)) (hx (text r2)) (reread t1) es)
          (Deb822Parse.paragraphs d) in
      Printf.sprintf "strict=OK|it0=%s|p=%s" (doc_s d) (cat "/" out))

let doc_wrap (fs : string list) : string =
  let s = str_of_hex (L.nth fs 0) in
  let c = parse_cfg (L.nth fs 1) in
  guarded (fun () ->
    match Deb822Parse.from_str s with
    | Err _ -> "strict=ERR" | Panic _ -> "PANIC" | OutOfFuel -> "HANG"
    | Ok d ->
      let r1 = get (ws_doc c d) in
      let t1 = text r1 in
      let r2 = get (ws_doc c r1) in
      let t2p = match Deb822Parse.from_str t1 with
        | Ok r -> hx (text (get (ws_doc c r)))
        | Err _ -> "-" | Panic _ -> raise (Stop "PANIC") | OutOfFuel -> raise (Stop "HANG") in
      Printf.sprintf "strict=OK|it0=%s|t1=%s|it1=%s|t2=%s|rr=%s|t2p=%s"
        (doc_s d) (hx t1) (doc_s r1) (hx (text r2)) (reread t1) t2p)

let doc_wrap_any (fs : string list) : string =
  let s = str_of_hex (L.nth fs 0) in
  let c = parse_cfg (L.nth fs 1) in
  guarded (fun () ->
    let (d, n) = get (Deb822Parse.from_str_relaxed s) in
    let r1 = get (ws_doc c d) in
    let r2 = get (ws_doc c r1) in
    Printf.sprintf "nerr=%d|t1=%s|it1=%s|t2=%s" (int_of_nat n) (hx (text r1)) (doc_s r1) (hx (text r2)))

(* the relation branch of format_field: the real function's values at the points the case needs
   (computed by the harness helper control-fmt-table when the case was generated) *)
let rel_of_table (tab : string) : BinNums.coq_N list -> BinNums.coq_N list res =
  let entries = if tab = "-" || tab = "" then [] else
      L.map (fun e -> match S.split_on_char ':' e with
          | [v; o] -> (v, o)
          | _ -> failwith "bad table") (S.split_on_char ',' tab) in
  fun v ->
    match L.assoc_opt (hx v) entries with
    | Some "ERR" -> Panic (n_of_int 20)
    | Some o -> Ok (str_of_hex o)
    | None -> raise (Stop "NOFMT")

(* The relations branch is C13's model of parse_relaxed(v, true) + Relations::wrap_and_sort +
   to_string (RelWrap.ctl_rel): nothing of the implementation enters the model side.  The table
   field of the case (the implementation's own values, computed when the case was generated) is
   used by the oracle only -- and by the model when VERIF_C07_REL=table asks for the old behaviour. *)
let real_rel : BinNums.coq_N list -> BinNums.coq_N list res = RelWrap.ctl_rel RelWrap.fixed

let control_wrap (fs : string list) : string =
  let s = str_of_hex (L.nth fs 0) in
  let c = parse_cfg (L.nth fs 1) in
  let rel = if Sys.getenv_opt "VERIF_C07_REL" = Some "table"
    then rel_of_table (if L.length fs > 2 then L.nth fs 2 else "-") else real_rel in
  guarded (fun () ->
    match Deb822Parse.from_str s with
    | Err _ -> "strict=ERR" | Panic _ -> "PANIC" | OutOfFuel -> "HANG"
    | Ok d ->
      let pw p = Deb822Wrap.control_para_ws variant rel c.ind c.iel c.mll p in
      let para p =
        let r1 = get (pw p) in
        let r2 = get (pw r1) in
        Printf.sprintf "%s~%s~%s" (hx (text r1)) (items_s (Deb822Parse.items r1)) (hx (text r2)) in
      let ps = Deb822Parse.paragraphs d in
      let has k p = match Deb822Parse.get p k with Some _ -> true | None -> false in
      let src = match L.filter (has Deb822Wrap.Lit.k_Source) ps with p :: _ -> para p | [] -> "-" in
      let bins = cat "/" (L.map para (L.filter (has Deb822Wrap.Lit.k_Package) ps)) in
      let cw t = Deb822Wrap.control_ws variant rel c.ind c.iel c.mll t in
      let r1 = get (cw d) in
      let t1 = text r1 in
      let r2 = get (cw r1) in
      Printf.sprintf "strict=OK|it0=%s|t1=%s|it1=%s|t2=%s|rr=%s|src=%s|bin=%s|same=1"
        (doc_s d) (hx t1) (doc_s r1) (hx (text r2)) (reread t1) src bins)

let () = register "para-wrap" para_wrap
let () = register "doc-wrap" doc_wrap
let () = register "doc-wrap-any" doc_wrap_any
let () = register "control-wrap" control_wrap
