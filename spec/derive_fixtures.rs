// Fixture structs for the C16 cone (read by translate/structs.py like the test structs of
// src/convert.rs: copied into the harness and derived with the REAL macro). They exercise
// attribute shapes that no struct of the workspace uses but the macro documents and accepts:
// the options of one field split over several #[deb822(...)] attributes (in either order), with
// doc comments and foreign attributes in between.
fn to_bool(s: &str) -> Result<bool, String> {
    Ok(s == "ja")
}

fn from_bool(s: &bool) -> String {
    if *s {
        "ja".to_string()
    } else {
        "nee".to_string()
    }
}

#[derive(FromDeb822, ToDeb822)]
struct SplitAttrs {
    #[deb822(field = "Bar")]
    #[deb822(deserialize_with = to_bool, serialize_with = from_bool)]
    bar: bool,
    /// a doc comment in front
    #[allow(dead_code)]
    #[deb822(deserialize_with = to_bool)]
    #[deb822(serialize_with = from_bool, field = "Baz-Flag")]
    baz: Option<bool>,
    #[deb822(field = "Plain")]
    plain: String,
    qux: Option<String>,
}

#[derive(FromDeb822, ToDeb822)]
struct CodecFirst {
    #[deb822(serialize_with = from_bool)]
    #[deb822(deserialize_with = to_bool)]
    #[deb822(field = "Flag")]
    flag: bool,
    name: String,
}
