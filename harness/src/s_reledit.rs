//! Stream rel-edit: a small register machine over the editing API of
//! debian_control::lossless::relations.  One root Relations, entry registers, relation
//! registers; every operation names the registers it goes through, so a program can edit
//! through handles obtained just before the edit or through handles obtained earlier.
//!
//! case fields: [dump, init, note, prog, prog, ...]; record: i0=<state>|s0=<steps>|i1=...|s1=...
//!   steps = <step>/<step>/...      (a panic ends the run with /PANIC)
//!   state = <hex root text>:<strict from_str ok><parse_relaxed(_,true) without errors>[:<live>:<reread>:<entry texts>]
//!   step  = <outcome>:<state>:<text of the handle the operation went through, or ->
use crate::util::*;
use debian_control::lossless::relations::{Entry, Relation, Relations};
use debian_control::lossy;
use debian_control::relations::{BuildProfile, VersionConstraint};
use debversion::Version;
use std::panic::{catch_unwind, AssertUnwindSafe};
use std::str::FromStr;

fn vc_of(s: &str) -> VersionConstraint {
    match s {
        "ge" => VersionConstraint::GreaterThanEqual,
        "le" => VersionConstraint::LessThanEqual,
        "eq" => VersionConstraint::Equal,
        "gt" => VersionConstraint::GreaterThan,
        "lt" => VersionConstraint::LessThan,
        _ => panic!("bad vc"),
    }
}

/// ver: "-" | "<vc>.<hexversion>"; Err = the version text is not a debversion::Version
fn ver_of(s: &str) -> Result<Option<(VersionConstraint, Version)>, ()> {
    if s == "-" {
        return Ok(None);
    }
    let (vc, v) = s.split_once('.').unwrap();
    let v: Version = unhex(v).parse().map_err(|_| ())?;
    Ok(Some((vc_of(vc), v)))
}

fn strs_of(s: &str) -> Vec<String> {
    if s == "-" || s == "_" {
        vec![]
    } else {
        s.split('.').map(unhex).collect()
    }
}

fn group_of(s: &str) -> Vec<BuildProfile> {
    if s == "-" || s == "_" {
        return vec![];
    }
    s.split('.')
        .map(|p| {
            let name = unhex(&p[1..]);
            if p.starts_with('d') {
                BuildProfile::Disabled(name)
            } else {
                BuildProfile::Enabled(name)
            }
        })
        .collect()
}

fn groups_of(s: &str) -> Vec<Vec<BuildProfile>> {
    if s == "-" {
        vec![]
    } else {
        s.split('+').map(group_of).collect()
    }
}

/// Err = the operand could not be built (a parse error, or an invalid version text)
fn build_relation(spec: &str) -> Result<Relation, ()> {
    let f: Vec<&str> = spec.split('~').collect();
    match f[0] {
        "p" => Relation::from_str(&unhex(f[1])).map_err(|_| ()),
        "s" => Ok(Relation::simple(&unhex(f[1]))),
        "n" => Ok(Relation::new(&unhex(f[1]), ver_of(f[2])?)),
        "b" => {
            let mut b = Relation::build(&unhex(f[1]));
            if let Some((vc, v)) = ver_of(f[2])? {
                b = b.version_constraint(vc, v);
            }
            if f[3] != "-" {
                b = b.archqual(&unhex(f[3]));
            }
            if f[4] != "-" {
                b = b.architectures(strs_of(f[4]));
            }
            if f[5] != "-" {
                b = b.profiles(groups_of(f[5]));
            }
            if f[6] != "-" {
                for g in groups_of(f[6]) {
                    b = b.add_profile(g);
                }
            }
            Ok(b.build())
        }
        "l" => Ok(build_lossy(&f)?.into()),
        _ => panic!("bad relation spec"),
    }
}

fn build_lossy(f: &[&str]) -> Result<lossy::Relation, ()> {
    Ok(lossy::Relation {
        name: unhex(f[1]),
        version: ver_of(f[2])?,
        archqual: if f[3] == "-" { None } else { Some(unhex(f[3])) },
        architectures: if f[4] == "!" { None } else { Some(strs_of(f[4])) },
        profiles: groups_of(f[5]),
    })
}

fn build_entry(spec: &str) -> Result<Entry, ()> {
    let (tag, rest) = spec.split_at(1);
    let parts: Vec<&str> = if rest.is_empty() { vec![] } else { rest.split(',').collect() };
    match tag {
        "P" => Entry::from_str(&unhex(rest)).map_err(|_| ()),
        "V" => {
            let mut v = vec![];
            for p in parts {
                v.push(build_relation(p)?);
            }
            Ok(Entry::from(v))
        }
        "E" => {
            let mut e = Entry::new();
            for p in parts {
                e.push(build_relation(p)?);
            }
            Ok(e)
        }
        "L" => {
            let mut v = vec![];
            for p in parts {
                let f: Vec<&str> = p.split('~').collect();
                v.push(build_lossy(&f)?);
            }
            Ok(Entry::from(v))
        }
        _ => panic!("bad entry spec"),
    }
}

fn build_init(spec: &str) -> Result<Relations, ()> {
    let (tag, rest) = spec.split_at(1);
    match tag {
        "N" => Ok(Relations::new()),
        "T" => Ok(Relations::parse_relaxed(&unhex(rest), true).0),
        "S" => Relations::from_str(&unhex(rest)).map_err(|_| ()),
        "C" => {
            let mut v = vec![];
            if !rest.is_empty() {
                for e in rest.split(';') {
                    v.push(build_entry(e)?);
                }
            }
            Ok(Relations::from(v))
        }
        _ => panic!("bad init"),
    }
}

fn profile_s(p: &BuildProfile) -> String {
    match p {
        BuildProfile::Enabled(n) => format!("e{}", hex(n)),
        BuildProfile::Disabled(n) => format!("d{}", hex(n)),
    }
}

fn relation_s(r: &Relation) -> String {
    let qual = match r.archqual() {
        None => "-".to_string(),
        Some(q) => hex(&q),
    };
    let ver = match r.version() {
        None => "-".to_string(),
        Some((vc, v)) => format!("{}.{}", hex(&vc.to_string()), hex(&v.to_string())),
    };
    let archs = match r.architectures() {
        None => "-".to_string(),
        Some(it) => {
            let v: Vec<String> = it.map(|a| hex(&a)).collect();
            if v.is_empty() {
                "_".to_string()
            } else {
                v.join(".")
            }
        }
    };
    let groups: Vec<String> = r
        .profiles()
        .map(|g| {
            if g.is_empty() {
                "_".to_string()
            } else {
                g.iter().map(profile_s).collect::<Vec<_>>().join(".")
            }
        })
        .collect();
    let profs = if groups.is_empty() { "-".to_string() } else { groups.join("+") };
    format!("{}~{}~{}~{}~{}", hex(&r.name()), qual, ver, archs, profs)
}

/// entries ';'-separated, alternatives ','-separated; "!" when an accessor panics
fn structure_s(r: &Relations) -> String {
    match catch_unwind(AssertUnwindSafe(|| {
        r.entries()
            .map(|e| e.relations().map(|x| relation_s(&x)).collect::<Vec<_>>().join(","))
            .collect::<Vec<_>>()
            .join(";")
    })) {
        Ok(s) => s,
        Err(_) => "!".to_string(),
    }
}

fn state_s(r: &Relations, dump: bool) -> String {
    let text = r.to_string();
    let strict = Relations::from_str(&text);
    let (relaxed, errs) = Relations::parse_relaxed(&text, true);
    let flags = format!("{}{}", b(strict.is_ok()), b(errs.is_empty()));
    if dump {
        let et: Vec<String> = r
            .entries()
            .map(|e| {
                let t = e.to_string();
                if t.is_empty() {
                    "_".to_string()
                } else {
                    hex(&t)
                }
            })
            .collect();
        let et = if et.is_empty() { "-".to_string() } else { et.join(".") };
        format!("{}:{}:{}:{}:{}", hex(&text), flags, structure_s(r), structure_s(&relaxed), et)
    } else {
        format!("{}:{}", hex(&text), flags)
    }
}

struct Machine {
    root: Relations,
    es: Vec<Option<Entry>>,
    rs: Vec<Option<Relation>>,
}

fn slot<T>(v: &mut Vec<Option<T>>, k: usize) -> &mut Option<T> {
    while v.len() <= k {
        v.push(None);
    }
    &mut v[k]
}

/// one operation; returns (outcome, text of the handle it went through)
fn step(m: &mut Machine, op: &str) -> (String, String) {
    let a: Vec<&str> = op.split('/').collect();
    let n = |i: usize| -> usize { a[i].parse().unwrap() };
    let none = "-".to_string();
    macro_rules! ok {
        () => {
            ("ok".to_string(), none)
        };
    }
    macro_rules! skip {
        () => {
            return ("skip".to_string(), none)
        };
    }
    match a[0] {
        "ge" => {
            let e = m.root.get_entry(n(2));
            let found = e.is_some();
            *slot(&mut m.es, n(1)) = e;
            ((if found { "g1" } else { "g0" }).to_string(), none)
        }
        "gr" => {
            let r = match slot(&mut m.es, n(2)) {
                Some(e) => e.get_relation(n(3)),
                None => None,
            };
            let found = r.is_some();
            *slot(&mut m.rs, n(1)) = r;
            ((if found { "g1" } else { "g0" }).to_string(), none)
        }
        "ne" => match build_entry(a[2]) {
            Ok(e) => {
                let t = e.to_string();
                *slot(&mut m.es, n(1)) = Some(e);
                ("n1".to_string(), hex(&t))
            }
            Err(()) => {
                *slot(&mut m.es, n(1)) = None;
                ("n0".to_string(), none)
            }
        },
        "nr" => match build_relation(a[2]) {
            Ok(r) => {
                let t = r.to_string();
                *slot(&mut m.rs, n(1)) = Some(r);
                ("n1".to_string(), hex(&t))
            }
            Err(()) => {
                *slot(&mut m.rs, n(1)) = None;
                ("n0".to_string(), none)
            }
        },
        "push" => match slot(&mut m.es, n(1)).take() {
            Some(e) => {
                m.root.push(e);
                ok!()
            }
            None => skip!(),
        },
        "ins" => match slot(&mut m.es, n(2)).take() {
            Some(e) => {
                m.root.insert(n(1), e);
                ok!()
            }
            None => skip!(),
        },
        "rep" => match slot(&mut m.es, n(2)).take() {
            Some(e) => {
                m.root.replace(n(1), e);
                ok!()
            }
            None => skip!(),
        },
        "rme" => {
            let e = m.root.remove_entry(n(1));
            ("ok".to_string(), hex(&e.to_string()))
        }
        "epush" => {
            let r = match slot(&mut m.rs, n(2)).take() {
                Some(r) => r,
                None => skip!(),
            };
            match slot(&mut m.es, n(1)) {
                Some(e) => {
                    e.push(r);
                    ("ok".to_string(), hex(&e.to_string()))
                }
                None => skip!(),
            }
        }
        "erep" => {
            let r = match slot(&mut m.rs, n(3)).take() {
                Some(r) => r,
                None => skip!(),
            };
            let j = n(2);
            match slot(&mut m.es, n(1)) {
                Some(e) => {
                    e.replace(j, r);
                    ("ok".to_string(), hex(&e.to_string()))
                }
                None => skip!(),
            }
        }
        "ermr" => {
            let j = n(2);
            match slot(&mut m.es, n(1)) {
                Some(e) => {
                    e.remove_relation(j);
                    ("ok".to_string(), hex(&e.to_string()))
                }
                None => skip!(),
            }
        }
        "erm" => match slot(&mut m.es, n(1)) {
            Some(e) => {
                e.remove();
                ("ok".to_string(), hex(&e.to_string()))
            }
            None => skip!(),
        },
        "rrm" | "sv" | "dc" | "sq" | "sa" | "ap" => {
            let r = match slot(&mut m.rs, n(1)) {
                Some(r) => r,
                None => skip!(),
            };
            let mut out = "ok".to_string();
            match a[0] {
                "rrm" => r.remove(),
                "sv" => match ver_of(a[2]) {
                    Ok(v) => r.set_version(v),
                    Err(()) => out = "n0".to_string(),
                },
                "dc" => {
                    out = (if r.drop_constraint() { "ok1" } else { "ok0" }).to_string();
                }
                "sq" => r.set_archqual(&unhex(a[2])),
                "sa" => {
                    let v = strs_of(a[2]);
                    r.set_architectures(v.iter().map(|s| s.as_str()));
                }
                _ => r.add_profile(&group_of(a[2])),
            }
            (out, hex(&r.to_string()))
        }
        _ => panic!("bad op {}", op),
    }
}

fn run(dump: bool, init: &str, prog: &str) -> String {
    let root = match catch_unwind(AssertUnwindSafe(|| build_init(init))) {
        Ok(Ok(r)) => r,
        Ok(Err(())) => return "init=ERR".to_string(),
        Err(_) => return "init=PANIC".to_string(),
    };
    let mut m = Machine { root, es: vec![], rs: vec![] };
    let init_s = match catch_unwind(AssertUnwindSafe(|| state_s(&m.root, dump))) {
        Ok(s) => s,
        Err(_) => return "init=PANIC".to_string(),
    };
    let mut steps = vec![];
    for op in prog.split(' ').filter(|x| !x.is_empty() && *x != "-") {
        let r = catch_unwind(AssertUnwindSafe(|| {
            let (out, h) = step(&mut m, op);
            if out.starts_with('g') || out.starts_with('n') {
                format!("{}:{}", out, h)
            } else {
                format!("{}:{}:{}", out, state_s(&m.root, dump), h)
            }
        }));
        match r {
            Ok(s) => steps.push(s),
            Err(_) => {
                steps.push("PANIC".to_string());
                break;
            }
        }
    }
    format!("init={}|steps={}", init_s, steps.join("/"))
}

pub fn rel_edit(fs: &[&str]) -> String {
    let dump = fs[0] == "1";
    let init = fs[1];
    // fs[2] is the generator's note for the oracle
    let runs: Vec<String> = fs[3..].iter().map(|p| run(dump, init, p)).collect();
    runs.iter()
        .enumerate()
        .map(|(i, r)| r.replace("init=", &format!("i{}=", i)).replace("steps=", &format!("s{}=", i)))
        .collect::<Vec<_>>()
        .join("|")
}

pub fn streams() -> Vec<(&'static str, crate::StreamFn)> {
    vec![("rel-edit", rel_edit as crate::StreamFn)]
}
