//! Stream deb822-store: a document, N paragraph registers, and a program that says through WHICH
//! handle (obtained WHEN) every edit goes.  The model side runs coq/model/Deb822Store.v.
use crate::util::*;
use deb822_lossless::{Deb822, Paragraph};
use std::str::FromStr;

fn items_s(p: &Paragraph) -> String {
    crate::s_deb822::items_s(p)
}
fn doc_s(d: &Deb822) -> String {
    crate::s_deb822::doc_items_s(d)
}
fn pairs1(enc: &str) -> Vec<(String, String)> {
    if enc == "-" || enc.is_empty() {
        return vec![];
    }
    enc.split(',')
        .map(|f| {
            let (k, v) = f.split_once('=').unwrap();
            (unhex(k), unhex(v))
        })
        .collect()
}
fn pairs(enc: &str) -> Vec<Vec<(String, String)>> {
    if enc == "-" {
        return vec![];
    }
    enc.split(';').map(pairs1).collect()
}
fn regs_s(regs: &[Option<Paragraph>]) -> String {
    regs.iter()
        .map(|r| match r {
            None => "-".to_string(),
            Some(p) => format!("+{}!{}", hex(&p.to_string()), items_s(p)),
        })
        .collect::<Vec<_>>()
        .join(".")
}

pub fn deb822_store(fs: &[&str]) -> String {
    let init = fs[0].to_string();
    let nregs: usize = fs[1].parse().unwrap();
    let ops: Vec<String> = fs[2].split(' ').filter(|x| !x.is_empty() && *x != "-").map(|x| x.to_string()).collect();
    guard(move || {
        let mut d: Deb822 = if init == "N" {
            Deb822::new()
        } else if let Some(h) = init.strip_prefix("T:") {
            Deb822::from_str_relaxed(&unhex(h)).0
        } else if let Some(e) = init.strip_prefix("F:") {
            pairs(e).into_iter().map(|p| p.into_iter().collect::<Paragraph>()).collect::<Deb822>()
        } else {
            panic!("bad init")
        };
        let mut regs: Vec<Option<Paragraph>> = (0..nregs).map(|_| None).collect();
        let text0 = d.to_string();
        let items0 = doc_s(&d);
        let mut outs = vec![];
        for op in &ops {
            let parts: Vec<&str> = op.split(':').collect();
            let ix = |s: &str| -> usize { s.parse().unwrap() };
            let code: u32 = match parts[0] {
                "G" => {
                    let h = d.paragraphs().nth(ix(parts[2]));
                    let c = if h.is_some() { 4 } else { 5 };
                    regs[ix(parts[1])] = h;
                    c
                }
                "P" => {
                    regs[ix(parts[1])] = Some(pairs1(parts[2]).into_iter().collect::<Paragraph>());
                    4
                }
                "S" | "I" | "R" | "N" => match regs[ix(parts[1])].as_mut() {
                    None => 1,
                    Some(h) => match parts[0] {
                        "S" => {
                            h.set(&unhex(parts[2]), &unhex(parts[3]));
                            0
                        }
                        "I" => {
                            h.insert(&unhex(parts[2]), &unhex(parts[3]));
                            0
                        }
                        "R" => {
                            h.remove(&unhex(parts[2]));
                            0
                        }
                        _ => {
                            if h.rename(&unhex(parts[2]), &unhex(parts[3])) {
                                2
                            } else {
                                3
                            }
                        }
                    },
                },
                "A" => {
                    regs[ix(parts[1])] = Some(d.add_paragraph());
                    0
                }
                "J" => {
                    regs[ix(parts[1])] = Some(d.insert_paragraph(ix(parts[2])));
                    0
                }
                "D" => {
                    d.remove_paragraph(ix(parts[1]));
                    0
                }
                _ => panic!("bad op"),
            };
            outs.push(format!("{}:{}~{}~{}", code, hex(&d.to_string()), doc_s(&d), regs_s(&regs)));
        }
        let fin = d.to_string();
        let reread = match Deb822::from_str(&fin) {
            Ok(r) => format!("OK:{}", doc_s(&r)),
            Err(_) => "ERR".to_string(),
        };
        format!("init={}~{}|steps={}|reread={}", hex(&text0), items0, outs.join("/"), reread)
    })
}

pub fn streams() -> Vec<(&'static str, crate::StreamFn)> {
    vec![("deb822-store", deb822_store as crate::StreamFn)]
}
