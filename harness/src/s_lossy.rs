//! Streams about the lossy deb822 reader / printer.
use crate::util::*;
use deb822_lossless::lossy;
use std::str::FromStr;

fn items_s(p: &lossy::Paragraph) -> String {
    p.iter().map(|(k, v)| format!("{}={}", hex(k), hex(v))).collect::<Vec<_>>().join(",")
}
fn doc_s(d: &lossy::Deb822) -> String {
    d.iter().map(|p| format!("[{}]", items_s(p))).collect::<Vec<_>>().join("")
}
fn lossless_s(s: &str) -> String {
    match deb822_lossless::Deb822::from_str(s) {
        Ok(d) => format!("OK:{}", crate::s_deb822::doc_items_s(&d)),
        Err(_) => "ERR".to_string(),
    }
}

pub fn lossy_parse(fs: &[&str]) -> String {
    let s = unhex(fs[0]);
    let s1 = s.clone();
    let lossy = guard(move || match lossy::Deb822::from_str(&s1) {
        Ok(d) => format!("OK:{}", doc_s(&d)),
        Err(_) => "ERR".to_string(),
    });
    let s2 = s.clone();
    let lpara = guard(move || match lossy::Paragraph::from_str(&s2) {
        Ok(p) => format!("OK:{}", items_s(&p)),
        Err(_) => "ERR".to_string(),
    });
    let s3 = s.clone();
    let strict = guard(move || lossless_s(&s3));
    format!("lossy={}|lpara={}|strict={}", lossy, lpara, strict)
}

fn parse_ldoc(enc: &str) -> Vec<lossy::Paragraph> {
    if enc == "-" {
        return vec![];
    }
    enc.split(';')
        .map(|p| {
            if p.is_empty() {
                return Vec::<(String, String)>::new().into_iter().collect();
            }
            p.split(',')
                .map(|f| {
                    let (k, v) = f.split_once('=').unwrap();
                    (unhex(k), unhex(v))
                })
                .collect::<lossy::Paragraph>()
        })
        .collect()
}

pub fn lossy_rt(fs: &[&str]) -> String {
    let paras = parse_ldoc(fs[0]);
    let ops: Vec<String> = fs[1].split(' ').filter(|x| !x.is_empty() && *x != "-").map(|x| x.to_string()).collect();
    guard(move || {
        // lossy::Deb822 has no public constructor from paragraphs: read a skeleton document with
        // as many paragraphs and overwrite them through iter_mut(), then use the REAL Display
        let skeleton: String = (0..paras.len()).map(|_| "K: v\n\n").collect();
        let mut doc = lossy::Deb822::from_str(&skeleton).unwrap();
        assert_eq!(doc.len(), paras.len());
        for (slot, p) in doc.iter_mut().zip(paras.iter()) {
            *slot = p.clone();
        }
        let text = doc.to_string();
        let reread = match lossy::Deb822::from_str(&text) {
            Ok(d) => format!("OK:{}", doc_s(&d)),
            Err(_) => "ERR".to_string(),
        };
        let lossless = lossless_s(&text);
        let mut p = paras.first().cloned().unwrap_or_else(|| Vec::<(String, String)>::new().into_iter().collect());
        let mut outs = vec![];
        for op in &ops {
            let parts: Vec<&str> = op.split(':').collect();
            match parts[0] {
                "g" => outs.push(format!("g{}", opt_hex(p.get(&unhex(parts[1]))))),
                "s" => {
                    p.set(&unhex(parts[1]), &unhex(parts[2]));
                    outs.push(format!("s{}", items_s(&p)))
                }
                "i" => {
                    p.insert(&unhex(parts[1]), &unhex(parts[2]));
                    outs.push(format!("i{}", items_s(&p)))
                }
                "r" => {
                    p.remove(&unhex(parts[1]));
                    outs.push(format!("r{}", items_s(&p)))
                }
                _ => panic!("bad op"),
            }
        }
        format!("text={}|reread={}|lossless={}|ops={}", hex(&text), reread, lossless, outs.join("/"))
    })
}

pub fn streams() -> Vec<(&'static str, crate::StreamFn)> {
    vec![
        ("lossy-parse", lossy_parse as crate::StreamFn),
        ("lossy-wf", lossy_parse as crate::StreamFn),
        ("lossy-rt", lossy_rt as crate::StreamFn),
        ("lossy-rt-any", lossy_rt as crate::StreamFn),
    ]
}
