//! Stream `codec`: typed field values and their text form (property C18).
//!
//! Case fields: `tag`, `op`, args...
//!   op `p` (parse a text):        args = [hex text]            (tag `vcs`: [hex name, hex value])
//!       record  `v=<value|ERR>|t=<hex of the parsed value printed again, or ->`
//!   op `r` (print a value, read the text back): args = the value's atoms
//!       record  `t=<hex text>|v=<value read back|ERR>`
//! Values are printed as comma-separated atoms: variant names, decimal integers, `x<hex>` strings,
//! `-` / `+<hex>` options.  A panic anywhere gives the record `PANIC`.
use crate::util::*;
use std::str::FromStr;

use apt_sources::signature::Signature;
use apt_sources::{RepositoryType, YesNoForce};
use deb822_lossless::lossy::{Field, Paragraph};
use deb822_lossless::{FromDeb822Paragraph, ToDeb822Paragraph};
use debian_control::changes::File;
use debian_control::fields::{
    Md5Checksum, MultiArch, PackageListEntry, Priority, Sha1Checksum, Sha256Checksum,
    Sha512Checksum, Urgency,
};
use debian_control::relations::{BuildProfile, VersionConstraint};
use debian_control::vcs::{ParsedVcs, Vcs};
use debian_copyright::License;
use dep3::{AppliedUpstream, Forwarded, Origin, OriginCategory};

fn x(s: &str) -> String {
    format!("x{}", hex(s))
}
fn ux(a: &str) -> String {
    unhex(a.strip_prefix('x').expect("x-atom"))
}
fn opt(o: &Option<String>) -> String {
    match o {
        None => "-".to_string(),
        Some(s) => format!("+{}", hex(s)),
    }
}
fn uopt(a: &str) -> Option<String> {
    if a == "-" {
        None
    } else {
        Some(unhex(a.strip_prefix('+').expect("option atom")))
    }
}

// ---- enumerations: every variant, found by its Debug name
fn all_priority() -> Vec<Priority> {
    vec![Priority::Required, Priority::Important, Priority::Standard, Priority::Optional, Priority::Extra]
}
fn all_multiarch() -> Vec<MultiArch> {
    vec![MultiArch::Same, MultiArch::Foreign, MultiArch::No, MultiArch::Allowed]
}
fn all_urgency() -> Vec<Urgency> {
    vec![Urgency::Low, Urgency::Medium, Urgency::High, Urgency::Emergency, Urgency::Critical]
}
fn all_constraint() -> Vec<VersionConstraint> {
    vec![
        VersionConstraint::LessThan,
        VersionConstraint::LessThanEqual,
        VersionConstraint::Equal,
        VersionConstraint::GreaterThan,
        VersionConstraint::GreaterThanEqual,
    ]
}
fn all_origincat() -> Vec<OriginCategory> {
    vec![OriginCategory::Backport, OriginCategory::Vendor, OriginCategory::Upstream, OriginCategory::Other]
}
fn all_repotype() -> Vec<RepositoryType> {
    vec![RepositoryType::Binary, RepositoryType::Source]
}
fn all_ynf() -> Vec<YesNoForce> {
    vec![YesNoForce::Yes, YesNoForce::No, YesNoForce::Force]
}
fn by_name<T: std::fmt::Debug>(all: Vec<T>, name: &str) -> Option<T> {
    all.into_iter().find(|v| format!("{:?}", v) == name)
}

fn enum_codec<T, P, Q>(all: Vec<T>, op: &str, a: &[&str], parse: P, print: Q) -> String
where
    T: std::fmt::Debug,
    P: Fn(&str) -> Option<T>,
    Q: Fn(&T) -> String,
{
    match op {
        "p" => match parse(&unhex(a[0])) {
            Some(v) => format!("v={:?}|t={}", v, hex(&print(&v))),
            None => "v=ERR|t=-".to_string(),
        },
        _ => match by_name(all, a[0]) {
            None => "NOVARIANT".to_string(),
            Some(v) => {
                let t = print(&v);
                match parse(&t) {
                    Some(w) => format!("t={}|v={:?}", hex(&t), w),
                    None => format!("t={}|v=ERR", hex(&t)),
                }
            }
        },
    }
}

// ---- generic shape for FromStr/Display types
fn codec<T, B, R>(op: &str, a: &[&str], build: B, repr: R) -> String
where
    T: FromStr + ToString,
    B: Fn(&[&str]) -> T,
    R: Fn(&T) -> String,
{
    match op {
        "p" => match T::from_str(&unhex(a[0])) {
            Ok(v) => format!("v={}|t={}", repr(&v), hex(&v.to_string())),
            Err(_) => "v=ERR|t=-".to_string(),
        },
        _ => {
            let v = build(a);
            let t = v.to_string();
            match T::from_str(&t) {
                Ok(w) => format!("t={}|v={}", hex(&t), repr(&w)),
                Err(_) => format!("t={}|v=ERR", hex(&t)),
            }
        }
    }
}

fn prio_name(p: &Priority) -> String {
    format!("{:?}", p)
}
fn prio_of(name: &str) -> Priority {
    by_name(all_priority(), name).expect("priority name")
}

fn ple_repr(v: &PackageListEntry) -> String {
    let mut ex: Vec<(&String, &String)> = v.extra.iter().collect();
    ex.sort();
    let mut s = format!(
        "{},{},{},{},{}",
        x(&v.package),
        x(&v.package_type),
        x(&v.section),
        prio_name(&v.priority),
        ex.len()
    );
    for (k, w) in ex {
        s.push_str(&format!(",{},{}", x(k), x(w)));
    }
    s
}
/// the space-separated pieces of a printed package-list entry, sorted (HashMap iteration order is arbitrary)
fn sorted_pieces(t: &str) -> String {
    let mut p: Vec<&str> = t.split(' ').collect();
    p.sort();
    p.join(" ")
}

fn vcs_repr(v: &Vcs) -> String {
    match v {
        Vcs::Git { repo_url, branch, subpath } => format!("Git,{},{},{}", x(repo_url), opt(branch), opt(subpath)),
        Vcs::Bzr { repo_url, subpath } => format!("Bzr,{},{}", x(repo_url), opt(subpath)),
        Vcs::Hg { repo_url } => format!("Hg,{}", x(repo_url)),
        Vcs::Svn { url } => format!("Svn,{}", x(url)),
        Vcs::Cvs { root, module } => format!("Cvs,{},{}", x(root), opt(module)),
    }
}
fn vcs_build(a: &[&str]) -> Vcs {
    match a[0] {
        "Git" => Vcs::Git { repo_url: ux(a[1]), branch: uopt(a[2]), subpath: uopt(a[3]) },
        "Bzr" => Vcs::Bzr { repo_url: ux(a[1]), subpath: uopt(a[2]) },
        "Hg" => Vcs::Hg { repo_url: ux(a[1]) },
        "Svn" => Vcs::Svn { url: ux(a[1]) },
        _ => Vcs::Cvs { root: ux(a[1]), module: uopt(a[2]) },
    }
}

type OriginPair = (Option<OriginCategory>, Origin);
fn origin_repr(o: &Origin) -> String {
    match o {
        Origin::Commit(s) => format!("Commit,{}", x(s)),
        Origin::Other(s) => format!("Other,{}", x(s)),
    }
}
fn porigin_repr(p: &OriginPair) -> String {
    let c = match &p.0 {
        None => "-".to_string(),
        Some(c) => format!("{:?}", c),
    };
    format!("{},{}", c, origin_repr(&p.1))
}
/// dep3's parse_origin is crate-private: reach it through the derived lossy PatchHeader reader,
/// which hands the raw field value to it
fn parse_origin_via_header(text: &str) -> Option<OriginPair> {
    let p = Paragraph { fields: vec![Field { name: "Origin".to_string(), value: text.to_string() }] };
    let h: dep3::lossy::PatchHeader = FromDeb822Paragraph::from_paragraph(&p).ok()?;
    h.origin
}
fn format_origin_via_header(v: &OriginPair) -> String {
    let p = Paragraph { fields: vec![] };
    let mut h: dep3::lossy::PatchHeader = FromDeb822Paragraph::from_paragraph(&p).expect("empty header");
    h.origin = Some(v.clone());
    let q: Paragraph = h.to_paragraph();
    q.get("Origin").expect("Origin written").to_string()
}

fn run(fs: &[&str]) -> String {
    let tag = fs[0];
    let op = fs[1];
    let a = &fs[2..];
    match tag {
        "priority" => enum_codec(all_priority(), op, a, |s| Priority::from_str(s).ok(), |v| v.to_string()),
        "multiarch" => enum_codec(all_multiarch(), op, a, |s| MultiArch::from_str(s).ok(), |v| v.to_string()),
        "urgency" => enum_codec(all_urgency(), op, a, |s| Urgency::from_str(s).ok(), |v| v.to_string()),
        "constraint" => enum_codec(all_constraint(), op, a, |s| VersionConstraint::from_str(s).ok(), |v| v.to_string()),
        "origincat" => enum_codec(all_origincat(), op, a, |s| OriginCategory::from_str(s).ok(), |v| v.to_string()),
        "repotype" => enum_codec(all_repotype(), op, a, |s| RepositoryType::from_str(s).ok(), |v| v.to_string()),
        "ynf" => enum_codec(all_ynf(), op, a, |s| YesNoForce::from_str(s).ok(), |v| (&v).to_string()),
        "md5" => codec::<Md5Checksum, _, _>(
            op,
            a,
            |a| Md5Checksum { md5sum: ux(a[0]), size: a[1].parse().unwrap(), filename: ux(a[2]) },
            |v| format!("{},{},{}", x(&v.md5sum), v.size, x(&v.filename)),
        ),
        "sha1" => codec::<Sha1Checksum, _, _>(
            op,
            a,
            |a| Sha1Checksum { sha1: ux(a[0]), size: a[1].parse().unwrap(), filename: ux(a[2]) },
            |v| format!("{},{},{}", x(&v.sha1), v.size, x(&v.filename)),
        ),
        "sha256" => codec::<Sha256Checksum, _, _>(
            op,
            a,
            |a| Sha256Checksum { sha256: ux(a[0]), size: a[1].parse().unwrap(), filename: ux(a[2]) },
            |v| format!("{},{},{}", x(&v.sha256), v.size, x(&v.filename)),
        ),
        "sha512" => codec::<Sha512Checksum, _, _>(
            op,
            a,
            |a| Sha512Checksum { sha512: ux(a[0]), size: a[1].parse().unwrap(), filename: ux(a[2]) },
            |v| format!("{},{},{}", x(&v.sha512), v.size, x(&v.filename)),
        ),
        "file" => codec::<File, _, _>(
            op,
            a,
            |a| File {
                md5sum: ux(a[0]),
                size: a[1].parse().unwrap(),
                section: ux(a[2]),
                priority: prio_of(a[3]),
                filename: ux(a[4]),
            },
            |v| format!("{},{},{},{},{}", x(&v.md5sum), v.size, x(&v.section), prio_name(&v.priority), x(&v.filename)),
        ),
        "ple" => match op {
            "p" => match PackageListEntry::from_str(&unhex(a[0])) {
                Ok(v) => format!("v={}|t={}", ple_repr(&v), hex(&sorted_pieces(&v.to_string()))),
                Err(_) => "v=ERR|t=-".to_string(),
            },
            _ => {
                let mut v = PackageListEntry::new(&ux(a[0]), &ux(a[1]), &ux(a[2]), prio_of(a[3]));
                let n: usize = a[4].parse().unwrap();
                for i in 0..n {
                    v.extra.insert(ux(a[5 + 2 * i]), ux(a[6 + 2 * i]));
                }
                let t = v.to_string();
                match PackageListEntry::from_str(&t) {
                    Ok(w) => format!("t={}|v={}", hex(&sorted_pieces(&t)), ple_repr(&w)),
                    Err(_) => format!("t={}|v=ERR", hex(&sorted_pieces(&t))),
                }
            }
        },
        "profile" => codec::<BuildProfile, _, _>(
            op,
            a,
            |a| if a[0] == "E" { BuildProfile::Enabled(ux(a[1])) } else { BuildProfile::Disabled(ux(a[1])) },
            |v| match v {
                BuildProfile::Enabled(s) => format!("E,{}", x(s)),
                BuildProfile::Disabled(s) => format!("D,{}", x(s)),
            },
        ),
        "pvcs" => codec::<ParsedVcs, _, _>(
            op,
            a,
            |a| ParsedVcs { repo_url: ux(a[0]), branch: uopt(a[1]), subpath: uopt(a[2]) },
            |v| format!("{},{},{}", x(&v.repo_url), opt(&v.branch), opt(&v.subpath)),
        ),
        "vcs" => match op {
            "p" => match Vcs::from_field(&unhex(a[0]), &unhex(a[1])) {
                Ok(v) => {
                    let (n, t) = v.to_field();
                    format!("v={}|n={}|t={}", vcs_repr(&v), hex(n), hex(&t))
                }
                Err(_) => "v=ERR|n=-|t=-".to_string(),
            },
            _ => {
                let v = vcs_build(a);
                let (n, t) = v.to_field();
                match Vcs::from_field(n, &t) {
                    Ok(w) => format!("n={}|t={}|v={}", hex(n), hex(&t), vcs_repr(&w)),
                    Err(_) => format!("n={}|t={}|v=ERR", hex(n), hex(&t)),
                }
            }
        },
        "forwarded" => codec::<Forwarded, _, _>(
            op,
            a,
            |a| match a[0] {
                "No" => Forwarded::No,
                "NotNeeded" => Forwarded::NotNeeded,
                _ => Forwarded::Yes(ux(a[1])),
            },
            |v| match v {
                Forwarded::No => "No".to_string(),
                Forwarded::NotNeeded => "NotNeeded".to_string(),
                Forwarded::Yes(s) => format!("Yes,{}", x(s)),
            },
        ),
        "origin" => codec::<Origin, _, _>(
            op,
            a,
            |a| if a[0] == "Commit" { Origin::Commit(ux(a[1])) } else { Origin::Other(ux(a[1])) },
            origin_repr,
        ),
        "applied" => codec::<AppliedUpstream, _, _>(
            op,
            a,
            |a| if a[0] == "Commit" { AppliedUpstream::Commit(ux(a[1])) } else { AppliedUpstream::Other(ux(a[1])) },
            |v| match v {
                AppliedUpstream::Commit(s) => format!("Commit,{}", x(s)),
                AppliedUpstream::Other(s) => format!("Other,{}", x(s)),
            },
        ),
        "porigin" => match op {
            "p" => match parse_origin_via_header(&unhex(a[0])) {
                Some(v) => format!("v={}|t={}", porigin_repr(&v), hex(&format_origin_via_header(&v))),
                None => "v=ERR|t=-".to_string(),
            },
            _ => {
                let c = if a[0] == "-" { None } else { Some(by_name(all_origincat(), a[0]).expect("category")) };
                let o = if a[1] == "Commit" { Origin::Commit(ux(a[2])) } else { Origin::Other(ux(a[2])) };
                let t = format_origin_via_header(&(c, o));
                match parse_origin_via_header(&t) {
                    Some(w) => format!("t={}|v={}", hex(&t), porigin_repr(&w)),
                    None => format!("t={}|v=ERR", hex(&t)),
                }
            }
        },
        "license" => codec::<License, _, _>(
            op,
            a,
            |a| match a[0] {
                "Name" => License::Name(ux(a[1])),
                "Text" => License::Text(ux(a[1])),
                _ => License::Named(ux(a[1]), ux(a[2])),
            },
            |v| match v {
                License::Name(n) => format!("Name,{}", x(n)),
                License::Text(t) => format!("Text,{}", x(t)),
                License::Named(n, t) => format!("Named,{},{}", x(n), x(t)),
            },
        ),
        "signature" => codec::<Signature, _, _>(
            op,
            a,
            |a| if a[0] == "KeyBlock" { Signature::KeyBlock(ux(a[1])) } else { Signature::KeyPath(ux(a[1]).into()) },
            |v| match v {
                Signature::KeyBlock(s) => format!("KeyBlock,{}", x(s)),
                Signature::KeyPath(p) => format!("KeyPath,{}", x(&p.to_string_lossy())),
            },
        ),
        "identity" => match debian_control::parse_identity(&unhex(a[0])) {
            Ok((n, e)) => format!("v={},{}", x(n), x(e)),
            Err(_) => "v=ERR".to_string(),
        },
        _ => "UNKNOWN-TAG".to_string(),
    }
}

pub fn codec_stream(fs: &[&str]) -> String {
    let owned: Vec<String> = fs.iter().map(|s| s.to_string()).collect();
    guard(move || {
        let refs: Vec<&str> = owned.iter().map(|s| s.as_str()).collect();
        run(&refs)
    })
}

pub fn streams() -> Vec<(&'static str, crate::StreamFn)> {
    vec![("codec", codec_stream as crate::StreamFn)]
}
