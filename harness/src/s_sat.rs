//! C12 streams: `vercmp` (debversion ordering), `sat` / `sat-text` (dependency satisfaction).
use crate::util::*;
use debian_control::lossless::relations as ll;
use debian_control::lossy;
use debian_control::relations::VersionConstraint;
use debian_control::VersionLookup;
use debversion::Version;
use std::cmp::Ordering;
use std::collections::HashMap;
use std::panic::AssertUnwindSafe;

fn ver_s(v: &Version) -> String {
    format!(
        "{}:{}:{}",
        match v.epoch {
            None => "-".to_string(),
            Some(e) => e.to_string(),
        },
        hex(&v.upstream_version),
        opt_hex(v.debian_revision.as_deref())
    )
}

fn parse_ver(s: &str) -> Option<Version> {
    let s = s.to_string();
    std::panic::catch_unwind(move || s.parse::<Version>().ok()).unwrap_or(None)
}

fn cmp_s(o: Ordering) -> &'static str {
    match o {
        Ordering::Less => "LT",
        Ordering::Equal => "EQ",
        Ordering::Greater => "GT",
    }
}

/// stream vercmp: fields = [hex a, hex b]
pub fn vercmp(fs: &[&str]) -> String {
    let a = unhex(fs[0]);
    let b_ = unhex(fs[1]);
    let pa = parse_ver(&a);
    let pb = parse_ver(&b_);
    let show = |p: &Option<Version>| match p {
        None => "ERR".to_string(),
        Some(v) => ver_s(v),
    };
    let (cmp, rev, eq) = match (&pa, &pb) {
        (Some(x), Some(y)) => {
            let (x1, y1) = (x.clone(), y.clone());
            let cmp = guard(move || cmp_s(x1.cmp(&y1)).to_string());
            let (x2, y2) = (x.clone(), y.clone());
            let rev = guard(move || cmp_s(y2.cmp(&x2)).to_string());
            let (x3, y3) = (x.clone(), y.clone());
            let eq = guard(move || b(x3 == y3).to_string());
            (cmp, rev, eq)
        }
        _ => ("-".to_string(), "-".to_string(), "-".to_string()),
    };
    format!("a={}|b={}|cmp={}|rev={}|eq={}", show(&pa), show(&pb), cmp, rev, eq)
}

// ---------------------------------------------------------------- sat

type Alt = (String, Option<(String, String)>);
type TAlt = (String, Option<(VersionConstraint, Version)>);

fn parse_alt(a: &str) -> Alt {
    let p: Vec<&str> = a.split(':').collect();
    match p.len() {
        1 => (unhex(p[0]), None),
        3 => (unhex(p[0]), Some((unhex(p[1]), unhex(p[2])))),
        _ => panic!("bad alternative"),
    }
}
fn parse_struct(s: &str) -> Vec<Vec<Alt>> {
    if s == "-" {
        return vec![];
    }
    s.split(';')
        .map(|e| if e.is_empty() { vec![] } else { e.split(',').map(parse_alt).collect() })
        .collect()
}
fn parse_assignment(s: &str) -> Option<Vec<(String, Version)>> {
    if s == "-" {
        return Some(vec![]);
    }
    s.split(',')
        .map(|kv| {
            let p: Vec<&str> = kv.split(':').collect();
            assert!(p.len() == 2, "bad assignment");
            parse_ver(&unhex(p[1])).map(|v| (unhex(p[0]), v))
        })
        .collect()
}
fn type_struct(st: &[Vec<Alt>]) -> Option<Vec<Vec<TAlt>>> {
    st.iter()
        .map(|e| {
            e.iter()
                .map(|(n, v)| match v {
                    None => Some((n.clone(), None)),
                    Some((o, ver)) => match (o.parse::<VersionConstraint>().ok(), parse_ver(ver)) {
                        (Some(vc), Some(v)) => Some((n.clone(), Some((vc, v)))),
                        _ => None,
                    },
                })
                .collect::<Option<Vec<_>>>()
        })
        .collect()
}
fn rb(f: impl FnOnce() -> bool) -> String {
    guard(AssertUnwindSafe(move || b(f()).to_string()))
}
fn opt_ver(o: Option<std::borrow::Cow<'_, Version>>) -> String {
    match o {
        None => "-".to_string(),
        Some(v) => ver_s(v.as_ref()),
    }
}

/// field-by-field equality that does not go through Version's Ord (which can panic)
fn same_lossy(p: &lossy::Relations, c: &lossy::Relations) -> bool {
    p.0.len() == c.0.len()
        && p.0.iter().zip(c.0.iter()).all(|(pe, ce)| {
            pe.len() == ce.len()
                && pe.iter().zip(ce.iter()).all(|(pr, cr)| {
                    pr.name == cr.name
                        && pr.archqual == cr.archqual
                        && pr.architectures == cr.architectures
                        && pr.profiles == cr.profiles
                        && match (&pr.version, &cr.version) {
                            (None, None) => true,
                            (Some((o1, v1)), Some((o2, v2))) => o1 == o2 && ver_s(v1) == ver_s(v2),
                            _ => false,
                        }
                })
        })
}

/// ll, lr, ne, le from the text, with the closure lookup form
fn text_parts(text: &str, asg: &[(String, Version)]) -> (String, String, String, String) {
    let closure =
        |name: &str| -> Option<Version> { asg.iter().rev().find(|(k, _)| k == name).map(|(_, v)| v.clone()) };
    let ll = guard(AssertUnwindSafe(|| match text.parse::<ll::Relations>() {
        Ok(r) => b(r.satisfied_by(closure)).to_string(),
        Err(_) => "ERR".to_string(),
    }));
    let relaxed = std::panic::catch_unwind(AssertUnwindSafe(|| ll::Relations::parse_relaxed(text, false)));
    match relaxed {
        Err(_) => (ll, "PANIC".to_string(), "-".to_string(), String::new()),
        Ok((r, errs)) => {
            let lr = rb(|| r.satisfied_by(closure));
            let le: String = r
                .entries()
                .map(|e| {
                    match std::panic::catch_unwind(AssertUnwindSafe(|| e.satisfied_by(closure))) {
                        Ok(true) => "1",
                        Ok(false) => "0",
                        Err(_) => "P",
                    }
                })
                .collect();
            (ll, lr, errs.len().to_string(), le)
        }
    }
}

/// stream sat-text: fields = [hex text, assignment]
pub fn sat_text(fs: &[&str]) -> String {
    let text = unhex(fs[0]);
    let asg = match parse_assignment(fs[1]) {
        Some(a) => a,
        None => return "BADCASE".to_string(),
    };
    let (ll, lr, ne, le) = text_parts(&text, &asg);
    format!("ll={}|lr={}|ne={}|le={}", ll, lr, ne, le)
}

/// stream sat: fields = [hex text or "!", structure, assignment, probes]
pub fn sat(fs: &[&str]) -> String {
    let st = parse_struct(fs[1]);
    let asg = match parse_assignment(fs[2]) {
        Some(a) => a,
        None => return "BADCASE".to_string(),
    };
    let asg = &asg;
    let closure =
        |name: &str| -> Option<Version> { asg.iter().rev().find(|(k, _)| k == name).map(|(_, v)| v.clone()) };
    let mut hmap: HashMap<String, Version> = HashMap::new();
    for (k, v) in asg.iter() {
        hmap.insert(k.clone(), v.clone());
    }
    let pair: Option<(String, Version)> = asg.first().cloned();
    let typed = type_struct(&st);
    let has_text = fs[0] != "!";
    let text = if has_text { unhex(fs[0]) } else { String::new() };
    let dash = || "-".to_string();
    let (ll, lr, ne, le) = if has_text { text_parts(&text, asg) } else { (dash(), dash(), dash(), String::new()) };

    // lossy value built from the structure
    let lossy_c: Option<lossy::Relations> = typed.as_ref().map(|t| {
        lossy::Relations(
            t.iter()
                .map(|e| {
                    e.iter()
                        .map(|(n, v)| lossy::Relation {
                            name: n.clone(),
                            archqual: None,
                            architectures: None,
                            version: v.clone(),
                            profiles: vec![],
                        })
                        .collect()
                })
                .collect(),
        )
    });
    let lossy_p: Option<Result<lossy::Relations, String>> =
        if has_text { Some(text.parse::<lossy::Relations>()) } else { None };
    let ly = match &lossy_p {
        None => dash(),
        Some(Err(_)) => "ERR".to_string(),
        Some(Ok(r)) => rb(|| r.satisfied_by(closure)),
    };
    let rt = match (&lossy_p, &lossy_c) {
        (Some(Ok(p)), Some(c)) => rb(|| same_lossy(p, c)),
        _ => dash(),
    };
    // lossless value built through the constructors: answer and tree dump; cw: the same value
    // after Relations::wrap_and_sort() (which consumes it: built a second time)
    let build_c = |t: &Vec<Vec<TAlt>>| -> ll::Relations {
        let entries: Vec<ll::Entry> = t
            .iter()
            .map(|e| ll::Entry::from(e.iter().map(|(n, v)| ll::Relation::new(n, v.clone())).collect::<Vec<_>>()))
            .collect();
        ll::Relations::from(entries)
    };
    let (lc, lcd, cw) = match &typed {
        None => (dash(), dash(), dash()),
        Some(t) => {
            let cw = match std::panic::catch_unwind(AssertUnwindSafe(|| build_c(t))) {
                Err(_) => "PANIC".to_string(),
                Ok(r) => rb(|| r.wrap_and_sort().satisfied_by(closure)),
            };
            match std::panic::catch_unwind(AssertUnwindSafe(|| build_c(t))) {
                Err(_) => ("PANIC".to_string(), dash(), cw),
                Ok(r) => (rb(|| r.satisfied_by(closure)), guard(AssertUnwindSafe(|| r.verif_dump())), cw),
            }
        }
    };
    // lw: the tolerant reader's tree after Relations::wrap_and_sort()
    let lw = if has_text {
        match std::panic::catch_unwind(AssertUnwindSafe(|| ll::Relations::parse_relaxed(&text, false))) {
            Err(_) => "PANIC".to_string(),
            Ok((r, _)) => rb(|| r.wrap_and_sort().satisfied_by(closure)),
        }
    } else {
        dash()
    };
    // every versioned alternative gets its constraint through Relation::set_version, starting from a
    // relation chosen by its position in the entry (mod 4): Relation::simple (insert after the name),
    // Relation::new(name, (=, v)) (replace), simple + set_archqual("any") (insert after the
    // qualifier), "name:any [amd64] <!nocheck>" parsed (the same on a parsed relation)
    let (sv, svd) = match &typed {
        None => (dash(), dash()),
        Some(t) => {
            let built = std::panic::catch_unwind(AssertUnwindSafe(|| -> Option<ll::Relations> {
                let mut entries: Vec<ll::Entry> = vec![];
                for e in t.iter() {
                    let mut rels: Vec<ll::Relation> = vec![];
                    for (i, (n, v)) in e.iter().enumerate() {
                        let r = match v {
                            None => ll::Relation::simple(n),
                            Some((vc, ver)) => {
                                let mut r = match i % 4 {
                                    0 => ll::Relation::simple(n),
                                    1 => ll::Relation::new(n, Some((VersionConstraint::Equal, ver.clone()))),
                                    2 => {
                                        let mut r = ll::Relation::simple(n);
                                        r.set_archqual("any");
                                        r
                                    }
                                    _ => format!("{}:any [amd64] <!nocheck>", n).parse::<ll::Relation>().ok()?,
                                };
                                r.set_version(Some((vc.clone(), ver.clone())));
                                r
                            }
                        };
                        rels.push(r);
                    }
                    entries.push(ll::Entry::from(rels));
                }
                Some(ll::Relations::from(entries))
            }));
            match built {
                Err(_) => ("PANIC".to_string(), dash()),
                Ok(None) => ("ERR".to_string(), dash()),
                Ok(Some(r)) => (rb(|| r.satisfied_by(closure)), guard(AssertUnwindSafe(|| r.verif_dump()))),
            }
        }
    };
    let yc = match &lossy_c {
        None => dash(),
        Some(c) => rb(|| c.satisfied_by(closure)),
    };
    // map and pair forms are not Copy: Relations::satisfied_by cannot take them; go through
    // lossy::Relation::satisfied_by with the same all/any nesting
    let ym = match &lossy_c {
        None => dash(),
        Some(c) => rb(|| c.0.iter().all(|e| e.iter().any(|r| r.satisfied_by(hmap.clone())))),
    };
    let yp = match (&lossy_c, &pair) {
        (Some(c), Some(p)) => rb(|| c.0.iter().all(|e| e.iter().any(|r| r.satisfied_by(p.clone())))),
        _ => dash(),
    };
    let lk: Vec<String> = if fs[3] == "-" {
        vec![]
    } else {
        fs[3]
            .split(',')
            .map(|h| {
                let n = unhex(h);
                format!(
                    "{}/{}/{}",
                    opt_ver(hmap.lookup_version(&n)),
                    opt_ver(closure.lookup_version(&n)),
                    match &pair {
                        None => dash(),
                        Some(p) => opt_ver(p.lookup_version(&n)),
                    }
                )
            })
            .collect()
    };
    format!(
        "ty={}|ll={}|lr={}|ne={}|le={}|ly={}|rt={}|lc={}|yc={}|ym={}|yp={}|sv={}|lw={}|cw={}|lcd={}|svd={}|lk={}",
        if typed.is_some() { "1" } else { "0" },
        ll, lr, ne, le, ly, rt, lc, yc, ym, yp, sv, lw, cw, lcd, svd, lk.join(",")
    )
}

pub fn streams() -> Vec<(&'static str, crate::StreamFn)> {
    vec![
        ("vercmp", vercmp as crate::StreamFn),
        ("sat", sat as crate::StreamFn),
        ("sat-text", sat_text as crate::StreamFn),
    ]
}
