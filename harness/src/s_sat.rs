//! C12 streams: `vercmp` (debversion ordering), `sat` / `sat-text` (dependency satisfaction).
use crate::util::*;
use debversion::Version;
use std::cmp::Ordering;

fn ver_s(v: &Version) -> String {
    format!(
        "{}:{}:{}",
        match v.epoch {
            None => "-".to_string(),
            Some(e) => e.to_string(),
        },
        hex(&v.upstream_version),
        opt_hex(v.debian_revision.as_deref())
    )
}

fn parse_ver(s: &str) -> Option<Version> {
    let s = s.to_string();
    std::panic::catch_unwind(move || s.parse::<Version>().ok()).unwrap_or(None)
}

fn cmp_s(o: Ordering) -> &'static str {
    match o {
        Ordering::Less => "LT",
        Ordering::Equal => "EQ",
        Ordering::Greater => "GT",
    }
}

/// stream vercmp: fields = [hex a, hex b]
pub fn vercmp(fs: &[&str]) -> String {
    let a = unhex(fs[0]);
    let b_ = unhex(fs[1]);
    let pa = parse_ver(&a);
    let pb = parse_ver(&b_);
    let show = |p: &Option<Version>| match p {
        None => "ERR".to_string(),
        Some(v) => ver_s(v),
    };
    let (cmp, rev, eq) = match (&pa, &pb) {
        (Some(x), Some(y)) => {
            let (x1, y1) = (x.clone(), y.clone());
            let cmp = guard(move || cmp_s(x1.cmp(&y1)).to_string());
            let (x2, y2) = (x.clone(), y.clone());
            let rev = guard(move || cmp_s(y2.cmp(&x2)).to_string());
            let (x3, y3) = (x.clone(), y.clone());
            let eq = guard(move || b(x3 == y3).to_string());
            (cmp, rev, eq)
        }
        _ => ("-".to_string(), "-".to_string(), "-".to_string()),
    };
    format!("a={}|b={}|cmp={}|rev={}|eq={}", show(&pa), show(&pb), cmp, rev, eq)
}

pub fn streams() -> Vec<(&'static str, crate::StreamFn)> {
    vec![("vercmp", vercmp as crate::StreamFn)]
}
