//! Streams about the lossy relations reader/printer (debian-control/src/lossy/relations.rs) and
//! its conversions to and from the lossless form (C14).
//!
//! Value syntax (case fields and records; the same on the OCaml side, runner/s_rellossy.ml):
//!   relations := "R" { "&" entry }            entry := "E" { "/" relation }
//!   relation  := hex(name) "~" opt "~" ver "~" archs "~" profs
//!   opt       := "-" | "+" hex
//!   ver       := "-" | op ":" epoch ":" hex(upstream) ":" opt(revision)    op := ge|le|eq|gt|lt
//!   epoch     := "-" | decimal u32
//!   archs     := "-" | "L" { "," hex }
//!   profs     := "P" { ";" "G" { "," ("e."|"d.") hex } }
use crate::util::*;
use debian_control::lossy::{Relation, Relations};
use debian_control::relations::{BuildProfile, VersionConstraint};
use debversion::Version;
use std::str::FromStr;

type LRelation = debian_control::lossless::relations::Relation;
type LEntry = debian_control::lossless::relations::Entry;
type LRelations = debian_control::lossless::relations::Relations;

// ---------------------------------------------------------------- dumps
fn op_s(c: &VersionConstraint) -> &'static str {
    match c {
        VersionConstraint::GreaterThanEqual => "ge",
        VersionConstraint::LessThanEqual => "le",
        VersionConstraint::Equal => "eq",
        VersionConstraint::GreaterThan => "gt",
        VersionConstraint::LessThan => "lt",
    }
}
fn op_of(s: &str) -> VersionConstraint {
    match s {
        "ge" => VersionConstraint::GreaterThanEqual,
        "le" => VersionConstraint::LessThanEqual,
        "eq" => VersionConstraint::Equal,
        "gt" => VersionConstraint::GreaterThan,
        "lt" => VersionConstraint::LessThan,
        _ => panic!("bad operator in case file"),
    }
}
fn ver_s(v: &Version) -> String {
    format!(
        "{}:{}:{}",
        match v.epoch {
            None => "-".to_string(),
            Some(e) => e.to_string(),
        },
        hex(&v.upstream_version),
        opt_hex(v.debian_revision.as_deref())
    )
}
fn rel_s(r: &Relation) -> String {
    let ver = match &r.version {
        None => "-".to_string(),
        Some((c, v)) => format!("{}:{}", op_s(c), ver_s(v)),
    };
    let archs = match &r.architectures {
        None => "-".to_string(),
        Some(a) => {
            let mut o = "L".to_string();
            for x in a {
                o.push(',');
                o.push_str(&hex(x));
            }
            o
        }
    };
    let mut profs = "P".to_string();
    for g in &r.profiles {
        profs.push_str(";G");
        for t in g {
            match t {
                BuildProfile::Enabled(s) => profs.push_str(&format!(",e.{}", hex(s))),
                BuildProfile::Disabled(s) => profs.push_str(&format!(",d.{}", hex(s))),
            }
        }
    }
    format!("{}~{}~{}~{}~{}", hex(&r.name), opt_hex(r.archqual.as_deref()), ver, archs, profs)
}
fn entry_s(e: &[Relation]) -> String {
    let mut o = "E".to_string();
    for r in e {
        o.push('/');
        o.push_str(&rel_s(r));
    }
    o
}
fn rels_s(rs: &Relations) -> String {
    let mut o = "R".to_string();
    for e in &rs.0 {
        o.push('&');
        o.push_str(&entry_s(e));
    }
    o
}

fn opt_of(s: &str) -> Option<String> {
    if s == "-" {
        None
    } else {
        Some(unhex(&s[1..]))
    }
}
fn rel_of(s: &str) -> Relation {
    let p: Vec<&str> = s.split('~').collect();
    assert!(p.len() == 5, "bad relation in case file");
    let version = if p[2] == "-" {
        None
    } else {
        let v: Vec<&str> = p[2].split(':').collect();
        assert!(v.len() == 4);
        Some((
            op_of(v[0]),
            Version {
                epoch: if v[1] == "-" { None } else { Some(v[1].parse::<u32>().unwrap()) },
                upstream_version: unhex(v[2]),
                debian_revision: opt_of(v[3]),
            },
        ))
    };
    let architectures = if p[3] == "-" {
        None
    } else {
        Some(p[3].split(',').skip(1).map(unhex).collect())
    };
    let profiles = p[4]
        .split(';')
        .skip(1)
        .map(|g| {
            g.split(',')
                .skip(1)
                .map(|t| {
                    if let Some(h) = t.strip_prefix("e.") {
                        BuildProfile::Enabled(unhex(h))
                    } else {
                        BuildProfile::Disabled(unhex(&t[2..]))
                    }
                })
                .collect()
        })
        .collect();
    Relation { name: unhex(p[0]), archqual: opt_of(p[1]), architectures, version, profiles }
}
fn rels_of(s: &str) -> Relations {
    Relations(
        s.split('&')
            .skip(1)
            .map(|e| e.split('/').skip(1).map(rel_of).collect())
            .collect(),
    )
}

fn parse_rel(s: &str) -> String {
    let s = s.to_string();
    guard(move || match Relation::from_str(&s) {
        Ok(r) => rel_s(&r),
        Err(_) => "ERR".to_string(),
    })
}
fn parse_rels(s: &str) -> String {
    let s = s.to_string();
    guard(move || match Relations::from_str(&s) {
        Ok(r) => rels_s(&r),
        Err(_) => "ERR".to_string(),
    })
}

// ---------------------------------------------------------------- rel-lossy: value -> text -> value
/// fields = [relations value]
/// t    = hex of Relations::to_string()
/// rt   = Relations::from_str(t) (value | ERR | PANIC)
/// eq   = `Relations::from_str(t).unwrap() == value` with the crate's own `==` (1 | 0 | - | PANIC)
/// one  = for every relation r of the value, in order: Relation::from_str(r.to_string())
/// oneq = the same compared with `==`
pub fn rel_lossy(fs: &[&str]) -> String {
    let v = fs[0].to_string();
    let t = {
        let v = v.clone();
        guard(move || hex(&rels_of(&v).to_string()))
    };
    if t == "PANIC" {
        return "t=PANIC".to_string();
    }
    let text = unhex(&t);
    let rt = parse_rels(&text);
    let eq = {
        let v = v.clone();
        let text = text.clone();
        guard(move || match Relations::from_str(&text) {
            Ok(x) => b(x == rels_of(&v)).to_string(),
            Err(_) => "-".to_string(),
        })
    };
    let orig = rels_of(&v);
    let mut one = Vec::new();
    let mut oneq = Vec::new();
    for e in &orig.0 {
        for r in e {
            let r1 = r.clone();
            let txt = guard(move || hex(&r1.to_string()));
            if txt == "PANIC" {
                one.push("PANIC".to_string());
                oneq.push("PANIC".to_string());
                continue;
            }
            let txt = unhex(&txt);
            one.push(parse_rel(&txt));
            let r2 = r.clone();
            oneq.push(guard(move || match Relation::from_str(&txt) {
                Ok(x) => b(x == r2).to_string(),
                Err(_) => "-".to_string(),
            }));
        }
    }
    format!("t={}|rt={}|eq={}|one={}|oneq={}", t, rt, eq, one.join("&"), oneq.join(","))
}

// ---------------------------------------------------------------- rel-lossy-text: text -> value -> text -> value
/// fields = [hex input]
/// rel / rels   = Relation::from_str / Relations::from_str of the input
/// relp / relsp = hex of to_string() of what was read (- when nothing was read)
/// rel2 / rels2 = reading relp / relsp again
pub fn rel_lossy_text(fs: &[&str]) -> String {
    let s = unhex(fs[0]);
    let rel = parse_rel(&s);
    let rels = parse_rels(&s);
    let (relp, rel2) = if rel == "ERR" || rel == "PANIC" {
        ("-".to_string(), "-".to_string())
    } else {
        let s1 = s.clone();
        let p = guard(move || hex(&Relation::from_str(&s1).unwrap().to_string()));
        let again = if p == "PANIC" { "-".to_string() } else { parse_rel(&unhex(&p)) };
        (p, again)
    };
    let (relsp, rels2) = if rels == "ERR" || rels == "PANIC" {
        ("-".to_string(), "-".to_string())
    } else {
        let s1 = s.clone();
        let p = guard(move || hex(&Relations::from_str(&s1).unwrap().to_string()));
        let again = if p == "PANIC" { "-".to_string() } else { parse_rels(&unhex(&p)) };
        (p, again)
    };
    format!("rel={}|rels={}|relp={}|rel2={}|relsp={}|rels2={}", rel, rels, relp, rel2, relsp, rels2)
}

// ---------------------------------------------------------------- rel-lossy-conv: lossy <-> lossless
/// fields = [relations value]; for every relation r of the value, in order:
/// lossy = hex of r.to_string()
/// lt   = hex of lossless::Relation::from(r).to_string()
/// back = lossy::Relation::from(lossless::Relation::from(r))
/// ll   = lossy::Relation::from(lossless::Relation::from_str(r.to_string()))   (ERR when the lossless reader refuses)
/// and for every entry e: et = hex of lossless::Entry::from(e).to_string(), eb = Vec<lossy::Relation>::from(that),
/// el = Vec<lossy::Relation>::from(lossless::Entry::from_str(text of e));
/// for the whole value: ft = hex of lossless::Relations::from(Vec<Entry>) of the converted entries,
/// fb = its entries converted back, fl = the entries of lossless::Relations::from_str(text) converted
pub fn rel_lossy_conv(fs: &[&str]) -> String {
    let orig = rels_of(fs[0]);
    let (mut lt, mut back, mut ll, mut et, mut eb, mut el) = (vec![], vec![], vec![], vec![], vec![], vec![]);
    let mut lossy = vec![];
    for e in &orig.0 {
        for r in e {
            let r0 = r.clone();
            lossy.push(guard(move || hex(&r0.to_string())));
            let r1 = r.clone();
            lt.push(guard(move || hex(&LRelation::from(r1).to_string())));
            let r2 = r.clone();
            back.push(guard(move || rel_s(&Relation::from(LRelation::from(r2)))));
            let r3 = r.clone();
            ll.push(guard(move || match LRelation::from_str(&r3.to_string()) {
                Ok(x) => rel_s(&Relation::from(x)),
                Err(_) => "ERR".to_string(),
            }));
        }
        let e1 = e.clone();
        et.push(guard(move || hex(&LEntry::from(e1).to_string())));
        let e2 = e.clone();
        eb.push(guard(move || entry_s(&Vec::<Relation>::from(LEntry::from(e2)))));
        let e3 = e.clone();
        el.push(guard(move || {
            let text = e3.iter().map(|r| r.to_string()).collect::<Vec<_>>().join(" | ");
            match LEntry::from_str(&text) {
                Ok(x) => entry_s(&Vec::<Relation>::from(x)),
                Err(_) => "ERR".to_string(),
            }
        }));
    }
    let field = |o: &Relations| -> LRelations {
        LRelations::from(o.0.iter().map(|e| LEntry::from(e.clone())).collect::<Vec<LEntry>>())
    };
    let back_field = |l: &LRelations| -> String {
        rels_s(&Relations(l.entries().map(Vec::<Relation>::from).collect()))
    };
    let o1 = rels_of(fs[0]);
    let ft = guard(move || hex(&field(&o1).to_string()));
    let o2 = rels_of(fs[0]);
    let fb = guard(move || back_field(&field(&o2)));
    let o3 = rels_of(fs[0]);
    let fl = guard(move || match LRelations::from_str(&o3.to_string()) {
        Ok(x) => back_field(&x),
        Err(_) => "ERR".to_string(),
    });
    format!(
        "lossy={}|lt={}|back={}|ll={}|et={}|eb={}|el={}|ft={}|fb={}|fl={}",
        lossy.join(","),
        lt.join(","),
        back.join("&"),
        ll.join("&"),
        et.join(","),
        eb.join("&"),
        el.join("&"),
        ft,
        fb,
        fl
    )
}

// ---------------------------------------------------------------- debversion (modelled external)
/// fields = [hex input]; v = epoch:hex(upstream):opt(revision) | ERR ; p = hex of to_string();
/// again = 1 when reading p gives the same three fields again
pub fn debversion(fs: &[&str]) -> String {
    let s = unhex(fs[0]);
    guard(move || match Version::from_str(&s) {
        Ok(v) => {
            let p = v.to_string();
            let again = match Version::from_str(&p) {
                Ok(w) => b(ver_s(&w) == ver_s(&v)),
                Err(_) => "0",
            };
            format!("v={}|p={}|again={}", ver_s(&v), hex(&p), again)
        }
        Err(_) => "v=ERR|p=-|again=-".to_string(),
    })
}

pub fn streams() -> Vec<(&'static str, crate::StreamFn)> {
    vec![
        ("rel-lossy", rel_lossy as crate::StreamFn),
        ("rel-lossy-text", rel_lossy_text as crate::StreamFn),
        ("rel-lossy-conv", rel_lossy_conv as crate::StreamFn),
        ("debversion", debversion as crate::StreamFn),
        // the same functions under the names the pre-fix model (RelLossy.old_*) is compared with
        ("rel-lossy-oldnl", rel_lossy as crate::StreamFn),
        ("rel-lossy-text-oldnl", rel_lossy_text as crate::StreamFn),
        ("rel-lossy-old", rel_lossy as crate::StreamFn),
        ("rel-lossy-text-old", rel_lossy_text as crate::StreamFn),
    ]
}
