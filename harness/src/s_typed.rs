//! Stream of the C20 cone: the lossy typed documents (control file, copyright file, apt
//! Release/Source/Package stanza, removal record, buildinfo, DEP-3 header, APT sources list) read
//! from text, printed, read again and printed again, next to the lossless reader's view of the
//! same text.  "Printing" is Display/ToString where the type has one, otherwise
//! to_paragraph::<lossy::Paragraph>().to_string() (Release, Removal, Buildinfo).
use crate::util::*;
use deb822_lossless::{lossless, lossy, FromDeb822Paragraph, ToDeb822Paragraph};
use std::panic::{catch_unwind, AssertUnwindSafe};
use std::str::FromStr;

type Items = Vec<(String, String)>;

fn lossy_items(p: &lossy::Paragraph) -> Items {
    p.iter().map(|(k, v)| (k.to_string(), v.to_string())).collect()
}

fn sort_lines(v: &str) -> String {
    let mut ls: Vec<&str> = v.split('\n').collect();
    ls.sort();
    ls.join("\n")
}

/// fields whose value is held in a hash container: their lines come out in arbitrary order
const UNORDERED: &[&str] = &["Types", "Environment"];

fn items_s(it: &Items, unordered: bool) -> String {
    it.iter()
        .map(|(k, v)| {
            if unordered && UNORDERED.contains(&k.as_str()) {
                format!("{}={}", hex(k), hex(&sort_lines(v)))
            } else {
                format!("{}={}", hex(k), hex(v))
            }
        })
        .collect::<Vec<_>>()
        .join(",")
}

fn dump(paras: &[(char, Items)], unordered: bool) -> String {
    paras
        .iter()
        .map(|(r, it)| format!("{}:{}", r, items_s(it, unordered)))
        .collect::<Vec<_>>()
        .join(";")
}

fn multi_unordered(paras: &[(char, Items)], unordered: bool) -> bool {
    unordered
        && paras
            .iter()
            .any(|(_, it)| it.iter().any(|(k, v)| UNORDERED.contains(&k.as_str()) && v.trim_end_matches('\n').contains('\n')))
}

trait Doc: Sized {
    const UNORDERED: bool;
    fn parse(s: &str) -> Result<Self, String>;
    fn print(&self) -> String;
    fn paras(&self) -> Vec<(char, Items)>;
    /// derive(PartialEq) where the type has it
    fn equal(&self, _o: &Self) -> Option<bool> {
        None
    }
    /// how the text entry point reads the deb822 layer: 0 = lossless document, 1 = lossless first
    /// paragraph, 2 = lossy single paragraph
    const READER: u8;
}

fn para_of<T: ToDeb822Paragraph<lossy::Paragraph>>(t: &T) -> Items {
    let p: lossy::Paragraph = t.to_paragraph();
    lossy_items(&p)
}

// ------------------------------------------------------------------ the nine kinds
impl Doc for debian_control::lossy::Control {
    const UNORDERED: bool = false;
    const READER: u8 = 0;
    fn parse(s: &str) -> Result<Self, String> {
        Self::from_str(s)
    }
    fn print(&self) -> String {
        self.to_string()
    }
    fn paras(&self) -> Vec<(char, Items)> {
        let mut v = vec![('S', para_of(&self.source))];
        for b in &self.binaries {
            v.push(('B', para_of(b)));
        }
        v
    }
}

impl Doc for debian_copyright::lossy::Copyright {
    const UNORDERED: bool = false;
    const READER: u8 = 0;
    fn parse(s: &str) -> Result<Self, String> {
        Self::from_str(s)
    }
    fn print(&self) -> String {
        self.to_string()
    }
    fn paras(&self) -> Vec<(char, Items)> {
        let mut v = vec![('H', para_of(&self.header))];
        for f in &self.files {
            v.push(('F', para_of(f)));
        }
        for l in &self.licenses {
            v.push(('L', para_of(l)));
        }
        v
    }
    fn equal(&self, o: &Self) -> Option<bool> {
        Some(self == o)
    }
}

/// Release has only the derives: read like its siblings in the same file (lossy single paragraph)
struct ReleaseDoc(debian_control::lossy::apt::Release);
impl Doc for ReleaseDoc {
    const UNORDERED: bool = false;
    const READER: u8 = 2;
    fn parse(s: &str) -> Result<Self, String> {
        let para = s.parse::<lossy::Paragraph>().map_err(|e| e.to_string())?;
        Ok(ReleaseDoc(FromDeb822Paragraph::from_paragraph(&para)?))
    }
    fn print(&self) -> String {
        let p: lossy::Paragraph = self.0.to_paragraph();
        p.to_string()
    }
    fn paras(&self) -> Vec<(char, Items)> {
        vec![('P', para_of(&self.0))]
    }
    fn equal(&self, o: &Self) -> Option<bool> {
        Some(self.0 == o.0)
    }
}

impl Doc for debian_control::lossy::apt::Source {
    const UNORDERED: bool = false;
    const READER: u8 = 2;
    fn parse(s: &str) -> Result<Self, String> {
        Self::from_str(s)
    }
    fn print(&self) -> String {
        self.to_string()
    }
    fn paras(&self) -> Vec<(char, Items)> {
        vec![('P', para_of(self))]
    }
    fn equal(&self, o: &Self) -> Option<bool> {
        Some(self == o)
    }
}

impl Doc for debian_control::lossy::apt::Package {
    const UNORDERED: bool = false;
    const READER: u8 = 2;
    fn parse(s: &str) -> Result<Self, String> {
        Self::from_str(s)
    }
    fn print(&self) -> String {
        self.to_string()
    }
    fn paras(&self) -> Vec<(char, Items)> {
        vec![('P', para_of(self))]
    }
    fn equal(&self, o: &Self) -> Option<bool> {
        Some(self == o)
    }
}

impl Doc for debian_control::lossy::ftpmaster::Removal {
    const UNORDERED: bool = false;
    const READER: u8 = 1;
    fn parse(s: &str) -> Result<Self, String> {
        Self::from_str(s)
    }
    fn print(&self) -> String {
        let p: lossy::Paragraph = self.to_paragraph();
        p.to_string()
    }
    fn paras(&self) -> Vec<(char, Items)> {
        vec![('P', para_of(self))]
    }
}

impl Doc for debian_control::lossy::buildinfo::Buildinfo {
    const UNORDERED: bool = true;   // a hash container inside: the `ord` probe
    const READER: u8 = 1;
    fn parse(s: &str) -> Result<Self, String> {
        Self::from_str(s)
    }
    fn print(&self) -> String {
        let p: lossy::Paragraph = self.to_paragraph();
        p.to_string()
    }
    fn paras(&self) -> Vec<(char, Items)> {
        vec![('P', para_of(self))]
    }
}

impl Doc for dep3::lossy::PatchHeader {
    const UNORDERED: bool = false;
    const READER: u8 = 1;
    fn parse(s: &str) -> Result<Self, String> {
        Self::from_str(s)
    }
    fn print(&self) -> String {
        self.to_string()
    }
    fn paras(&self) -> Vec<(char, Items)> {
        vec![('P', para_of(self))]
    }
    fn equal(&self, o: &Self) -> Option<bool> {
        Some(self == o)
    }
}

impl Doc for apt_sources::Repositories {
    const UNORDERED: bool = true;
    const READER: u8 = 0;
    fn parse(s: &str) -> Result<Self, String> {
        Self::from_str(s)
    }
    fn print(&self) -> String {
        self.to_string()
    }
    fn paras(&self) -> Vec<(char, Items)> {
        self.iter().map(|r| ('R', para_of(r))).collect()
    }
    fn equal(&self, o: &Self) -> Option<bool> {
        let a: &Vec<apt_sources::Repository> = self;
        let b: &Vec<apt_sources::Repository> = o;
        Some(a == b)
    }
}

// ------------------------------------------------------------------ error classes
/// The property says "rejected with an error"; the class of the error is compared as well
/// (which structural rule, which field).  Syntax errors of the deb822 layer are recognised by
/// running that layer's reader on the same text, the derive macro's messages by their prefixes.
fn err_class(reader: u8, text: &str, msg: &str) -> String {
    if msg == "Not machine readable" {
        return "E:nmr".to_string();
    }
    match reader {
        2 => {
            if lossy::Paragraph::from_str(text).is_err() {
                return "E:syntax".to_string();
            }
        }
        _ => match lossless::Deb822::from_str(text) {
            Err(_) => return "E:syntax".to_string(),
            Ok(d) => {
                if reader == 1 && d.paragraphs().next().is_none() {
                    return "E:noparas".to_string();
                }
            }
        },
    }
    if let Some(k) = msg.strip_prefix("missing field: ") {
        return format!("E:missing:{}", hex(k));
    }
    if let Some(rest) = msg.strip_prefix("parsing field ") {
        if let Some((k, _)) = rest.split_once(": ") {
            return format!("E:field:{}", hex(k));
        }
    }
    match msg {
        "more than one source paragraph" => "E:manysource".to_string(),
        "no source paragraph" => "E:nosource".to_string(),
        "paragraph without Source or Package field" => "E:neither".to_string(),
        "Paragraph is neither License nor Files" => "E:neither".to_string(),
        "No paragraphs" => "E:noparas".to_string(),
        _ => format!("E:other:{}", hex(msg)),
    }
}

fn ll_view(text: &str) -> String {
    match lossless::Deb822::from_str(text) {
        Err(_) => "ERR".to_string(),
        Ok(d) => d
            .paragraphs()
            .map(|p| {
                let it: Items = p.items().collect();
                format!("[{}]", items_s(&it, false))
            })
            .collect::<Vec<_>>()
            .join(";"),
    }
}

/// the lossy deb822 layer's own view (kinds read through lossy::Paragraph::from_str)
fn ly_view(text: &str) -> String {
    match lossy::Paragraph::from_str(text) {
        Err(_) => "ERR".to_string(),
        Ok(p) => format!("[{}]", items_s(&lossy_items(&p), false)),
    }
}

fn text_s(paras: &[(char, Items)], unordered: bool, t: &str) -> String {
    if multi_unordered(paras, unordered) {
        "~".to_string()
    } else {
        hex(t)
    }
}

fn run<T: Doc>(text: &str) -> String {
    let mut ll = match catch_unwind(AssertUnwindSafe(|| ll_view(text))) {
        Ok(s) => s,
        Err(_) => "PANIC".to_string(),
    };
    if T::READER == 2 {
        let ly = match catch_unwind(AssertUnwindSafe(|| ly_view(text))) {
            Ok(s) => s,
            Err(_) => "PANIC".to_string(),
        };
        ll = format!("{}|ly={}", ll, ly);
    }
    let first = match catch_unwind(AssertUnwindSafe(|| T::parse(text))) {
        Ok(r) => r,
        Err(_) => return format!("p=PANIC|ll={}", ll),
    };
    let v = match first {
        Ok(v) => v,
        Err(e) => return format!("p={}|ll={}", err_class(T::READER, text, &e), ll),
    };
    let body = catch_unwind(AssertUnwindSafe(|| {
        let un = false;   // the tree prints hash containers sorted: records hold the real text
        let has_ord = T::UNORDERED;
        let p1 = v.paras();
        let t1 = v.print();
        let mut out = format!("p=OK|v={}|t={}", dump(&p1, un), text_s(&p1, un, &t1));
        match T::parse(&t1) {
            Err(e) => {
                out.push_str(&format!("|r={}", err_class(T::READER, &t1, &e)));
            }
            Ok(v2) => {
                let p2 = v2.paras();
                let t2 = v2.print();
                let eq = match v.equal(&v2) {
                    Some(b) => b,
                    None => dump(&p1, un) == dump(&p2, un),
                };
                // a hash container with several entries prints in an order that differs from one
                // instance to the next: compare the dumps there, and report the order separately
                let same = if multi_unordered(&p1, un) || multi_unordered(&p2, un) { dump(&p1, un) == dump(&p2, un) } else { t1 == t2 };
                out.push_str(&format!("|r=OK|v2={}|eq={}|t2={}|same={}", dump(&p2, un), b(eq), text_s(&p2, un, &t2), b(same)));
            }
        }
        if has_ord {
            // is the printed order a function of the value?  read the same text repeatedly
            let mut all = true;
            for _ in 0..24 {
                if let Ok(w) = T::parse(text) {
                    if w.print() != t1 {
                        all = false;
                    }
                }
            }
            out.push_str(&format!("|ord={}", b(all)));
        }
        out
    }));
    match body {
        Ok(s) => format!("{}|ll={}", s, ll),
        Err(_) => format!("p=OK|PANIC|ll={}", ll),
    }
}

/// fields: [kind; hex text; external codec table (model side only)]
pub fn typed_doc(fs: &[&str]) -> String {
    let text = unhex(fs[1]);
    match fs[0] {
        "control" => run::<debian_control::lossy::Control>(&text),
        "copyright" => run::<debian_copyright::lossy::Copyright>(&text),
        "release" => run::<ReleaseDoc>(&text),
        "aptsource" => run::<debian_control::lossy::apt::Source>(&text),
        "aptpackage" => run::<debian_control::lossy::apt::Package>(&text),
        "removal" => run::<debian_control::lossy::ftpmaster::Removal>(&text),
        "buildinfo" => run::<debian_control::lossy::buildinfo::Buildinfo>(&text),
        "dep3" => run::<dep3::lossy::PatchHeader>(&text),
        "repositories" => run::<apt_sources::Repositories>(&text),
        k => format!("UNKNOWN-KIND:{}", k),
    }
}

pub fn streams() -> Vec<(&'static str, crate::StreamFn)> {
    vec![
        ("typed-doc", typed_doc as crate::StreamFn),
        ("typed-doc-malformed", typed_doc as crate::StreamFn),
        ("typed-doc-small", typed_doc as crate::StreamFn),
    ]
}
