//! Streams `accessor` (C15): typed accessors of the lossless views, run through the dispatch that
//! translate/accessors.py generates into s_accessor_gen.rs, and `control-select`
//! (Control::source / binaries).  This file holds the hand-written part: building a typed view
//! from case text, the value <-> text embedding (the same as runner/s_accessor.ml), observation
//! of the paragraph through a second handle.
use crate::s_accessor_gen::{call, View};
use crate::util::*;
use deb822_lossless::Deb822;
use debian_control::fields::{Md5Checksum, Sha1Checksum, Sha256Checksum, Sha512Checksum};
use debian_control::lossless::changes::File;
use debian_copyright::License;
use dep3::{AppliedUpstream, Forwarded, Origin, OriginCategory};
use std::str::FromStr;

// ---------------------------------------------------------------- values -> text
pub trait ToV {
    fn to_v(&self) -> String;
}
fn s_(s: &str) -> String {
    format!("S{}", hex(s))
}
fn list_(l: &[String]) -> String {
    format!("L{}", l.iter().map(|s| format!(".{}", hex(s))).collect::<Vec<_>>().join(","))
}
impl ToV for String {
    fn to_v(&self) -> String {
        s_(self)
    }
}
impl ToV for bool {
    fn to_v(&self) -> String {
        format!("B{}", b(*self))
    }
}
impl ToV for usize {
    fn to_v(&self) -> String {
        format!("U{}", self)
    }
}
impl<T: ToV> ToV for Option<T> {
    fn to_v(&self) -> String {
        match self {
            None => "N".to_string(),
            Some(x) => format!("O{}", x.to_v()),
        }
    }
}
impl ToV for Vec<String> {
    fn to_v(&self) -> String {
        list_(self)
    }
}
macro_rules! display_v {
    ($($t:ty),*) => { $(impl ToV for $t { fn to_v(&self) -> String { s_(&self.to_string()) } })* };
}
display_v!(
    debian_control::fields::Priority,
    debian_control::fields::MultiArch,
    debian_control::fields::Urgency,
    debian_control::lossless::relations::Relations,
    debversion::Version,
    url::Url
);
impl ToV for chrono::DateTime<chrono::FixedOffset> {
    fn to_v(&self) -> String {
        s_(&self.to_rfc2822())
    }
}
impl ToV for chrono::NaiveDate {
    fn to_v(&self) -> String {
        s_(&self.format("%Y-%m-%d").to_string())
    }
}
pub enum Atom {
    S(String),
    N(usize),
}
pub trait Rec: Sized {
    fn atoms(&self) -> Vec<Atom>;
    fn from_atoms(a: Vec<Atom>) -> Self;
}
fn atom_s(a: &Atom) -> String {
    match a {
        Atom::S(s) => format!("s{}", hex(s)),
        Atom::N(n) => format!("n{}", n),
    }
}
fn recs_(l: Vec<Vec<Atom>>) -> String {
    format!("R{}", l.iter().map(|r| r.iter().map(atom_s).collect::<Vec<_>>().join(",")).collect::<Vec<_>>().join(";"))
}
macro_rules! triple {
    ($t:ty, $h:ident) => {
        impl Rec for $t {
            fn atoms(&self) -> Vec<Atom> {
                vec![Atom::S(self.$h.clone()), Atom::N(self.size), Atom::S(self.filename.clone())]
            }
            fn from_atoms(a: Vec<Atom>) -> Self {
                let mut it = a.into_iter();
                match (it.next(), it.next(), it.next()) {
                    (Some(Atom::S(h)), Some(Atom::N(n)), Some(Atom::S(f))) => Self { $h: h, size: n, filename: f },
                    _ => panic!("bad record"),
                }
            }
        }
    };
}
triple!(Md5Checksum, md5sum);
triple!(Sha1Checksum, sha1);
triple!(Sha256Checksum, sha256);
triple!(Sha512Checksum, sha512);
impl Rec for File {
    fn atoms(&self) -> Vec<Atom> {
        vec![
            Atom::S(self.md5sum.clone()),
            Atom::N(self.size),
            Atom::S(self.section.clone()),
            Atom::S(self.priority.to_string()),
            Atom::S(self.filename.clone()),
        ]
    }
    fn from_atoms(_a: Vec<Atom>) -> Self {
        panic!("no setter takes a File")
    }
}
impl<T: Rec> ToV for Vec<T> {
    fn to_v(&self) -> String {
        recs_(self.iter().map(|r| r.atoms()).collect())
    }
}
impl ToV for std::collections::HashMap<String, String> {
    fn to_v(&self) -> String {
        let mut kv: Vec<(&String, &String)> = self.iter().collect();
        kv.sort();
        recs_(kv.into_iter().map(|(k, v)| vec![Atom::S(k.clone()), Atom::S(v.clone())]).collect())
    }
}
impl ToV for (Option<OriginCategory>, Origin) {
    fn to_v(&self) -> String {
        let cat = match &self.0 {
            Some(c) => c.to_string(),
            None => "-".to_string(),
        };
        let (tag, s) = match &self.1 {
            Origin::Commit(s) => ("Commit", s.clone()),
            Origin::Other(s) => ("Other", s.clone()),
        };
        list_(&[cat, tag.to_string(), s])
    }
}
impl ToV for Forwarded {
    fn to_v(&self) -> String {
        match self {
            Forwarded::No => list_(&["No".to_string()]),
            Forwarded::NotNeeded => list_(&["NotNeeded".to_string()]),
            Forwarded::Yes(s) => list_(&["Yes".to_string(), s.clone()]),
        }
    }
}
impl ToV for AppliedUpstream {
    fn to_v(&self) -> String {
        match self {
            AppliedUpstream::Commit(s) => list_(&["Commit".to_string(), s.clone()]),
            AppliedUpstream::Other(s) => list_(&["Other".to_string(), s.clone()]),
        }
    }
}
impl ToV for License {
    fn to_v(&self) -> String {
        match self {
            License::Name(n) => list_(&["Name".to_string(), n.clone()]),
            License::Text(t) => list_(&["Text".to_string(), t.clone()]),
            License::Named(n, t) => list_(&["Named".to_string(), n.clone(), t.clone()]),
        }
    }
}
fn opt_tag(o: &Option<String>) -> String {
    match o {
        Some(s) => format!("+{}", s),
        None => "-".to_string(),
    }
}
impl ToV for debian_control::vcs::Vcs {
    fn to_v(&self) -> String {
        use debian_control::vcs::Vcs::*;
        match self {
            Git { repo_url, branch, subpath } => list_(&["Git".to_string(), repo_url.clone(), opt_tag(branch), opt_tag(subpath)]),
            Bzr { repo_url, subpath } => list_(&["Bzr".to_string(), repo_url.clone(), opt_tag(subpath)]),
            Hg { repo_url } => list_(&["Hg".to_string(), repo_url.clone()]),
            Svn { url } => list_(&["Svn".to_string(), url.clone()]),
            Cvs { root, module } => list_(&["Cvs".to_string(), root.clone(), opt_tag(module)]),
        }
    }
}
/// PatchHeader::bugs
impl ToV for Vec<(Option<String>, String)> {
    fn to_v(&self) -> String {
        recs_(
            self.iter()
                .map(|(v, u)| match v {
                    Some(v) => vec![Atom::S(v.clone()), Atom::N(1), Atom::S(u.clone())],
                    None => vec![Atom::S("-".to_string()), Atom::N(0), Atom::S(u.clone())],
                })
                .collect(),
        )
    }
}

// ---------------------------------------------------------------- text -> values
pub fn v_str(v: &str) -> String {
    unhex(v.strip_prefix('S').expect("string value"))
}
pub fn v_opt(v: &str) -> Option<&str> {
    if v == "N" {
        None
    } else {
        Some(v.strip_prefix('O').expect("option value"))
    }
}
pub fn v_bool(v: &str) -> bool {
    v == "B1"
}
pub fn v_num(v: &str) -> usize {
    v.strip_prefix('U').expect("number value").parse().unwrap()
}
pub fn v_list(v: &str) -> Vec<String> {
    let body = v.strip_prefix('L').expect("list value");
    if body.is_empty() {
        return vec![];
    }
    body.split(',').map(|x| unhex(x.strip_prefix('.').unwrap())).collect()
}
fn v_atoms(v: &str) -> Vec<Vec<Atom>> {
    let body = v.strip_prefix('R').expect("records value");
    if body.is_empty() {
        return vec![];
    }
    body.split(';')
        .map(|r| {
            r.split(',')
                .map(|a| {
                    if let Some(h) = a.strip_prefix('s') {
                        Atom::S(unhex(h))
                    } else {
                        Atom::N(a.strip_prefix('n').unwrap().parse().unwrap())
                    }
                })
                .collect()
        })
        .collect()
}
pub fn v_recs<T: Rec>(v: &str) -> Vec<T> {
    v_atoms(v).into_iter().map(T::from_atoms).collect()
}
pub fn v_map(v: &str) -> std::collections::HashMap<String, String> {
    v_atoms(v)
        .into_iter()
        .map(|r| {
            let mut it = r.into_iter();
            match (it.next(), it.next()) {
                (Some(Atom::S(k)), Some(Atom::S(x))) => (k, x),
                _ => panic!("bad pair"),
            }
        })
        .collect()
}
pub fn v_forwarded(v: &str) -> Forwarded {
    let l = v_list(v);
    match l[0].as_str() {
        "No" => Forwarded::No,
        "NotNeeded" => Forwarded::NotNeeded,
        "Yes" => Forwarded::Yes(l[1].clone()),
        _ => panic!("bad Forwarded"),
    }
}
pub fn v_applied(v: &str) -> AppliedUpstream {
    let l = v_list(v);
    match l[0].as_str() {
        "Commit" => AppliedUpstream::Commit(l[1].clone()),
        "Other" => AppliedUpstream::Other(l[1].clone()),
        _ => panic!("bad AppliedUpstream"),
    }
}
pub fn v_license(v: &str) -> License {
    let l = v_list(v);
    match l[0].as_str() {
        "Name" => License::Name(l[1].clone()),
        "Text" => License::Text(l[1].clone()),
        "Named" => License::Named(l[1].clone(), l[2].clone()),
        _ => panic!("bad License"),
    }
}
pub fn v_origin(v: &str) -> (Option<OriginCategory>, Origin) {
    let l = v_list(v);
    let cat = if l[0] == "-" { None } else { Some(l[0].parse::<OriginCategory>().unwrap()) };
    let o = match l[1].as_str() {
        "Commit" => Origin::Commit(l[2].clone()),
        "Other" => Origin::Other(l[2].clone()),
        _ => panic!("bad Origin"),
    };
    (cat, o)
}

// ---------------------------------------------------------------- building a typed view
pub struct Obj {
    pub view: View,
    kind: String,
    idx: usize,
    d: Option<Deb822>,
    c: Option<debian_copyright::lossless::Copyright>,
}

fn ctor_of(ty: &str) -> Option<&'static str> {
    crate::s_accessor_gen::TYPES.iter().find(|(t, _)| *t == ty).map(|(_, k)| *k)
}

/// Err("NOPARSE") = the text is not accepted by the reader the type is built with;
/// Err("NOOBJ") = accepted, but there is no such paragraph
fn make(ty: &str, text: &str, pidx: usize) -> Result<Obj, &'static str> {
    use debian_control::lossless::{apt, buildinfo, changes, control};
    let kind = ctor_of(ty).ok_or("NOTYPE")?;
    let mut o = Obj { view: View::Dep3Patchheader(dep3::lossless::PatchHeader::new()), kind: kind.to_string(), idx: pidx, d: None, c: None };
    match kind {
        "from_para" | "new_para" => {
            let d = Deb822::from_str(text).map_err(|_| "NOPARSE")?;
            let p = d.paragraphs().nth(pidx).ok_or("NOOBJ")?;
            o.view = match ty {
                "control::Source" => View::ControlSource(control::Source::from(p)),
                "control::Binary" => View::ControlBinary(control::Binary::from(p)),
                "apt::Source" => View::AptSource(apt::Source::from(p)),
                "apt::Package" => View::AptPackage(apt::Package::new(p)),
                "apt::Release" => View::AptRelease(apt::Release::new(p)),
                "buildinfo::Buildinfo" => View::BuildinfoBuildinfo(buildinfo::Buildinfo::from(p)),
                _ => return Err("NOTYPE"),
            };
            o.d = Some(d);
        }
        "changes" => {
            // Changes::read: strict reader, exactly one paragraph
            o.view = View::ChangesChanges(changes::Changes::read(text.as_bytes()).map_err(|e| match e {
                changes::ParseError::Deb822(_) => "NOPARSE",
                _ => "NOOBJ",
            })?);
        }
        "cr_header" | "cr_files" | "cr_license" => {
            let c = debian_copyright::lossless::Copyright::from_str(text).map_err(|_| "NOPARSE")?;
            o.view = match kind {
                "cr_header" => View::CopyrightHeader(c.header().ok_or("NOOBJ")?),
                "cr_files" => View::CopyrightFilesparagraph(c.iter_files().next().ok_or("NOOBJ")?),
                _ => View::CopyrightLicenseparagraph(c.iter_licenses().next().ok_or("NOOBJ")?),
            };
            o.c = Some(c);
        }
        "dep3" => {
            o.view = View::Dep3Patchheader(dep3::lossless::PatchHeader::from_str(text).map_err(|_| "NOPARSE")?);
        }
        _ => return Err("NOTYPE"),
    }
    Ok(o)
}

fn items_hex(it: impl Iterator<Item = (String, String)>) -> String {
    it.map(|(k, v)| format!("{}={}", hex(&k), hex(&v))).collect::<Vec<_>>().join(",")
}

impl Obj {
    /// items() of the paragraph, through a handle other than the typed view's own one
    fn live(&self) -> String {
        match (&self.d, &self.view) {
            (Some(d), _) => d.paragraphs().nth(self.idx).map(|p| items_hex(p.items())).unwrap_or_else(|| "GONE".to_string()),
            (None, View::CopyrightHeader(h)) => items_hex(h.as_deb822().items()),
            (None, View::Dep3Patchheader(h)) => items_hex(h.as_deb822().items()),
            _ => "-".to_string(),
        }
    }
    /// the printed text: of the document when the harness holds it, of the paragraph for dep3
    fn text(&self) -> Option<String> {
        match (&self.d, &self.c, &self.view) {
            (Some(d), _, _) => Some(d.to_string()),
            (_, Some(c), _) => Some(c.to_string()),
            (_, _, View::Dep3Patchheader(h)) => Some(h.to_string()),
            _ => None,
        }
    }
}

fn reread(text: &str) -> String {
    match Deb822::from_str(text) {
        Ok(d) => format!("OK:{}", d.paragraphs().map(|p| format!("[{}]", items_hex(p.items()))).collect::<Vec<_>>().join("")),
        Err(_) => "ERR".to_string(),
    }
}

/// fields: ty, hex text, paragraph index, ops...;  op = G~method~arghex | S~method~arghex~value | R
pub fn accessor(fs: &[&str]) -> String {
    let ty = fs[0].to_string();
    let text = unhex(fs[1]);
    let pidx: usize = fs[2].parse().unwrap();
    let ops: Vec<String> = fs[3..].iter().map(|s| s.to_string()).collect();
    guard(move || {
        let mut o = match make(&ty, &text, pidx) {
            Ok(o) => o,
            Err(e) => return e.to_string(),
        };
        let mut outs = vec![];
        let mut dead = false;
        for op in &ops {
            let parts: Vec<&str> = op.split('~').collect();
            if dead {
                outs.push("-".to_string());
                continue;
            }
            match parts[0] {
                "G" => outs.push(call(&mut o.view, parts[1], &unhex(parts[2]), "").unwrap_or_else(|| "NOROW".to_string())),
                "S" => outs.push(match call(&mut o.view, parts[1], &unhex(parts[2]), parts[3]) {
                    Some(s) if s.is_empty() => "ok".to_string(),
                    Some(s) => s,
                    None => "NOROW".to_string(),
                }),
                "R" => match o.text() {
                    None => outs.push("-".to_string()),
                    Some(t) => match make(&ty, &t, pidx) {
                        Ok(n) => {
                            o = n;
                            outs.push("reread".to_string());
                        }
                        Err(e) => {
                            outs.push(e.to_string());
                            dead = true;
                        }
                    },
                },
                "E" => outs.push("-".to_string()),
                _ => panic!("bad op"),
            }
        }
        let (text, rr) = match o.text() {
            Some(t) => (hex(&t), reread(&t)),
            None => ("-".to_string(), "-".to_string()),
        };
        format!("ops={}|live={}|text={}|rr={}", outs.join("/"), if dead { "-".to_string() } else { o.live() }, text, rr)
    })
}

/// fields: hex text.  Control::source() / binaries(): which paragraphs they are (found by writing a
/// marker field through the returned handle and looking where it shows up), and name().
pub fn control_select(fs: &[&str]) -> String {
    let text = unhex(fs[0]);
    guard(move || {
        let c = match debian_control::lossless::control::Control::from_str(&text) {
            Ok(c) => c,
            Err(_) => return "NOPARSE".to_string(),
        };
        let marker = "X-Verif-Marker";
        let src = match c.source() {
            None => "-".to_string(),
            Some(mut s) => {
                let name = s.name();
                s.as_mut_deb822().set(marker, "s");
                let pos = c.as_deb822().paragraphs().position(|p| p.get(marker).as_deref() == Some("s"));
                s.as_mut_deb822().remove(marker);
                format!("{}:{}", pos.map(|p| p.to_string()).unwrap_or_else(|| "?".to_string()), name.to_v())
            }
        };
        let mut bins = vec![];
        for (i, mut bp) in c.binaries().enumerate() {
            let name = bp.name();
            let tag = format!("b{}", i);
            bp.as_mut_deb822().set(marker, &tag);
            let pos = c.as_deb822().paragraphs().position(|p| p.get(marker).as_deref() == Some(tag.as_str()));
            bp.as_mut_deb822().remove(marker);
            bins.push(format!("{}:{}", pos.map(|p| p.to_string()).unwrap_or_else(|| "?".to_string()), name.to_v()));
        }
        format!("n={}|source={}|binaries={}", c.as_deb822().paragraphs().count(), src, bins.join(","))
    })
}

/// the (type, method, role) rows the generated dispatch knows: compared with the Coq table
pub fn accessor_table(_fs: &[&str]) -> String {
    crate::s_accessor_gen::METHODS.iter().map(|(t, m, r)| format!("{}.{}.{}", t, m, r)).collect::<Vec<_>>().join(",")
}

pub fn streams() -> Vec<(&'static str, crate::StreamFn)> {
    vec![
        ("accessor", accessor as crate::StreamFn),
        ("accessor-any", accessor as crate::StreamFn),
        ("control-select", control_select as crate::StreamFn),
        ("accessor-table", accessor_table as crate::StreamFn),
    ]
}
