//! Streams of the C16 cone: the real expansion of #[derive(FromDeb822, ToDeb822)] on every deriving
//! struct of the workspace, at both paragraph back-ends.  The per-struct dispatch lives in the
//! generated file s_derive_gen.rs (translate/structs.py).
use crate::util::*;
use deb822_lossless::{lossless, lossy, FromDeb822Paragraph, ToDeb822Paragraph};
use std::panic::{catch_unwind, AssertUnwindSafe};
use std::str::FromStr;

pub struct Spec {
    pub keys: &'static [&'static str],
    pub unordered: &'static [&'static str],
}

fn parse_items(enc: &str) -> Vec<(String, String)> {
    if enc == "-" || enc.is_empty() {
        return vec![];
    }
    enc.split(',')
        .map(|f| {
            let (k, v) = f.split_once('=').unwrap();
            (unhex(k), unhex(v))
        })
        .collect()
}

fn sort_lines(v: &str) -> String {
    let mut ls: Vec<&str> = v.split('\n').collect();
    ls.sort();
    ls.join("\n")
}

fn items_s(spec: &Spec, it: &[(String, String)]) -> String {
    it.iter()
        .map(|(k, v)| {
            if spec.unordered.contains(&k.as_str()) {
                format!("{}={}", hex(k), hex(&sort_lines(v)))
            } else {
                format!("{}={}", hex(k), hex(v))
            }
        })
        .collect::<Vec<_>>()
        .join(",")
}
fn multi_unordered(spec: &Spec, it: &[(String, String)]) -> bool {
    it.iter().any(|(k, v)| spec.unordered.contains(&k.as_str()) && v.contains('\n'))
}
fn text_s(spec: &Spec, it: &[(String, String)], t: &str) -> String {
    if multi_unordered(spec, it) {
        "~".to_string()
    } else {
        hex(t)
    }
}
fn lossy_items(p: &lossy::Paragraph) -> Vec<(String, String)> {
    p.iter().map(|(k, v)| (k.to_string(), v.to_string())).collect()
}
fn ll_items(p: &lossless::Paragraph) -> Vec<(String, String)> {
    p.items().collect()
}

/// the property is about the message: classify it by the prefixes the macro writes
fn err_s(spec: &Spec, msg: &str) -> String {
    let mut keys: Vec<&str> = spec.keys.to_vec();
    keys.sort_by_key(|k| std::cmp::Reverse(k.len()));
    for k in &keys {
        if msg == format!("missing field: {}", k) {
            return format!("E:missing:{}", hex(k));
        }
    }
    for k in &keys {
        if msg.starts_with(&format!("parsing field {}: ", k)) {
            return format!("E:parse:{}", hex(k));
        }
    }
    format!("E:other:{}", hex(msg))
}

fn g<F: FnOnce() -> String>(f: F) -> String {
    match catch_unwind(AssertUnwindSafe(f)) {
        Ok(s) => s,
        Err(_) => "PANIC".to_string(),
    }
}

fn same<T>(spec: &Spec, eq: Option<fn(&T, &T) -> bool>, a: &T, b: &T) -> bool
where
    T: ToDeb822Paragraph<lossy::Paragraph>,
{
    match eq {
        Some(f) => f(a, b),
        // no PartialEq on the struct: compare what the two values print to
        None => items_s(spec, &lossy_items(&a.to_paragraph())) == items_s(spec, &lossy_items(&b.to_paragraph())),
    }
}

pub fn run_full<T>(fs: &[&str], spec: &Spec, eq: Option<fn(&T, &T) -> bool>, clear: fn(&mut T, &str) -> bool) -> String
where
    T: FromDeb822Paragraph<lossy::Paragraph>
        + FromDeb822Paragraph<lossless::Paragraph>
        + ToDeb822Paragraph<lossy::Paragraph>
        + ToDeb822Paragraph<lossless::Paragraph>,
{
    let src = parse_items(fs[1]);
    let prior = fs[2];
    let src_l: lossy::Paragraph = src.clone().into_iter().collect();
    let from_l: Result<T, String> = match catch_unwind(AssertUnwindSafe(|| T::from_paragraph(&src_l))) {
        Ok(r) => r,
        Err(_) => return "PANIC".to_string(),
    };
    let src2 = src.clone();
    let from_ll = g(|| {
        let p: lossless::Paragraph = src2.into_iter().collect();
        match <T as FromDeb822Paragraph<lossless::Paragraph>>::from_paragraph(&p) {
            Ok(_) => "OK".to_string(),
            Err(e) => err_s(spec, &e),
        }
    });
    let head = format!(
        "from={}|fromll={}",
        match &from_l {
            Ok(_) => "OK".to_string(),
            Err(e) => err_s(spec, e),
        },
        from_ll
    );
    let mut v = match from_l {
        Ok(v) => v,
        Err(_) => return head,
    };
    // case field 5: keys of list fields to empty (a value from_paragraph itself cannot produce for every codec)
    if fs.len() > 5 && fs[5] != "-" && !fs[5].is_empty() {
        for k in fs[5].split(',') {
            if !clear(&mut v, &unhex(k)) {
                return format!("{}|clr=UNSUPPORTED", head);
            }
        }
    }
    body(head, &v, prior, spec, true, &|a: &T, b: &T| same(spec, eq, a, b))
}

pub fn run_to_only<T>(fs: &[&str], spec: &Spec, build: fn(&dyn Fn(&str) -> Option<String>) -> Result<T, String>) -> String
where
    T: ToDeb822Paragraph<lossy::Paragraph> + ToDeb822Paragraph<lossless::Paragraph>,
{
    let src = parse_items(fs[1]);
    let prior = fs[2];
    let src_l: lossy::Paragraph = src.into_iter().collect();
    let get = |k: &str| src_l.get(k).map(|s| s.to_string());
    let v = match build(&get) {
        Ok(v) => v,
        Err(e) => return format!("from={}|fromll=-", err_s(spec, &e)),
    };
    body_to::<T>("from=OK|fromll=-".to_string(), &v, prior, spec)
}

fn rt_s<T>(spec: &Spec, r: Result<T, String>, v: &T, same: &dyn Fn(&T, &T) -> bool) -> String {
    match r {
        Ok(v2) => b(same(v, &v2)).to_string(),
        Err(e) => err_s(spec, &e),
    }
}

fn body<T>(head: String, v: &T, prior: &str, spec: &Spec, _from: bool, same: &dyn Fn(&T, &T) -> bool) -> String
where
    T: FromDeb822Paragraph<lossy::Paragraph>
        + FromDeb822Paragraph<lossless::Paragraph>
        + ToDeb822Paragraph<lossy::Paragraph>
        + ToDeb822Paragraph<lossless::Paragraph>,
{
    let pl: lossy::Paragraph = match catch_unwind(AssertUnwindSafe(|| v.to_paragraph())) {
        Ok(p) => p,
        Err(_) => return format!("{}|to=PANIC", head),
    };
    let pt: lossless::Paragraph = match catch_unwind(AssertUnwindSafe(|| v.to_paragraph())) {
        Ok(p) => p,
        Err(_) => return format!("{}|toll=PANIC", head),
    };
    let to_items = lossy_items(&pl);
    let part_to = format!(
        "to={}|totext={}|toll={}|tolltext={}",
        items_s(spec, &to_items),
        text_s(spec, &to_items, &pl.to_string()),
        items_s(spec, &ll_items(&pt)),
        text_s(spec, &to_items, &pt.to_string())
    );
    let part_rt = format!(
        "|rt={}|rtll={}",
        g(|| rt_s(spec, <T as FromDeb822Paragraph<lossy::Paragraph>>::from_paragraph(&pl), v, same)),
        g(|| rt_s(spec, <T as FromDeb822Paragraph<lossless::Paragraph>>::from_paragraph(&pt), v, same))
    );
    let mut part_upd = String::new();
    if prior != "-" {
        let ptext = unhex(prior);
        part_upd.push_str(&g(|| match lossy::Paragraph::from_str(&ptext) {
            Ok(mut p) => {
                let p0 = items_s(spec, &lossy_items(&p));
                v.update_paragraph(&mut p);
                format!(
                    "|prior={}|upd={}|updtext={}|updrt={}",
                    p0,
                    items_s(spec, &lossy_items(&p)),
                    text_s(spec, &to_items, &p.to_string()),
                    rt_s(spec, <T as FromDeb822Paragraph<lossy::Paragraph>>::from_paragraph(&p), v, same)
                )
            }
            Err(_) => "|prior=ERR".to_string(),
        }));
        part_upd.push_str(&g(|| match lossless::Paragraph::from_str(&ptext) {
            Ok(mut p) => {
                let p0 = items_s(spec, &ll_items(&p));
                let t0 = hex(&p.to_string());
                v.update_paragraph(&mut p);
                format!(
                    "|priorll={}|priorlltext={}|updll={}|updlltext={}|updllrt={}",
                    p0,
                    t0,
                    items_s(spec, &ll_items(&p)),
                    text_s(spec, &to_items, &p.to_string()),
                    rt_s(spec, <T as FromDeb822Paragraph<lossless::Paragraph>>::from_paragraph(&p), v, same)
                )
            }
            Err(_) => "|priorll=ERR".to_string(),
        }));
    }
    format!("{}|{}{}{}", head, part_to, part_rt, part_upd)
}

fn body_to<T>(head: String, v: &T, prior: &str, spec: &Spec) -> String
where
    T: ToDeb822Paragraph<lossy::Paragraph> + ToDeb822Paragraph<lossless::Paragraph>,
{
    let pl: lossy::Paragraph = match catch_unwind(AssertUnwindSafe(|| v.to_paragraph())) {
        Ok(p) => p,
        Err(_) => return format!("{}|to=PANIC", head),
    };
    let pt: lossless::Paragraph = match catch_unwind(AssertUnwindSafe(|| v.to_paragraph())) {
        Ok(p) => p,
        Err(_) => return format!("{}|toll=PANIC", head),
    };
    let to_items = lossy_items(&pl);
    let part_to = format!(
        "to={}|totext={}|toll={}|tolltext={}",
        items_s(spec, &to_items),
        text_s(spec, &to_items, &pl.to_string()),
        items_s(spec, &ll_items(&pt)),
        text_s(spec, &to_items, &pt.to_string())
    );
    let mut part_upd = String::new();
    if prior != "-" {
        let ptext = unhex(prior);
        part_upd.push_str(&g(|| match lossy::Paragraph::from_str(&ptext) {
            Ok(mut p) => {
                let p0 = items_s(spec, &lossy_items(&p));
                v.update_paragraph(&mut p);
                format!("|prior={}|upd={}|updtext={}", p0, items_s(spec, &lossy_items(&p)), text_s(spec, &to_items, &p.to_string()))
            }
            Err(_) => "|prior=ERR".to_string(),
        }));
        part_upd.push_str(&g(|| match lossless::Paragraph::from_str(&ptext) {
            Ok(mut p) => {
                let p0 = items_s(spec, &ll_items(&p));
                let t0 = hex(&p.to_string());
                v.update_paragraph(&mut p);
                format!("|priorll={}|priorlltext={}|updll={}|updlltext={}", p0, t0, items_s(spec, &ll_items(&p)), text_s(spec, &to_items, &p.to_string()))
            }
            Err(_) => "|priorll=ERR".to_string(),
        }));
    }
    format!("{}|{}{}", head, part_to, part_upd)
}

pub fn derive(fs: &[&str]) -> String {
    crate::s_derive_gen::dispatch(fs[0], fs)
}

/// the std conversions the modelled codecs are built from
pub fn derive_codec(fs: &[&str]) -> String {
    let s = unhex(fs[1]);
    fn num<T: FromStr + ToString>(s: &str) -> String {
        match s.parse::<T>() {
            Ok(n) => format!("OK:{}", hex(&n.to_string())),
            Err(_) => "ERR".to_string(),
        }
    }
    fn list(l: Vec<String>) -> String {
        format!("OK:{}", l.iter().map(|x| hex(x)).collect::<Vec<_>>().join(","))
    }
    match fs[0] {
        "u8" => num::<u8>(&s),
        "u16" => num::<u16>(&s),
        "u32" => num::<u32>(&s),
        "u64" => format!("{}", { let a = num::<u64>(&s); let b = num::<usize>(&s); if a == b { a } else { "USIZE-DIFFERS".to_string() } }),
        "i32" => num::<i32>(&s),
        "i64" => num::<i64>(&s),
        "ws" => list(s.split_whitespace().map(|x| x.to_string()).collect()),
        "nl" => list(s.split('\n').map(|x| x.to_string()).collect()),
        "lines" => list(s.lines().map(|x| x.to_string()).collect()),
        c => format!("UNKNOWN-CODEC:{}", c),
    }
}

pub fn streams() -> Vec<(&'static str, crate::StreamFn)> {
    vec![
        ("derive", derive as crate::StreamFn),
        ("derive-malformed", derive as crate::StreamFn),
        ("derive-codec", derive_codec as crate::StreamFn),
    ]
}
