//! Streams about debian-copyright (C17): DEP-5 globs, Files/License lookup, Format gate.
//!
//! `glob`      fields = [hex pattern-field, hex path, hex path, ...]
//!             record = m=<one char per path: 0 | 1 | P(anic)>
//!             The crate's `glob` module is private; it is observed through the lossy
//!             `FilesParagraph::matches` of a paragraph built from a programmatic
//!             `deb822_lossless::lossy::Paragraph` (so the Files value is arbitrary text).
//! `copyright` fields = [hex text, k, hex path * k, hex licence name * ]
//!             record = ll=..|rx=..|lf=..|ls=..|lq=..|ln=..|ly=..|yc=..|yq=..|yn=..   (see docs/cones/C17.md)
use crate::util::*;
use deb822_lossless::FromDeb822Paragraph;
use debian_copyright::License;
use std::path::Path;
use std::str::FromStr;

/// A path field is hex-encoded UTF-8, or "!" + hex of raw bytes + ":" + hex of the lossy conversion
/// (a path that is not valid UTF-8; the part after the colon is for the model only).
fn path_of(field: &str) -> std::path::PathBuf {
    if let Some(h) = field.strip_prefix('!') {
        let h = h.split(':').next().unwrap();
        use std::os::unix::ffi::OsStrExt;
        let bytes: Vec<u8> = (0..h.len() / 2).map(|i| u8::from_str_radix(&h[2 * i..2 * i + 2], 16).unwrap()).collect();
        std::path::PathBuf::from(std::ffi::OsStr::from_bytes(&bytes))
    } else {
        std::path::PathBuf::from(unhex(field))
    }
}

fn lic_s(l: &License) -> String {
    match l {
        License::Name(n) => format!("N:{}", hex(n)),
        License::Text(t) => format!("T:{}", hex(t)),
        License::Named(n, t) => format!("M:{}:{}", hex(n), hex(t)),
    }
}
fn opt_lic_s(l: Option<&License>) -> String {
    match l {
        None => "-".to_string(),
        Some(l) => lic_s(l),
    }
}
fn opt_s(o: Option<String>) -> String {
    opt_hex(o.as_deref())
}

pub fn glob(fs: &[&str]) -> String {
    let pat = unhex(fs[0]);
    let para = deb822_lossless::lossy::Paragraph {
        fields: vec![
            deb822_lossless::lossy::Field { name: "Files".to_string(), value: pat },
            deb822_lossless::lossy::Field { name: "Copyright".to_string(), value: "c".to_string() },
            deb822_lossless::lossy::Field { name: "License".to_string(), value: "l".to_string() },
        ],
    };
    let fp = match debian_copyright::lossy::FilesParagraph::from_paragraph(&para) {
        Ok(fp) => fp,
        Err(_) => return "ERR".to_string(),
    };
    let mut out = String::from("m=");
    for p in &fs[1..] {
        let path = path_of(p);
        let fp2 = fp.clone();
        let r = guard(move || b(fp2.matches(&path)).to_string());
        out.push_str(if r == "PANIC" { "P" } else { &r });
    }
    out
}

fn ll_fp_s(p: &debian_copyright::lossless::FilesParagraph) -> String {
    let files = p.files().iter().map(|f| hex(f)).collect::<Vec<_>>().join(".");
    format!("{}~{}~{}", files, opt_lic_s(p.license().as_ref()), opt_s(p.comment()))
}

pub fn copyright(fs: &[&str]) -> String {
    let text = unhex(fs[0]);
    let k: usize = fs[1].parse().unwrap();
    let paths: Vec<std::path::PathBuf> = fs[2..2 + k].iter().map(|p| path_of(p)).collect();
    let names: Vec<String> = fs[2 + k..].iter().map(|p| unhex(p)).collect();

    // ---- lossless reader
    let t1 = text.clone();
    let rx = guard(move || match debian_copyright::lossless::Copyright::from_str_relaxed(&t1) {
        Ok((_, errs)) => format!("{}", errs.len()),
        Err(debian_copyright::lossless::Error::NotMachineReadable) => "ERR:nmr".to_string(),
        Err(_) => "ERR".to_string(),
    });
    let t2 = text.clone();
    let (paths2, names2) = (paths.clone(), names.clone());
    let ll = guard(move || match debian_copyright::lossless::Copyright::from_str(&t2) {
        Err(debian_copyright::lossless::Error::NotMachineReadable) => "ll=ERR:nmr|lf=|ls=|lq=|ln=".to_string(),
        Err(_) => "ll=ERR|lf=|ls=|lq=|ln=".to_string(),
        Ok(c) => {
            let c = std::panic::AssertUnwindSafe(c);
            let lf = guard(|| c.iter_files().map(|p| ll_fp_s(&p)).collect::<Vec<_>>().join(","));
            let ls = guard(|| {
                c.iter_licenses()
                    .map(|p| {
                        let n = opt_s(p.name());
                        let t = opt_s(p.text());
                        let l: License = p.into();
                        format!("{}~{}~{}", n, t, lic_s(&l))
                    })
                    .collect::<Vec<_>>()
                    .join(",")
            });
            let mut lq = Vec::new();
            for path in &paths2 {
                let path: &Path = path.as_path();
                let mut bits = String::new();
                let n = c.iter_files().count();
                for i in 0..n {
                    let r = guard(|| b(c.iter_files().nth(i).unwrap().matches(path)).to_string());
                    bits.push_str(if r == "PANIC" { "P" } else { &r });
                }
                let ff = guard(|| match c.find_files(path) {
                    None => "-".to_string(),
                    Some(p) => ll_fp_s(&p),
                });
                let fl = guard(|| opt_lic_s(c.find_license_for_file(path).as_ref()));
                lq.push(format!("{}/{}/{}", bits, if ff == "PANIC" { "P" } else { &ff }, if fl == "PANIC" { "P" } else { &fl }));
            }
            let ln = names2
                .iter()
                .map(|n| guard(|| opt_lic_s(c.find_license_by_name(n).as_ref())))
                .collect::<Vec<_>>()
                .join(";");
            format!("ll=OK|lf={}|ls={}|lq={}|ln={}", lf, ls, lq.join(";"), ln)
        }
    });
    let ll = if ll == "PANIC" { "ll=PANIC|lf=|ls=|lq=|ln=".to_string() } else { ll };

    // ---- lossy reader
    let t3 = text.clone();
    let ly = guard(move || match debian_copyright::lossy::Copyright::from_str(&t3) {
        Err(e) if e == "Not machine readable" => "ly=ERR:nmr|yc=|yq=|yn=".to_string(),
        Err(_) => "ly=ERR|yc=|yq=|yn=".to_string(),
        Ok(c) => {
            let mut yq = Vec::new();
            for path in &paths {
                let path: &Path = path.as_path();
                let mut bits = String::new();
                for f in &c.files {
                    let r = guard(|| b(f.matches(path)).to_string());
                    bits.push_str(if r == "PANIC" { "P" } else { &r });
                }
                let ff = guard(|| match c.find_files(path) {
                    None => "-".to_string(),
                    Some(p) => format!("{}", c.files.iter().position(|q| std::ptr::eq(p, q)).unwrap()),
                });
                let fl = guard(|| opt_lic_s(c.find_license_for_file(path)));
                yq.push(format!("{}/{}/{}", bits, if ff == "PANIC" { "P" } else { &ff }, if fl == "PANIC" { "P" } else { &fl }));
            }
            let yn = names
                .iter()
                .map(|n| guard(|| opt_lic_s(c.find_license_by_name(n))))
                .collect::<Vec<_>>()
                .join(";");
            format!("ly=OK|yc={}.{}|yq={}|yn={}", c.files.len(), c.licenses.len(), yq.join(";"), yn)
        }
    });
    let ly = if ly == "PANIC" { "ly=PANIC|yc=|yq=|yn=".to_string() } else { ly };
    format!("{}|rx={}|{}", ll, rx, ly)
}

pub fn streams() -> Vec<(&'static str, crate::StreamFn)> {
    vec![("glob", glob as crate::StreamFn), ("copyright", copyright as crate::StreamFn)]
}
