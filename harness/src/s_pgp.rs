//! Streams about PGP clear-sign unwrapping (debian-control/src/pgp.rs), property C19.
//!
//! Result of `strip_pgp_signature` as a canonical string:
//!   `U:<hex text>`              Ok((text, None))
//!   `S:<hex payload>:<hex sig>` Ok((payload, Some(sig)))
//!   `E:<kind>`                  Err(kind)  (the property is about the kind, so it is printed)
//!   `PANIC`
use crate::util::*;
use debian_control::pgp::{strip_pgp_signature, Error};

const BEGIN_SIGNED: &str = "-----BEGIN PGP SIGNED MESSAGE-----";
const BEGIN_SIG: &str = "-----BEGIN PGP SIGNATURE-----";
const END_SIG: &str = "-----END PGP SIGNATURE-----";

fn strip_rec(input: &str) -> String {
    let s = input.to_string();
    guard(move || match strip_pgp_signature(&s) {
        Ok((p, None)) => format!("U:{}", hex(&p)),
        Ok((p, Some(sig))) => format!("S:{}:{}", hex(&p), hex(&sig)),
        Err(Error::MissingPgpSignature) => "E:MissingPgpSignature".to_string(),
        Err(Error::MissingPayload) => "E:MissingPayload".to_string(),
        Err(Error::TruncatedPgpSignature) => "E:TruncatedPgpSignature".to_string(),
        Err(Error::JunkAfterPgpSignature) => "E:JunkAfterPgpSignature".to_string(),
    })
}

/// "L,hex,hex" -> vec of strings ("L" = empty list)
fn unlist(f: &str) -> Vec<String> {
    let mut it = f.split(',');
    assert_eq!(it.next(), Some("L"));
    it.map(unhex).collect()
}
fn list_rec(l: &[&str]) -> String {
    let mut o = String::from("L");
    for x in l {
        o.push(',');
        o.push_str(&hex(x));
    }
    o
}

/// The lines of the clear-signed message built from header, payload and signature lines
/// (specification-level; mirrors Pgp.wrap_lines in the Coq model).
fn wrap_lines(hs: &[String], ps: &[String], ss: &[String]) -> Vec<String> {
    let mut v = vec![BEGIN_SIGNED.to_string()];
    v.extend(hs.iter().cloned());
    v.push(String::new());
    v.extend(ps.iter().cloned());
    v.push(BEGIN_SIG.to_string());
    v.extend(ss.iter().cloned());
    v.push(END_SIG.to_string());
    v
}
fn unlines(ls: &[String]) -> String {
    let mut o = String::new();
    for l in ls {
        o.push_str(l);
        o.push('\n');
    }
    o
}

/// stream pgp-strip: fields = [hex input, ...ignored tags]
/// record: r=<result>|lines=<str::lines() of the input>
pub fn pgp_strip(fs: &[&str]) -> String {
    let s = unhex(fs[0]);
    let r = strip_rec(&s);
    let ls: Vec<&str> = s.lines().collect();
    format!("r={}|lines={}", r, list_rec(&ls))
}

/// stream pgp-wrap: fields = [headers, payload lines, signature lines, hex extra]
/// record: msg=<hex message>|full=<result>|cuts=<result for each line-boundary prefix k=0..n-1>|junk=<result on message ++ extra>
pub fn pgp_wrap(fs: &[&str]) -> String {
    let (hs, ps, ss) = (unlist(fs[0]), unlist(fs[1]), unlist(fs[2]));
    let extra = unhex(fs[3]);
    let ls = wrap_lines(&hs, &ps, &ss);
    let msg = unlines(&ls);
    let full = strip_rec(&msg);
    let cuts: Vec<String> = (0..ls.len()).map(|k| strip_rec(&unlines(&ls[..k]))).collect();
    let junk = strip_rec(&format!("{}{}", msg, extra));
    format!("msg={}|full={}|cuts={}|junk={}", hex(&msg), full, cuts.join(";"), junk)
}

/// stream pgp-cutc: fields = [headers, payload lines, signature lines]
/// record: cuts=<result for each character prefix of length 0..len-1>; a prefix returned
/// unchanged and unsigned is abbreviated `U=` (anything else is printed in full).
pub fn pgp_cutc(fs: &[&str]) -> String {
    let (hs, ps, ss) = (unlist(fs[0]), unlist(fs[1]), unlist(fs[2]));
    let msg = unlines(&wrap_lines(&hs, &ps, &ss));
    let mut out = Vec::new();
    for (i, _) in msg.char_indices() {
        let x = &msg[..i];
        let r = strip_rec(x);
        if r == format!("U:{}", hex(x)) {
            out.push("U=".to_string());
        } else {
            out.push(r);
        }
    }
    format!("n={}|cuts={}", out.len(), out.join(";"))
}

pub fn streams() -> Vec<(&'static str, crate::StreamFn)> {
    vec![
        ("pgp-strip", pgp_strip as crate::StreamFn),
        ("pgp-wrap", pgp_wrap as crate::StreamFn),
        ("pgp-cutc", pgp_cutc as crate::StreamFn),
    ]
}
