//! Streams of the C13 cone: Relations::wrap_and_sort (debian-control/src/lossless/relations.rs)
//! and the relation branch of Control::wrap_and_sort (debian-control/src/lossless/control.rs).
//!
//! Record grammar of the accessor parts (as in s_relacc.rs / runner/s_relgrammar.ml):
//!   relation := "n:" (hex|PANIC) ",q:" ("-"|"+"hex) ",v:" ("-"|op"."hex|PANIC)
//!               ",a:" ("-"|"+"[item("."item)*]) ",p:" group*
//!   entry    := relation ("/" relation)*        entries := entry (";" entry)*
//!
//! rel-wrap (well-formed fields; further case fields are for the model and the oracle) and
//! rel-wrap-text (any text), fields = [hex text, ..]:
//!   e1=<errors of parse_relaxed(s,true)>|acc=<entries>|sv=<substvars>
//!   |w1=<hex text of wrap_and_sort() | PANIC>|wacc=<entries of the returned object>|wsv=<its substvars>
//!   |w2=<hex text of a second application to the returned object | PANIC>
//!   |re1=<errors of parse_relaxed(w1,true)>|re0=<errors of parse_relaxed(w1,false)>
//!   |racc=<entries of the re-read w1>|rsv=<its substvars>|w2p=<hex text of wrap_and_sort of the re-read w1>
//!   (everything after w1 is "-" when w1 is PANIC)
//! rel-wrap-ctl, fields = [hex control text, settings "s<n>:<iel>:<mll|->"]:
//!   ERR (not a control file) | PANIC | t1=<hex text after Control::wrap_and_sort>|t2=<after a second one>
use crate::util::*;
use debian_control::lossless::relations::{Relation, Relations};
use debian_control::relations::{BuildProfile, VersionConstraint};
use std::panic::{catch_unwind, AssertUnwindSafe};

fn g<F: FnOnce() -> String>(f: F) -> String {
    match catch_unwind(AssertUnwindSafe(f)) {
        Ok(s) => s,
        Err(_) => "PANIC".to_string(),
    }
}

fn op_s(vc: &VersionConstraint) -> &'static str {
    match vc {
        VersionConstraint::GreaterThanEqual => "ge",
        VersionConstraint::LessThanEqual => "le",
        VersionConstraint::Equal => "eq",
        VersionConstraint::GreaterThan => "gt",
        VersionConstraint::LessThan => "lt",
    }
}

fn profile_s(p: &BuildProfile) -> String {
    match p {
        BuildProfile::Enabled(s) => format!("e{}", hex(s)),
        BuildProfile::Disabled(s) => format!("d{}", hex(s)),
    }
}

fn groups_s(gs: &[Vec<BuildProfile>]) -> String {
    gs.iter()
        .map(|g| format!("<{}>", g.iter().map(profile_s).collect::<Vec<_>>().join(".")))
        .collect::<Vec<_>>()
        .join("")
}

fn relation_s(r: &Relation) -> String {
    let n = g(|| hex(&r.name()));
    let q = g(|| opt_hex(r.archqual().as_deref()));
    let v = g(|| match r.version() {
        None => "-".to_string(),
        Some((vc, ver)) => format!("{}.{}", op_s(&vc), hex(&ver.to_string())),
    });
    let a = g(|| match r.architectures() {
        None => "-".to_string(),
        Some(it) => format!("+{}", it.map(|s| hex(&s)).collect::<Vec<_>>().join(".")),
    });
    let p = g(|| groups_s(&r.profiles().collect::<Vec<_>>()));
    format!("n:{},q:{},v:{},a:{},p:{}", n, q, v, a, p)
}

fn entries_s(r: &Relations) -> String {
    g(|| {
        r.entries()
            .map(|e| e.relations().map(|x| relation_s(&x)).collect::<Vec<_>>().join("/"))
            .collect::<Vec<_>>()
            .join(";")
    })
}

fn substvars_s(r: &Relations) -> String {
    g(|| r.substvars().map(|s| hex(&s)).collect::<Vec<_>>().join(","))
}

/// wrap_and_sort consumes its receiver: re-read the text to get a second handle on the same tree
fn wrap(r: Relations) -> Option<Relations> {
    catch_unwind(AssertUnwindSafe(move || r.wrap_and_sort())).ok()
}

pub fn rel_wrap(fs: &[&str]) -> String {
    let s = unhex(fs[0]);
    let parsed = catch_unwind(AssertUnwindSafe(|| Relations::parse_relaxed(&s, true)));
    let (r, errs) = match parsed {
        Ok(x) => x,
        Err(_) => return "PANIC".to_string(),
    };
    let head = format!("e1={}|acc={}|sv={}", errs.len(), entries_s(&r), substvars_s(&r));
    let w = match wrap(r) {
        None => return format!("{}|w1=PANIC|wacc=-|wsv=-|w2=-|re1=-|re0=-|racc=-|rsv=-|w2p=-", head),
        Some(w) => w,
    };
    let w1 = g(|| w.to_string());
    let wacc = entries_s(&w);
    let wsv = substvars_s(&w);
    let w2 = match wrap(w) {
        None => "PANIC".to_string(),
        Some(w2) => hex(&g(|| w2.to_string())),
    };
    let (rr, rerrs1) = match catch_unwind(AssertUnwindSafe(|| Relations::parse_relaxed(&w1, true))) {
        Ok(x) => x,
        Err(_) => return format!("{}|w1={}|wacc={}|wsv={}|w2={}|re1=PANIC|re0=-|racc=-|rsv=-|w2p=-", head, hex(&w1), wacc, wsv, w2),
    };
    let re0 = g(|| Relations::parse_relaxed(&w1, false).1.len().to_string());
    let racc = entries_s(&rr);
    let rsv = substvars_s(&rr);
    let w2p = match wrap(rr) {
        None => "PANIC".to_string(),
        Some(x) => hex(&g(|| x.to_string())),
    };
    format!(
        "{}|w1={}|wacc={}|wsv={}|w2={}|re1={}|re0={}|racc={}|rsv={}|w2p={}",
        head,
        hex(&w1),
        wacc,
        wsv,
        w2,
        rerrs1.len(),
        re0,
        racc,
        rsv,
        w2p
    )
}

fn settings(s: &str) -> (deb822_lossless::Indentation, bool, Option<usize>) {
    let p: Vec<&str> = s.split(':').collect();
    let ind = if p[0] == "f" {
        deb822_lossless::Indentation::FieldNameLength
    } else {
        deb822_lossless::Indentation::Spaces(p[0][1..].parse().unwrap())
    };
    let iel = p[1] == "1";
    let mll = if p[2] == "-" { None } else { Some(p[2].parse().unwrap()) };
    (ind, iel, mll)
}

pub fn rel_wrap_ctl(fs: &[&str]) -> String {
    use debian_control::lossless::Control;
    use std::str::FromStr;
    let s = unhex(fs[0]);
    let (ind, iel, mll) = settings(fs[1]);
    let mut c = match catch_unwind(AssertUnwindSafe(|| Control::from_str(&s))) {
        Ok(Ok(c)) => c,
        Ok(Err(_)) => return "ERR".to_string(),
        Err(_) => return "PANIC".to_string(),
    };
    if catch_unwind(AssertUnwindSafe(|| c.wrap_and_sort(ind, iel, mll))).is_err() {
        return "PANIC".to_string();
    }
    let t1 = g(|| c.to_string());
    let t2 = match catch_unwind(AssertUnwindSafe(|| c.wrap_and_sort(ind, iel, mll))) {
        Ok(()) => hex(&g(|| c.to_string())),
        Err(_) => "PANIC".to_string(),
    };
    format!("t1={}|t2={}", hex(&t1), t2)
}

pub fn streams() -> Vec<(&'static str, crate::StreamFn)> {
    vec![
        ("rel-wrap", rel_wrap as crate::StreamFn),
        ("rel-wrap-text", rel_wrap as crate::StreamFn),
        ("rel-wrap-ctl", rel_wrap_ctl as crate::StreamFn),
    ]
}
