//! Streams of the C10 cone: what the accessors of the lossless relationship-field reader report
//! (entries / relations / name / archqual / version / architectures / profiles / substvars),
//! and what the lossy reader yields for the same text.
//!
//! Record grammar (shared with runner/s_relgrammar.ml):
//!   relation := "n:" (hex|PANIC) ",q:" ("-"|"+"hex) ",v:" ("-"|op"."hex|PANIC)
//!               ",a:" ("-"|"+"[item("."item)*]) ",p:" group*
//!   op       := ge | le | eq | gt | lt          item := hex   (a negated architecture is "!name")
//!   group    := "<" [term("."term)*] ">"        term := ("e"|"d")hex
//!   entry    := relation ("/" relation)*        entries := entry (";" entry)*
use crate::util::*;
use debian_control::lossless::relations::{Relation, Relations};
use debian_control::relations::{BuildProfile, VersionConstraint};
use std::panic::{catch_unwind, AssertUnwindSafe};
use std::str::FromStr;

fn g<F: FnOnce() -> String>(f: F) -> String {
    match catch_unwind(AssertUnwindSafe(f)) {
        Ok(s) => s,
        Err(_) => "PANIC".to_string(),
    }
}

fn op_s(vc: &VersionConstraint) -> &'static str {
    match vc {
        VersionConstraint::GreaterThanEqual => "ge",
        VersionConstraint::LessThanEqual => "le",
        VersionConstraint::Equal => "eq",
        VersionConstraint::GreaterThan => "gt",
        VersionConstraint::LessThan => "lt",
    }
}

fn profile_s(p: &BuildProfile) -> String {
    match p {
        BuildProfile::Enabled(s) => format!("e{}", hex(s)),
        BuildProfile::Disabled(s) => format!("d{}", hex(s)),
    }
}

fn groups_s(gs: &[Vec<BuildProfile>]) -> String {
    gs.iter()
        .map(|g| format!("<{}>", g.iter().map(profile_s).collect::<Vec<_>>().join(".")))
        .collect::<Vec<_>>()
        .join("")
}

fn relation_s(r: &Relation) -> String {
    let n = g(|| hex(&r.name()));
    let q = g(|| opt_hex(r.archqual().as_deref()));
    // the Version is printed back with its Display impl (debversion is an external of the model)
    let v = g(|| match r.version() {
        None => "-".to_string(),
        Some((vc, ver)) => format!("{}.{}", op_s(&vc), hex(&ver.to_string())),
    });
    let a = g(|| match r.architectures() {
        None => "-".to_string(),
        Some(it) => format!("+{}", it.map(|s| hex(&s)).collect::<Vec<_>>().join(".")),
    });
    let p = g(|| groups_s(&r.profiles().collect::<Vec<_>>()));
    format!("n:{},q:{},v:{},a:{},p:{}", n, q, v, a, p)
}

fn entries_s(r: &Relations) -> String {
    g(|| {
        r.entries()
            .map(|e| e.relations().map(|x| relation_s(&x)).collect::<Vec<_>>().join("/"))
            .collect::<Vec<_>>()
            .join(";")
    })
}

fn substvars_s(r: &Relations) -> String {
    g(|| r.substvars().map(|s| hex(&s)).collect::<Vec<_>>().join(","))
}

/// (number of errors, entries, substvars) of parse_relaxed(s, allow)
fn relaxed(s: &str, allow: bool) -> (String, String, String) {
    match catch_unwind(AssertUnwindSafe(|| Relations::parse_relaxed(s, allow))) {
        Ok((r, errs)) => (errs.len().to_string(), entries_s(&r), substvars_s(&r)),
        Err(_) => ("PANIC".into(), "PANIC".into(), "PANIC".into()),
    }
}

fn lossless_part(s: &str, subst_free_only: bool) -> String {
    let (e1, acc1, sv1) = relaxed(s, true);
    if subst_free_only {
        // the allow_substvar = false reader is outside the statement when "${...}" is present
        return format!("e1={}|acc={}|sv={}|e0=-|strict=-|acc0=-|sv0=-", e1, acc1, sv1);
    }
    let (e0, acc0, sv0) = relaxed(s, false);
    let strict = g(|| match Relations::from_str(s) {
        Ok(_) => "OK".to_string(),
        Err(_) => "ERR".to_string(),
    });
    let acc0 = if acc0 == acc1 { "=".to_string() } else { acc0 };
    let sv0 = if sv0 == sv1 { "=".to_string() } else { sv0 };
    format!("e1={}|acc={}|sv={}|e0={}|strict={}|acc0={}|sv0={}", e1, acc1, sv1, e0, strict, acc0, sv0)
}

fn lossy_s(s: &str) -> String {
    use debian_control::lossy;
    g(|| match lossy::Relations::from_str(s) {
        Err(_) => "ERR".to_string(),
        Ok(rs) => rs
            .0
            .iter()
            .map(|e| {
                e.iter()
                    .map(|r| {
                        let v = match &r.version {
                            None => "-".to_string(),
                            Some((vc, ver)) => format!("{}.{}", op_s(vc), hex(&ver.to_string())),
                        };
                        let a = match &r.architectures {
                            None => "-".to_string(),
                            Some(v) => format!("+{}", v.iter().map(|s| hex(s)).collect::<Vec<_>>().join(".")),
                        };
                        format!(
                            "n:{},q:{},v:{},a:{},p:{}",
                            hex(&r.name),
                            opt_hex(r.archqual.as_deref()),
                            v,
                            a,
                            groups_s(&r.profiles)
                        )
                    })
                    .collect::<Vec<_>>()
                    .join("/")
            })
            .collect::<Vec<_>>()
            .join(";"),
    })
}

/// stream rel-acc (and rel-acc-pre, the same on the implementation side): fields = [hex text]
pub fn rel_acc(fs: &[&str]) -> String {
    let s = unhex(fs[0]);
    lossless_part(&s, false)
}

/// stream rel-doc: fields = [hex text; encoding of the abstract field (model side only);
/// lossy-domain flag]
pub fn rel_doc(fs: &[&str]) -> String {
    let s = unhex(fs[0]);
    let lossy = if fs.len() > 2 && fs[2] == "1" { lossy_s(&s) } else { "-".to_string() };
    format!("{}|lossy={}", lossless_part(&s, s.contains('$')), lossy)
}

/// stream rel-doc-model: the lossless part of rel-doc
pub fn rel_doc_model(fs: &[&str]) -> String {
    let s = unhex(fs[0]);
    lossless_part(&s, s.contains('$'))
}

/// stream rel-lossy-probe: fields = [hex text] -- lossless accessors and the lossy reader (diagnostics)
pub fn rel_lossy_probe(fs: &[&str]) -> String {
    let s = unhex(fs[0]);
    format!("{}|lossy={}", lossless_part(&s, false), lossy_s(&s))
}

pub fn streams() -> Vec<(&'static str, crate::StreamFn)> {
    vec![
        ("rel-acc", rel_acc as crate::StreamFn),
        ("rel-acc-pre", rel_acc as crate::StreamFn),
        ("rel-doc", rel_doc as crate::StreamFn),
        ("rel-doc-model", rel_doc_model as crate::StreamFn),
        ("rel-lossy-probe", rel_lossy_probe as crate::StreamFn),
    ]
}
