//! Streams para-wrap / doc-wrap / control-wrap (C07): wrap-and-sort reformatting of entries,
//! paragraphs and documents at the deb822 level and through the control-file wrappers.
//!
//! Settings field: `<ind>:<iel>:<mll>:<psort>:<esort>:<fmt>:<pws>`
//!   ind   s<n> = Indentation::Spaces(n) | f = Indentation::FieldNameLength
//!   iel   0 | 1                        (immediate_empty_line)
//!   mll   - | <decimal>                (max_line_length_one_liner)
//!   psort n | v (by the first field's value) | c (control order: Source first, then by name)
//!   esort n | k (by field name)
//!   fmt   n | i (identity) | s (';' becomes a line break) | u (the Uploaders formatter, for every field)
//!   pws   1 | 0 (0: Deb822::wrap_and_sort is called without a paragraph function)
use crate::util::*;
use deb822_lossless::lossless::{Entry, Lang};
use deb822_lossless::{Deb822, Indentation, Paragraph};
use rowan::ast::AstNode;
use std::cmp::Ordering;
use std::str::FromStr;

#[derive(Clone)]
struct Cfg {
    ind: Indentation,
    iel: bool,
    mll: Option<usize>,
    psort: char,
    esort: char,
    fmt: char,
    pws: bool,
}

fn parse_cfg(s: &str) -> Cfg {
    let p: Vec<&str> = s.split(':').collect();
    let ind = if p[0] == "f" {
        Indentation::FieldNameLength
    } else {
        Indentation::Spaces(p[0][1..].parse().unwrap())
    };
    Cfg {
        ind,
        iel: p[1] == "1",
        mll: if p[2] == "-" { None } else { Some(p[2].parse().unwrap()) },
        psort: p[3].chars().next().unwrap(),
        esort: p[4].chars().next().unwrap(),
        fmt: p[5].chars().next().unwrap(),
        pws: p.get(6).map(|x| *x != "0").unwrap_or(true),
    }
}

fn fmt_identity(_k: &str, v: &str) -> String {
    v.to_string()
}
fn fmt_semi(_k: &str, v: &str) -> String {
    v.replace(';', "\n")
}
fn fmt_uploaders(_k: &str, v: &str) -> String {
    v.split(',').map(|s| s.trim().to_string()).collect::<Vec<_>>().join(",\n")
}

fn by_name(a: &Entry, b: &Entry) -> Ordering {
    a.key().cmp(&b.key())
}
fn by_first_value(a: &Paragraph, b: &Paragraph) -> Ordering {
    let av = a.items().next().map(|(_, v)| v);
    let bv = b.items().next().map(|(_, v)| v);
    av.cmp(&bv)
}
/// the comparator of Control::wrap_and_sort (debian-control/src/lossless/control.rs)
fn control_order(a: &Paragraph, b: &Paragraph) -> Ordering {
    let a_is_source = a.get("Source").is_some();
    let b_is_source = b.get("Source").is_some();
    if a_is_source && !b_is_source {
        return Ordering::Less;
    } else if !a_is_source && b_is_source {
        return Ordering::Greater;
    } else if a_is_source && b_is_source {
        return a.get("Source").cmp(&b.get("Source"));
    }
    a.get("Package").cmp(&b.get("Package"))
}

fn formatter(c: char) -> Option<&'static dyn Fn(&str, &str) -> String> {
    match c {
        'i' => Some(&fmt_identity),
        's' => Some(&fmt_semi),
        'u' => Some(&fmt_uploaders),
        _ => None,
    }
}
fn entry_sorter(c: char) -> Option<&'static dyn Fn(&Entry, &Entry) -> Ordering> {
    match c {
        'k' => Some(&by_name),
        _ => None,
    }
}
fn para_sorter(c: char) -> Option<&'static dyn Fn(&Paragraph, &Paragraph) -> Ordering> {
    match c {
        'v' => Some(&by_first_value),
        'c' => Some(&control_order),
        _ => None,
    }
}

fn ws_para(p: &Paragraph, c: &Cfg) -> Paragraph {
    p.wrap_and_sort(c.ind, c.iel, c.mll, entry_sorter(c.esort), formatter(c.fmt))
}
fn ws_entry(e: &Entry, c: &Cfg) -> Entry {
    e.wrap_and_sort(c.ind, c.iel, c.mll, formatter(c.fmt))
}
fn ws_doc(d: &Deb822, c: &Cfg) -> Deb822 {
    let c2 = c.clone();
    let f = move |p: &Paragraph| ws_para(p, &c2);
    if c.pws {
        d.wrap_and_sort(para_sorter(c.psort), Some(&f))
    } else {
        d.wrap_and_sort(para_sorter(c.psort), None)
    }
}

fn items_s(p: &Paragraph) -> String {
    crate::s_deb822::items_s(p)
}
fn doc_s(d: &Deb822) -> String {
    crate::s_deb822::doc_items_s(d)
}
fn reread(t: &str) -> String {
    match Deb822::from_str(t) {
        Ok(r) => format!("OK:{}", doc_s(&r)),
        Err(_) => "ERR".to_string(),
    }
}
fn entries_of(p: &Paragraph) -> Vec<Entry> {
    let n: &rowan::SyntaxNode<Lang> = p.syntax();
    n.children().filter_map(<Entry as AstNode>::cast).collect()
}
fn entry_s(e: &Entry) -> String {
    format!("{}={}", opt_hex(e.key().as_deref()), hex(&e.value()))
}

/// para-wrap: every paragraph of the strictly parsed text, and every entry of it.
/// record: strict=ERR | strict=OK|it0=<doc items>|p=<para>/<para>...
///   para  = <t1>~<items1>~<t2>~<reread of t1>~<entry>;<entry>...
///   entry = <t1>,<key=value of the returned entry>,<t2>
pub fn para_wrap(fs: &[&str]) -> String {
    let s = unhex(fs[0]);
    let c = parse_cfg(fs[1]);
    guard(move || {
        let d = match Deb822::from_str(&s) {
            Ok(d) => d,
            Err(_) => return "strict=ERR".to_string(),
        };
        let mut out = vec![];
        for p in d.paragraphs() {
            let r1 = ws_para(&p, &c);
            let t1 = r1.to_string();
            let r2 = ws_para(&r1, &c);
            let es = entries_of(&p)
                .iter()
                .map(|e| {
                    let e1 = ws_entry(e, &c);
                    let e2 = ws_entry(&e1, &c);
                    format!("{},{},{}", hex(&e1.to_string()), entry_s(&e1), hex(&e2.to_string()))
                })
                .collect::<Vec<_>>()
                .join(";");
            out.push(format!(
                "{}~{}~{}~{}~{}",
                hex(&t1),
                items_s(&r1),
                hex(&r2.to_string()),
                reread(&t1),
                es
            ));
        }
        format!("strict=OK|it0={}|p={}", doc_s(&d), out.join("/"))
    })
}

/// doc-wrap record: strict=ERR | strict=OK|it0=..|t1=..|it1=..|t2=..|rr=<reread of t1>|t2p=<second
/// application on the re-read document, or - when t1 does not parse>
pub fn doc_wrap(fs: &[&str]) -> String {
    let s = unhex(fs[0]);
    let c = parse_cfg(fs[1]);
    guard(move || {
        let d = match Deb822::from_str(&s) {
            Ok(d) => d,
            Err(_) => return "strict=ERR".to_string(),
        };
        let r1 = ws_doc(&d, &c);
        let t1 = r1.to_string();
        let r2 = ws_doc(&r1, &c);
        let t2p = match Deb822::from_str(&t1) {
            Ok(r) => hex(&ws_doc(&r, &c).to_string()),
            Err(_) => "-".to_string(),
        };
        format!(
            "strict=OK|it0={}|t1={}|it1={}|t2={}|rr={}|t2p={}",
            doc_s(&d),
            hex(&t1),
            doc_s(&r1),
            hex(&r2.to_string()),
            reread(&t1),
            t2p
        )
    })
}

/// doc-wrap-any: the same on the tree the tolerant reader builds for ANY text (ERROR nodes and
/// tokens included): validates the model's panic sites; no property clause is about it.
/// record: PANIC | nerr=<n>|t1=..|it1=..|t2=..
pub fn doc_wrap_any(fs: &[&str]) -> String {
    let s = unhex(fs[0]);
    let c = parse_cfg(fs[1]);
    guard(move || {
        let (d, errs) = Deb822::from_str_relaxed(&s);
        let r1 = ws_doc(&d, &c);
        let t1 = r1.to_string();
        let r2 = ws_doc(&r1, &c);
        format!("nerr={}|t1={}|it1={}|t2={}", errs.len(), hex(&t1), doc_s(&r1), hex(&r2.to_string()))
    })
}

/// control-wrap: Control::wrap_and_sort on the document and Source/Binary::wrap_and_sort on
/// its paragraphs.  fields: [hex text, settings (ind:iel:mll used), table (model side only)]
/// record: strict=ERR | strict=OK|it0=..|t1=..|it1=..|t2=..|rr=..|src=<para>|bin=<para>/<para>..
///   para = <t1>~<items1>~<t2>    (src=- when there is no source paragraph)
pub fn control_wrap(fs: &[&str]) -> String {
    use debian_control::lossless::Control;
    let s = unhex(fs[0]);
    let c = parse_cfg(fs[1]);
    guard(move || {
        let mut ctl = match Control::from_str(&s) {
            Ok(d) => d,
            Err(_) => return "strict=ERR".to_string(),
        };
        let it0 = doc_s(ctl.as_deb822());
        // the wrappers own the paragraph handle they are given: use the handles Control hands out
        let src = match ctl.source() {
            Some(mut w) => {
                w.wrap_and_sort(c.ind, c.iel, c.mll);
                let t1 = w.to_string();
                let it1 = items_s(w.as_deb822());
                w.wrap_and_sort(c.ind, c.iel, c.mll);
                format!("{}~{}~{}", hex(&t1), it1, hex(&w.to_string()))
            }
            None => "-".to_string(),
        };
        let bins = ctl
            .binaries()
            .map(|mut w| {
                w.wrap_and_sort(c.ind, c.iel, c.mll);
                let t1 = w.as_deb822().to_string();
                let it1 = items_s(w.as_deb822());
                w.wrap_and_sort(c.ind, c.iel, c.mll);
                format!("{}~{}~{}", hex(&t1), it1, hex(&w.as_deb822().to_string()))
            })
            .collect::<Vec<_>>()
            .join("/");
        // (Source/Binary::wrap_and_sort assign a new paragraph to the handle: the document is unchanged)
        let unchanged = ctl.to_string() == s;
        ctl.wrap_and_sort(c.ind, c.iel, c.mll);
        let t1 = ctl.to_string();
        let it1 = doc_s(ctl.as_deb822());
        ctl.wrap_and_sort(c.ind, c.iel, c.mll);
        let t2 = ctl.to_string();
        format!(
            "strict=OK|it0={}|t1={}|it1={}|t2={}|rr={}|src={}|bin={}|same={}",
            it0,
            hex(&t1),
            it1,
            hex(&t2),
            reread(&t1),
            src,
            bins,
            b(unchanged)
        )
    })
}

/// Helper (not a correspondence stream): the points at which the control formatter's relation
/// branch is evaluated during two applications of the control-level reformatting, with the real
/// result of `Relations::from_str(v).unwrap().wrap_and_sort().to_string()` at each point
/// (`ERR` when the value does not parse, so that the unwrap panics).  The generator puts this
/// table into the case so that the model's `rel` parameter is the real function on those points.
/// record: tab=<hex v>:<hex out | ERR | PANIC>,...
pub fn control_fmt_table(fs: &[&str]) -> String {
    use debian_control::lossless::relations::Relations;
    use std::cell::RefCell;
    let s = unhex(fs[0]);
    let c = parse_cfg(fs[1]);
    let rel = |v: &str| -> Option<String> {
        let v = v.to_string();
        // as format_field reads it since /repo's fix "Control::wrap_and_sort panicked on a
        // relationship field with a substitution variable": substitution variables allowed, no error tolerated
        std::panic::catch_unwind(move || {
            let (r, errs) = Relations::parse_relaxed(&v, true);
            if errs.is_empty() { Some(r.wrap_and_sort().to_string()) } else { None }
        })
        .unwrap_or(None)
    };
    let d = match Deb822::from_str(&s) {
        Ok(d) => d,
        Err(_) => return "tab=".to_string(),
    };
    let seen: RefCell<Vec<String>> = RefCell::new(vec![]);
    let rec = |k: &str, v: &str| -> String {
        if !seen.borrow().iter().any(|x| x == v) {
            seen.borrow_mut().push(v.to_string());
        }
        match k {
            "Uploaders" => fmt_uploaders(k, v),
            "Build-Depends" | "Build-Depends-Indep" | "Build-Depends-Arch" | "Build-Conflicts"
            | "Build-Conflicts-Indep" | "Build-Conflics-Arch" | "Build-Conflicts-Arch" | "Depends"
            | "Recommends" | "Suggests" | "Enhances" | "Pre-Depends" | "Breaks" => rel(v).unwrap_or_else(|| v.to_string()),
            _ => v.to_string(),
        }
    };
    let pw = |p: &Paragraph| p.wrap_and_sort(c.ind, c.iel, c.mll, None, Some(&rec));
    let run = std::panic::catch_unwind(std::panic::AssertUnwindSafe(|| {
        let r1 = d.wrap_and_sort(Some(&control_order), Some(&pw));
        let _r2 = r1.wrap_and_sort(Some(&control_order), Some(&pw));
        // the paragraph-level wrappers see the same values; second application on each result
        for p in d.paragraphs() {
            let q = pw(&p);
            let _ = pw(&q);
        }
    }));
    let _ = run;
    let tab = seen
        .borrow()
        .iter()
        .map(|v| format!("{}:{}", hex(v), rel(v).map(|o| hex(&o)).unwrap_or_else(|| "ERR".to_string())))
        .collect::<Vec<_>>()
        .join(",");
    format!("tab={}", tab)
}

pub fn streams() -> Vec<(&'static str, crate::StreamFn)> {
    vec![
        ("para-wrap", para_wrap as crate::StreamFn),
        ("doc-wrap", doc_wrap as crate::StreamFn),
        ("doc-wrap-any", doc_wrap_any as crate::StreamFn),
        ("control-wrap", control_wrap as crate::StreamFn),
        ("control-fmt-table", control_fmt_table as crate::StreamFn),
    ]
}
