//! Stream totality: every public text-parsing entry point on the same input: OK / ERR / PANIC.
//! Stream totality-scale: wall-clock of every entry point on inputs of growing size.
use crate::util::*;
use std::str::FromStr;

type Entry = (&'static str, fn(&str) -> bool);

fn ok<T, E>(r: Result<T, E>) -> bool {
    r.is_ok()
}

pub fn entries() -> Vec<Entry> {
    vec![
        ("d822", |s| ok(deb822_lossless::Deb822::from_str(s))),
        ("d822r", |s| { let _ = deb822_lossless::Deb822::from_str_relaxed(s); true }),
        ("d822read", |s| ok(deb822_lossless::Deb822::read(s.as_bytes()))),
        ("d822readr", |s| ok(deb822_lossless::Deb822::read_relaxed(s.as_bytes()))),
        ("para", |s| ok(deb822_lossless::Paragraph::from_str(s))),
        ("ld822", |s| ok(deb822_lossless::lossy::Deb822::from_str(s))),
        ("lpara", |s| ok(deb822_lossless::lossy::Paragraph::from_str(s))),
        ("rels", |s| ok(debian_control::lossless::relations::Relations::from_str(s))),
        ("relsr0", |s| { let _ = debian_control::lossless::relations::Relations::parse_relaxed(s, false); true }),
        ("relsr1", |s| { let _ = debian_control::lossless::relations::Relations::parse_relaxed(s, true); true }),
        ("entry", |s| ok(debian_control::lossless::relations::Entry::from_str(s))),
        ("rel", |s| ok(debian_control::lossless::relations::Relation::from_str(s))),
        ("lrels", |s| ok(debian_control::lossy::Relations::from_str(s))),
        ("lrel", |s| ok(debian_control::lossy::Relation::from_str(s))),
        ("lcontrol", |s| ok(debian_control::lossy::Control::from_str(s))),
        ("lrelease", |s| {
            use deb822_lossless::FromDeb822Paragraph;
            match deb822_lossless::lossy::Paragraph::from_str(s) {
                Ok(p) => ok(debian_control::lossy::apt::Release::from_paragraph(&p)),
                Err(_) => false,
            }
        }),
        ("lsource", |s| ok(debian_control::lossy::apt::Source::from_str(s))),
        ("lpackage", |s| ok(debian_control::lossy::apt::Package::from_str(s))),
        ("lbuildinfo", |s| ok(debian_control::lossy::buildinfo::Buildinfo::from_str(s))),
        ("lremoval", |s| ok(debian_control::lossy::ftpmaster::Removal::from_str(s))),
        ("control", |s| ok(debian_control::lossless::control::Control::from_str(s))),
        ("controlread", |s| ok(debian_control::lossless::control::Control::read(s.as_bytes()))),
        ("controlr", |s| ok(debian_control::lossless::control::Control::read_relaxed(s.as_bytes()))),
        ("asource", |s| ok(debian_control::lossless::apt::Source::from_str(s))),
        ("apackage", |s| ok(debian_control::lossless::apt::Package::from_str(s))),
        ("arelease", |s| ok(debian_control::lossless::apt::Release::from_str(s))),
        ("buildinfo", |s| ok(debian_control::lossless::buildinfo::Buildinfo::from_str(s))),
        ("changes", |s| ok(debian_control::lossless::changes::Changes::read(s.as_bytes()))),
        ("changesr", |s| ok(debian_control::lossless::changes::Changes::read_relaxed(s.as_bytes()))),
        ("changesfile", |s| ok(debian_control::lossless::changes::File::from_str(s))),
        ("pgp", |s| ok(debian_control::pgp::strip_pgp_signature(s))),
        ("parsedvcs", |s| ok(debian_control::vcs::ParsedVcs::from_str(s))),
        ("vcsgit", |s| ok(debian_control::vcs::Vcs::from_field("Git", s))),
        ("vcsfield", |s| {
            let (a, b) = s.split_once('\n').unwrap_or((s, ""));
            ok(debian_control::vcs::Vcs::from_field(a, b))
        }),
        ("identity", |s| ok(debian_control::parse_identity(s))),
        ("priority", |s| ok(debian_control::fields::Priority::from_str(s))),
        ("sha1", |s| ok(debian_control::fields::Sha1Checksum::from_str(s))),
        ("sha256", |s| ok(debian_control::fields::Sha256Checksum::from_str(s))),
        ("sha512", |s| ok(debian_control::fields::Sha512Checksum::from_str(s))),
        ("md5", |s| ok(debian_control::fields::Md5Checksum::from_str(s))),
        ("pkglist", |s| ok(debian_control::fields::PackageListEntry::from_str(s))),
        ("urgency", |s| ok(debian_control::fields::Urgency::from_str(s))),
        ("multiarch", |s| ok(debian_control::fields::MultiArch::from_str(s))),
        ("buildprofile", |s| ok(debian_control::relations::BuildProfile::from_str(s))),
        ("vconstraint", |s| ok(debian_control::relations::VersionConstraint::from_str(s))),
        ("copyright", |s| ok(debian_copyright::lossless::Copyright::from_str(s))),
        ("copyrightr", |s| ok(debian_copyright::lossless::Copyright::from_str_relaxed(s))),
        ("lcopyright", |s| ok(debian_copyright::lossy::Copyright::from_str(s))),
        ("license", |s| ok(debian_copyright::License::from_str(s))),
        ("dep3", |s| ok(dep3::lossless::PatchHeader::from_str(s))),
        ("ldep3", |s| ok(dep3::lossy::PatchHeader::from_str(s))),
        ("forwarded", |s| ok(dep3::Forwarded::from_str(s))),
        ("origincat", |s| ok(dep3::OriginCategory::from_str(s))),
        ("origin", |s| ok(dep3::Origin::from_str(s))),
        ("applied", |s| ok(dep3::AppliedUpstream::from_str(s))),
        ("repos", |s| ok(apt_sources::Repositories::from_str(s))),
        ("repotype", |s| ok(apt_sources::RepositoryType::from_str(s))),
        ("ynf", |s| ok(apt_sources::YesNoForce::from_str(s))),
        ("signature", |s| ok(apt_sources::signature::Signature::from_str(s))),
    ]
}

fn run_entry(f: fn(&str) -> bool, s: &str) -> &'static str {
    let s = s.to_string();
    match std::panic::catch_unwind(move || f(&s)) {
        Ok(true) => "OK",
        Ok(false) => "ERR",
        Err(_) => "PANIC",
    }
}

/// fields = [hex text]  or  [hex text, comma separated entry names]
pub fn totality(fs: &[&str]) -> String {
    let s = unhex(fs[0]);
    let only: Option<Vec<&str>> = fs.get(1).map(|x| x.split(',').collect());
    entries()
        .into_iter()
        .filter(|(n, _)| only.as_ref().map_or(true, |o| o.contains(n)))
        .map(|(n, f)| format!("{}={}", n, run_entry(f, &s)))
        .collect::<Vec<_>>()
        .join("|")
}

/// fields = [hex seed text; repetitions r1,r2,r3]: time (microseconds) of every entry on seed^r
pub fn totality_scale(fs: &[&str]) -> String {
    let seed = unhex(fs[0]);
    let reps: Vec<usize> = fs[1].split(',').map(|x| x.parse().unwrap()).collect();
    let inputs: Vec<String> = reps.iter().map(|r| seed.repeat(*r)).collect();
    entries()
        .into_iter()
        .map(|(n, f)| {
            let ts: Vec<String> = inputs
                .iter()
                .map(|inp| {
                    // scheduling noise can only lengthen a measurement: a slow one is repeated
                    // (up to three runs in all) and the shortest time is reported
                    let t0 = std::time::Instant::now();
                    let r = run_entry(f, inp);
                    let mut us = t0.elapsed().as_micros();
                    let mut tries = 1;
                    while us > 100_000 && tries < 3 {
                        let t1 = std::time::Instant::now();
                        let _ = run_entry(f, inp);
                        us = us.min(t1.elapsed().as_micros());
                        tries += 1;
                    }
                    format!("{}:{}", r, us)
                })
                .collect();
            format!("{}={}", n, ts.join(","))
        })
        .collect::<Vec<_>>()
        .join("|")
}

/// fields = [hex seed text; repetitions r; stack size in KiB]: every entry on seed^r, each in a
/// thread of its own with a SMALL stack. Stack use that grows with the input (recursion per
/// token, per alternative, per line) overflows it: the process aborts and the supervisor
/// records ABORT. Code whose stack use is bounded is not affected by the size of the input.
pub fn totality_stack(fs: &[&str]) -> String {
    let seed = unhex(fs[0]);
    let r: usize = fs[1].parse().unwrap();
    let kib: usize = fs[2].parse().unwrap();
    let input = std::sync::Arc::new(seed.repeat(r));
    entries()
        .into_iter()
        .map(|(n, f)| {
            let inp = input.clone();
            let h = std::thread::Builder::new()
                .stack_size(kib * 1024)
                .spawn(move || run_entry(f, &inp))
                .unwrap();
            format!("{}={}", n, h.join().unwrap_or("PANIC"))
        })
        .collect::<Vec<_>>()
        .join("|")
}

pub fn streams() -> Vec<(&'static str, crate::StreamFn)> {
    vec![
        ("totality-stack", totality_stack as crate::StreamFn),
        ("totality", totality as crate::StreamFn),
        ("totality-scale", totality_scale as crate::StreamFn),
    ]
}
