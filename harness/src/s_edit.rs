//! Stream deb822-edit: editing operations on a lossless document, through handles obtained earlier.
use crate::util::*;
use deb822_lossless::{Deb822, Paragraph};
use std::str::FromStr;

fn items_s(p: &Paragraph) -> String {
    crate::s_deb822::items_s(p)
}
fn doc_s(d: &Deb822) -> String {
    crate::s_deb822::doc_items_s(d)
}

fn ptexts(d: &Deb822) -> String {
    d.paragraphs().map(|p| format!("{}.", hex(&p.to_string()))).collect::<Vec<_>>().join("")
}

fn pairs(enc: &str) -> Vec<Vec<(String, String)>> {
    if enc == "-" {
        return vec![];
    }
    enc.split(';')
        .map(|p| {
            if p.is_empty() {
                return vec![];
            }
            p.split(',')
                .map(|f| {
                    let (k, v) = f.split_once('=').unwrap();
                    (unhex(k), unhex(v))
                })
                .collect()
        })
        .collect()
}

pub fn deb822_edit(fs: &[&str]) -> String {
    let init = fs[0].to_string();
    let ops: Vec<String> = fs[1].split(' ').filter(|x| !x.is_empty() && *x != "-").map(|x| x.to_string()).collect();
    guard(move || {
        let mut d: Deb822 = if init == "N" {
            Deb822::new()
        } else if let Some(h) = init.strip_prefix("T:") {
            Deb822::from_str_relaxed(&unhex(h)).0
        } else if let Some(e) = init.strip_prefix("F:") {
            pairs(e).into_iter().map(|p| p.into_iter().collect::<Paragraph>()).collect::<Deb822>()
        } else if let Some(e) = init.strip_prefix("P:") {
            // FromIterator of paragraphs obtained by Paragraph::from_str of each text
            let mut ps = vec![];
            for h in e.split(';').filter(|x| !x.is_empty()) {
                match Paragraph::from_str(&unhex(h)) {
                    Ok(p) => ps.push(p),
                    Err(_) => return "ERR".to_string(),
                }
            }
            ps.into_iter().collect::<Deb822>()
        } else {
            panic!("bad init")
        };
        // handles obtained before any edit; kept in step with the paragraph list
        let mut handles: Vec<Paragraph> = d.paragraphs().collect();
        // a second handle to the document obtained before any edit must see every edit
        let text0 = d.to_string();
        let items0 = format!("{}~{}", doc_s(&d), ptexts(&d));
        let mut outs = vec![];
        for op in &ops {
            let parts: Vec<&str> = op.split(':').collect();
            let mut note = String::new();
            match parts[0] {
                "S" | "I" | "R" | "N" => {
                    let p: usize = parts[1].parse().unwrap();
                    if p >= handles.len() {
                        note = "skip".to_string();
                    } else {
                        let h = &mut handles[p];
                        match parts[0] {
                            "S" => h.set(&unhex(parts[2]), &unhex(parts[3])),
                            "I" => h.insert(&unhex(parts[2]), &unhex(parts[3])),
                            "R" => h.remove(&unhex(parts[2])),
                            _ => {
                                note = if h.rename(&unhex(parts[2]), &unhex(parts[3])) { "renamed" } else { "notfound" }.to_string()
                            }
                        }
                    }
                }
                "A" => {
                    let h = d.add_paragraph();
                    handles.push(h);
                }
                "J" => {
                    let i: usize = parts[1].parse().unwrap();
                    let h = d.insert_paragraph(i);
                    let pos = i.min(handles.len());
                    handles.insert(pos, h);
                }
                "D" => {
                    let i: usize = parts[1].parse().unwrap();
                    d.remove_paragraph(i);
                    if i < handles.len() {
                        handles.remove(i);
                    }
                }
                _ => panic!("bad op"),
            }
            // the handles must still denote the document's paragraphs, in order
            let live: Vec<String> = d.paragraphs().map(|p| items_s(&p)).collect();
            let via: Vec<String> = handles.iter().map(items_s).collect();
            if live != via {
                note.push_str("HANDLE-MISMATCH");
            }
            outs.push(format!("{}{}~{}~{}", note, hex(&d.to_string()), doc_s(&d), ptexts(&d)));
        }
        let fin = d.to_string();
        let reread = match Deb822::from_str(&fin) {
            Ok(r) => format!("OK:{}", doc_s(&r)),
            Err(_) => "ERR".to_string(),
        };
        format!("init={}~{}|steps={}|reread={}", hex(&text0), items0, outs.join("/"), reread)
    })
}

pub fn streams() -> Vec<(&'static str, crate::StreamFn)> {
    vec![
        ("deb822-edit", deb822_edit as crate::StreamFn),
        ("deb822-edit-any", deb822_edit as crate::StreamFn),
    ]
}
