//! Streams about relationship fields (debian-control).
use crate::util::*;
use debian_control::lossless::relations::{Entry, Relation, Relations};
use std::str::FromStr;

fn depth_of_text_tree(r: &Relations) -> usize {
    // Relations hides its SyntaxNode; depth is observable through the public structure only
    // partially, so the harness reports the nesting the public API exposes:
    // ROOT(1) > ENTRY(2) > RELATION(3) > {ARCHQUAL,VERSION,ARCHITECTURES,PROFILES,ERROR}(4) > CONSTRAINT/ERROR(5)
    // The model's depth is compared only through `r.syntax_depth()` when the hook is on.
    r.verif_depth()
}

pub fn rel_parse(fs: &[&str]) -> String {
    let s = unhex(fs[0]);
    let s1 = s.clone();
    let lx = guard(move || {
        debian_control::relations::Lexer::new(&s1)
            .map(|(k, t)| format!("{}:{}", k as u16, hex(&t)))
            .collect::<Vec<_>>()
            .join(",")
    });
    let relaxed = |allow: bool| {
        let s2 = s.clone();
        guard(move || {
            let (r, errs) = Relations::parse_relaxed(&s2, allow);
            format!("{}:{}:{}", hex(&r.to_string()), errs.len(), depth_of_text_tree(&r))
        })
    };
    let r0 = relaxed(false);
    let r1 = relaxed(true);
    let s3 = s.clone();
    let strict = guard(move || match Relations::from_str(&s3) {
        Ok(r) => format!("OK:{}", hex(&r.to_string())),
        Err(_) => "ERR".to_string(),
    });
    let s4 = s.clone();
    let ent = guard(move || match Entry::from_str(&s4) {
        Ok(r) => format!("OK:{}", hex(&r.to_string())),
        Err(_) => "ERR".to_string(),
    });
    let s5 = s.clone();
    let rel = guard(move || match Relation::from_str(&s5) {
        Ok(r) => format!("OK:{}", hex(&r.to_string())),
        Err(_) => "ERR".to_string(),
    });
    format!("lex={}|r0={}|r1={}|strict={}|entry={}|relation={}", lx, r0, r1, strict, ent, rel)
}

pub fn streams() -> Vec<(&'static str, crate::StreamFn)> {
    vec![("rel-parse", rel_parse as crate::StreamFn)]
}
