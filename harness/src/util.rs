//! Shared helpers: hex encoding, canonical record pieces.
pub fn hex(s: &str) -> String {
    let mut o = String::with_capacity(s.len() * 2);
    for b in s.bytes() {
        o.push_str(&format!("{:02x}", b));
    }
    o
}
pub fn unhex(h: &str) -> String {
    let bytes: Vec<u8> = (0..h.len() / 2)
        .map(|i| u8::from_str_radix(&h[2 * i..2 * i + 2], 16).unwrap())
        .collect();
    String::from_utf8(bytes).expect("case files hold valid UTF-8")
}
pub fn opt_hex(o: Option<&str>) -> String {
    match o {
        None => "-".to_string(),
        Some(s) => format!("+{}", hex(s)),
    }
}
pub fn b(x: bool) -> &'static str {
    if x {
        "1"
    } else {
        "0"
    }
}
/// Run f, mapping a panic to the string "PANIC".
pub fn guard<F: FnOnce() -> String + std::panic::UnwindSafe>(f: F) -> String {
    match std::panic::catch_unwind(f) {
        Ok(s) => s,
        Err(_) => "PANIC".to_string(),
    }
}
