//! verif-harness: runs the real deb822-lossless workspace APIs on case files and prints one
//! canonical record per case.  `verif-harness <stream> <casefile>` is the supervisor: it spawns
//! itself as a worker, and when the worker produces no record for a case within the time budget
//! it kills it, records HANG for that case and restarts the worker after it.
mod util;

use std::io::{BufRead, BufReader, Write};
use std::process::{Command, Stdio};
use std::sync::mpsc;
use std::time::Duration;

pub type StreamFn = fn(&[&str]) -> String;
include!(concat!(env!("OUT_DIR"), "/registry.rs"));

fn stream_fn(name: &str) -> Option<StreamFn> {
    all_streams().into_iter().find(|(n, _)| *n == name).map(|(_, f)| f)
}

fn worker(stream: &str, file: &str, start: usize) {
    std::panic::set_hook(Box::new(|_| {}));
    let f = stream_fn(stream).expect("unknown stream");
    let rd = BufReader::new(std::fs::File::open(file).expect("case file"));
    let out = std::io::stdout();
    let mut out = out.lock();
    for (i, line) in rd.lines().enumerate() {
        let line = line.unwrap();
        if i < start || line.is_empty() {
            continue;
        }
        let mut parts = line.split('\t');
        let id = parts.next().unwrap();
        let fs: Vec<&str> = parts.collect();
        let rec = f(&fs);
        writeln!(out, "{}\t{}", id, rec).unwrap();
        out.flush().unwrap();
    }
}

fn main() {
    let args: Vec<String> = std::env::args().collect();
    if args.len() >= 5 && args[1] == "--worker" {
        worker(&args[2], &args[3], args[4].parse().unwrap());
        return;
    }
    if args.len() < 3 {
        eprintln!("usage: verif-harness <stream> <casefile>");
        std::process::exit(2);
    }
    let stream = args[1].clone();
    let file = args[2].clone();
    if stream_fn(&stream).is_none() {
        eprintln!("unknown stream {}", stream);
        std::process::exit(2);
    }
    let budget = Duration::from_millis(
        std::env::var("VERIF_CASE_MS").ok().and_then(|s| s.parse().ok()).unwrap_or(4000),
    );
    let ids: Vec<String> = BufReader::new(std::fs::File::open(&file).expect("case file"))
        .lines()
        .map(|l| l.unwrap().split('\t').next().unwrap_or("").to_string())
        .collect();
    let exe = std::env::current_exe().unwrap();
    let out = std::io::stdout();
    let mut out = out.lock();
    let max_hangs: usize = std::env::var("VERIF_MAX_HANGS").ok().and_then(|s| s.parse().ok()).unwrap_or(3);
    let mut hangs = 0usize;
    let mut next = 0usize; // index of the next line whose record we expect
    while next < ids.len() {
        if hangs >= max_hangs {
            // enough evidence: do not spend the time budget of every remaining case
            if !ids[next].is_empty() {
                writeln!(out, "{}\tSKIPPED", ids[next]).unwrap();
            }
            next += 1;
            continue;
        }
        // skip empty lines
        if ids[next].is_empty() {
            next += 1;
            continue;
        }
        // the worker runs under an address-space limit: a non-terminating case that allocates without
        // bound is stopped by the allocator (abort) instead of exhausting the machine
        let mut child = Command::new("sh")
            .arg("-c")
            .arg("ulimit -v 3000000; exec \"$0\" \"$@\"")
            .arg(&exe)
            .args(["--worker", &stream, &file, &next.to_string()])
            .stdout(Stdio::piped())
            .stderr(Stdio::null())
            .spawn()
            .expect("spawn worker");
        let stdout = child.stdout.take().unwrap();
        let (tx, rx) = mpsc::channel::<String>();
        let t = std::thread::spawn(move || {
            for l in BufReader::new(stdout).lines() {
                match l {
                    Ok(l) => {
                        if tx.send(l).is_err() {
                            break;
                        }
                    }
                    Err(_) => break,
                }
            }
        });
        loop {
            match rx.recv_timeout(budget) {
                Ok(l) => {
                    writeln!(out, "{}", l).unwrap();
                    next += 1;
                    while next < ids.len() && ids[next].is_empty() {
                        next += 1;
                    }
                }
                Err(mpsc::RecvTimeoutError::Timeout) => {
                    let _ = child.kill();
                    writeln!(out, "{}\tHANG", ids[next]).unwrap();
                    hangs += 1;
                    next += 1;
                    break;
                }
                Err(mpsc::RecvTimeoutError::Disconnected) => {
                    // worker ended: normally (all done) or abnormally (abort / OOM / stack overflow)
                    let _ = child.wait();
                    if next < ids.len() {
                        writeln!(out, "{}\tABORT", ids[next]).unwrap();
                        hangs += 1;
                        next += 1;
                    }
                    break;
                }
            }
        }
        let _ = child.kill();
        let _ = child.wait();
        let _ = t.join();
    }
    out.flush().unwrap();
}
