//! Streams about the deb822 lossless/lossy readers.
use crate::util::*;
use deb822_lossless::{Deb822, Paragraph};
use std::str::FromStr;

fn depth(n: &rowan::SyntaxNode<deb822_lossless::lossless::Lang>) -> usize {
    1 + n.children().map(|c| depth(&c)).max().unwrap_or(0)
}

pub fn items_s(p: &Paragraph) -> String {
    p.items()
        .map(|(k, v)| format!("{}={}", hex(&k), hex(&v)))
        .collect::<Vec<_>>()
        .join(",")
}
pub fn doc_items_s(d: &Deb822) -> String {
    d.paragraphs().map(|p| format!("[{}]", items_s(&p))).collect::<Vec<_>>().join("")
}

pub fn deb822_parse(fs: &[&str]) -> String {
    let s = unhex(fs[0]);
    let s1 = s.clone();
    let lx = guard(move || {
        deb822_lossless::verif_lex(&s1, true)
            .iter()
            .map(|(k, t)| format!("{}:{}", k, hex(t)))
            .collect::<Vec<_>>()
            .join(",")
    });
    let s2 = s.clone();
    let rel = guard(move || {
        let (d, errs) = Deb822::from_str_relaxed(&s2);
        use rowan::ast::AstNode;
        format!(
            "text={}|nerr={}|depth={}|paras={}",
            hex(&d.to_string()),
            errs.len(),
            depth(d.syntax()),
            doc_items_s(&d)
        )
    });
    let s3 = s.clone();
    let strict = guard(move || match Deb822::from_str(&s3) {
        Ok(d) => format!("OK:{}:{}", hex(&d.to_string()), doc_items_s(&d)),
        Err(_) => "ERR".to_string(),
    });
    let s4 = s.clone();
    let rd = guard(move || match Deb822::read(s4.as_bytes()) {
        Ok(d) => format!("OK:{}", hex(&d.to_string())),
        Err(_) => "ERR".to_string(),
    });
    let s5 = s.clone();
    let rdr = guard(move || match Deb822::read_relaxed(s5.as_bytes()) {
        Ok((d, errs)) => format!("{}:{}", hex(&d.to_string()), errs.len()),
        Err(_) => "ERR".to_string(),
    });
    // blex: the same token list; the model side prints its byte-level lexer there
    format!("lex={}|blex={}|{}|strict={}|read={}|readr={}", lx, lx, rel, strict, rd, rdr)
}

/// stream deb822-doc: fields = [hex text; doc encoding (model side only); hex probe key]
pub fn deb822_doc(fs: &[&str]) -> String {
    let s = unhex(fs[0]);
    let k = unhex(fs[2]);
    guard(move || {
        let strict = match Deb822::from_str(&s) {
            Ok(d) => d,
            Err(_) => return "strict=ERR".to_string(),
        };
        let first = match Paragraph::from_str(&s) {
            Ok(p) => format!("OK:{}", items_s(&p)),
            Err(_) => "ERR".to_string(),
        };
        let look = strict
            .paragraphs()
            .map(|p| {
                format!(
                    "keys={};get={};all={};has={}",
                    p.keys().map(|x| hex(&x)).collect::<Vec<_>>().join(","),
                    opt_hex(p.get(&k).as_deref()),
                    p.get_all(&k).map(|x| hex(&x)).collect::<Vec<_>>().join(","),
                    b(p.contains_key(&k))
                )
            })
            .collect::<Vec<_>>()
            .join("/");
        format!("strict=OK:{}|first={}|look={}", doc_items_s(&strict), first, look)
    })
}

pub fn streams() -> Vec<(&'static str, crate::StreamFn)> {
    vec![
        ("deb822-parse", deb822_parse as crate::StreamFn),
        ("deb822-reject", deb822_parse as crate::StreamFn),
        ("deb822-doc", deb822_doc as crate::StreamFn),
    ]
}
