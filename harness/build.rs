// Generates the stream registry from src/s_*.rs: every such file exports
// `pub fn streams() -> Vec<(&'static str, crate::StreamFn)>`.
use std::io::Write;
fn main() {
    let mut mods: Vec<String> = std::fs::read_dir("src")
        .unwrap()
        .filter_map(|e| {
            let n = e.unwrap().file_name().into_string().unwrap();
            if n.starts_with("s_") && n.ends_with(".rs") {
                Some(n[..n.len() - 3].to_string())
            } else {
                None
            }
        })
        .collect();
    mods.sort();
    let out = std::path::Path::new(&std::env::var("OUT_DIR").unwrap()).join("registry.rs");
    let mut f = std::fs::File::create(out).unwrap();
    // the directory of THIS build (not the one the build script was first compiled in: a copied
    // target directory would otherwise keep compiling the sources of the original checkout)
    let here = std::env::var("CARGO_MANIFEST_DIR").unwrap();
    for m in &mods {
        writeln!(f, "#[path = \"{}/src/{}.rs\"] mod {};", here, m, m).unwrap();
    }
    writeln!(f, "pub fn all_streams() -> Vec<(&'static str, StreamFn)> {{ let mut v = Vec::new();").unwrap();
    for m in &mods {
        writeln!(f, "v.extend({}::streams());", m).unwrap();
    }
    writeln!(f, "v }}").unwrap();
    println!("cargo:rerun-if-changed=src");
}
