(* Store-level model of the editing API of /repo/src/lossless.rs over rowan 0.16.1 mutable trees:

     Deb822::{new, paragraphs().nth(i), add_paragraph, insert_paragraph, remove_paragraph,
              convert_index, delete_trailing_space, insert_empty_paragraph}, FromIterator<Paragraph>,
     Paragraph::{new, set, insert, remove, rename}, FromIterator<(K, V)>, Entry::{new, detach},
     and the helper ensure_trailing_newline.

   coq/model/Deb822Edit.v models the same functions as PURE functions of the document tree (an
   edit through a paragraph handle is written as an update of the n-th paragraph of the root).
   This file models what the code actually manipulates: rowan's red layer, as the code
   experiences it (all read off rowan-0.16.1/src/cursor.rs).  A STORE of trees and HANDLES (tree
   id, path from the root of that tree); every live handle sits in a register and every mutation
   re-bases all registers, which gives handles the identity semantics of rowan::SyntaxNode /
   SyntaxToken (a handle denotes a node, not a position).
    (i)   Every tree of this API is created with SyntaxNode::new_root_mut: all trees are mutable.
    (ii)  children()/children_with_tokens() are lazy: the iterator keeps the node it yielded last
          and asks THAT node for its next sibling; a detached node has none.  So detaching the
          node an iteration stands on ends the iteration.  Hence splice_children(lo..hi, new)
          detaches only child [lo] of a non-empty range [m_splice], and delete_trailing_space
          removes at most one blank line.
    (iii) NodeData::detach turns the node into the root of a tree of its own (keeping a stale index
          cell [s_ridx]); handles to it and below it follow it [rebase_detach]; the following
          siblings' indices move down by one.
    (iv)  SyntaxNode::attach_child(index, child) detaches the child first, then links it as child
          [index] (Vec::splice on the green children: index > len panics, Panic 32); handles to
          the child follow it into the parent's tree [rebase_attach]: a node spliced into a tree
          is part of it, which is why the Paragraph returned by add/insert_paragraph edits the
          document.
    (v)   No operation of this API re-roots `self` (no `self.0 = SyntaxNode::new_root_mut(..)`):
          all edits are in place.  (Unlike debian-control/src/lossless/relations.rs, RelEdit.v.)
    (vi)  index() of an attached node is its current position among children_with_tokens().
   Green-level code (GreenNodeBuilder, inject) is pure tree construction.

   Handles a client can hold: ONE Deb822 (it is not Clone; register 0) and any number of
   Paragraph handles (paragraphs() makes a new handle to the same node at every call; add/insert
   return one; Paragraph::new / FromIterator make free-standing ones): registers 1, 2, ...
   A small register machine [hop] lets a history say through WHICH handle, obtained WHEN, every
   edit goes.

   Panic 32: attach beyond the end.  Err codes 90-97 mark states the model itself does not cover.
   No proofs in this file. *)
From V.model Require Import Base Deb822Lex Deb822Parse Deb822Edit.

(* ------------------------------------------------------------------ lists *)
Fixpoint upd_nth {A} (i : nat) (f : A -> A) (l : list A) : list A :=
  match l, i with
  | [], _ => []
  | x :: r, O => f x :: r
  | x :: r, S i' => x :: upd_nth i' f r
  end.
Definition set_nth {A} (i : nat) (x : A) (l : list A) : list A := upd_nth i (fun _ => x) l.
Fixpoint split_last {A} (l : list A) : option (list A * A) :=
  match l with
  | [] => None
  | x :: r => match split_last r with
              | Some (p, y) => Some (x :: p, y)
              | None => Some ([], x)
              end
  end.
Fixpoint strip_prefix (p q : list nat) : option (list nat) :=
  match p, q with
  | [], _ => Some q
  | a :: p', b :: q' => if a =? b then strip_prefix p' q' else None
  | _ :: _, [] => None
  end.
Fixpoint find_index {A} (p : A -> bool) (l : list A) : option nat :=
  match l with
  | [] => None
  | x :: r => if p x then Some 0 else option_map S (find_index p r)
  end.
(* the positions of all elements satisfying p, in order *)
Fixpoint indices_of {A} (p : A -> bool) (l : list A) (i : nat) : list nat :=
  match l with
  | [] => []
  | x :: r => if p x then i :: indices_of p r (S i) else indices_of p r (S i)
  end.

(* ------------------------------------------------------------------ paths in a tree *)
Fixpoint get_path (t : tree) (p : list nat) : option tree :=
  match p with
  | [] => Some t
  | i :: r => match nth_error (children t) i with
              | Some c => get_path c r
              | None => None
              end
  end.
Fixpoint upd_path (t : tree) (p : list nat) (f : tree -> tree) : tree :=
  match p with
  | [] => f t
  | i :: r => match t with
              | Node k cs => Node k (upd_nth i (fun c => upd_path c r f) cs)
              | Tok _ _ => t
              end
  end.
Definition set_children (cs : list tree) (n : tree) : tree := Node (ekind n) cs.

(* ------------------------------------------------------------------ the store *)
Record hnd := mk_hnd { h_tid : nat; h_path : list nat }.
Record slot := mk_slot {
  s_ridx : nat;        (* the index cell of the root node: 0, or stale after a detach *)
  s_tree : tree }.
Record state := mk_state { trees : list slot; regs : list (option hnd) }.

Definition M (A : Type) : Type := state -> res (A * state).
Definition ret {A} (a : A) : M A := fun s => Ok (a, s).
Definition mbind {A B} (m : M A) (f : A -> M B) : M B :=
  fun s => match m s with
           | Ok (a, s') => f a s'
           | Err e => Err e | Panic n => Panic n | OutOfFuel => OutOfFuel
           end.
Notation "x <- m ;; f" := (mbind m (fun x => f)) (at level 61, m at next level, right associativity).
Notation "m1 ;; m2" := (mbind m1 (fun _ => m2)) (at level 61, right associativity).
Definition merr {A} (e : N) : M A := fun _ => Err e.
Definition mpanic {A} (n : N) : M A := fun _ => Panic n.

(* registers *)
Fixpoint set_reg_l (r : nat) (o : option hnd) (l : list (option hnd)) : list (option hnd) :=
  match r, l with
  | O, [] => [o]
  | O, _ :: t => o :: t
  | S r', [] => None :: set_reg_l r' o []
  | S r', x :: t => x :: set_reg_l r' o t
  end.
Definition reg_opt (r : nat) : M (option hnd) :=
  fun s => Ok (match nth_error (regs s) r with Some o => o | None => None end, s).
Definition get_reg (r : nat) : M hnd :=
  o <- reg_opt r ;; match o with Some h => ret h | None => merr 90 end.
Definition set_reg (r : nat) (o : option hnd) : M unit :=
  fun s => Ok (tt, mk_state (trees s) (set_reg_l r o (regs s))).
(* a temporary register for a handle that has to survive a mutation *)
Definition push_tmp (h : hnd) : M nat :=
  fun s => Ok (length (regs s), mk_state (trees s) (regs s ++ [Some h])).
Fixpoint push_tmps (hs : list hnd) : M (list nat) :=
  match hs with
  | [] => ret []
  | h :: r => k <- push_tmp h ;; ks <- push_tmps r ;; ret (k :: ks)
  end.
Definition scoped {A} (m : M A) : M A :=
  fun s => match m s with
           | Ok (a, s') => Ok (a, mk_state (trees s') (firstn (length (regs s)) (regs s')))
           | Err e => Err e | Panic n => Panic n | OutOfFuel => OutOfFuel
           end.

(* trees *)
Definition get_slot (tid : nat) : M slot :=
  fun s => match nth_error (trees s) tid with Some sl => Ok (sl, s) | None => Err 91%N end.
Definition node_of (h : hnd) : M tree :=
  sl <- get_slot (h_tid h) ;;
  match get_path (s_tree sl) (h_path h) with Some t => ret t | None => merr 92 end.
Definition node_of_reg (r : nat) : M tree := h <- get_reg r ;; node_of h.
Definition children_of (h : hnd) : M (list tree) := n <- node_of h ;; ret (children n).
(* SyntaxNode::new_root_mut(green) *)
Definition alloc (t : tree) : M hnd :=
  fun s => Ok (mk_hnd (length (trees s)) [], mk_state (trees s ++ [mk_slot 0 t]) (regs s)).
Definition child_h (h : hnd) (i : nat) : hnd := mk_hnd (h_tid h) (h_path h ++ [i]).
(* parent() together with index() *)
Definition parent_h (h : hnd) : option (hnd * nat) :=
  match split_last (h_path h) with
  | Some (pp, i) => Some (mk_hnd (h_tid h) pp, i)
  | None => None
  end.

Definition rebase_detach (tid : nat) (pp : list nat) (i newtid : nat) (g : hnd) : hnd :=
  if h_tid g =? tid then
    match strip_prefix pp (h_path g) with
    | Some (j :: rest) =>
        if j =? i then mk_hnd newtid rest
        else if i <? j then mk_hnd tid (pp ++ (j - 1) :: rest)
        else g
    | _ => g
    end
  else g.
Definition rebase_attach (ptid : nat) (pp : list nat) (idx ctid : nat) (g : hnd) : hnd :=
  if h_tid g =? ctid then mk_hnd ptid (pp ++ idx :: h_path g)
  else if h_tid g =? ptid then
    match strip_prefix pp (h_path g) with
    | Some (j :: rest) => if idx <=? j then mk_hnd ptid (pp ++ S j :: rest) else g
    | _ => g
    end
  else g.

(* SyntaxNode::detach / SyntaxToken::detach (iii); a root stays what it is *)
Definition detach_h (h : hnd) : M hnd :=
  sl <- get_slot (h_tid h) ;;
  match parent_h h with
  | None => ret h
  | Some (ph, i) =>
    n <- node_of h ;;
    fun s =>
      let newtid := length (trees s) in
      let t' := upd_path (s_tree sl) (h_path ph) (fun p => set_children (delete_at i (children p)) p) in
      Ok (mk_hnd newtid [],
          mk_state (set_nth (h_tid h) (mk_slot (s_ridx sl) t') (trees s) ++ [mk_slot i n])
                   (map (option_map (rebase_detach (h_tid h) (h_path ph) i newtid)) (regs s)))
  end.
Definition m_detach (r : nat) : M unit := h <- get_reg r ;; _ <- detach_h h ;; ret tt.

(* NodeData::attach_child of a parentless child (iv) *)
Definition attach_h (ph : hnd) (idx : nat) (ch : hnd) : M unit :=
  psl <- get_slot (h_tid ph) ;;
  csl <- get_slot (h_tid ch) ;;
  match h_path ch with
  | _ :: _ => merr 93
  | [] =>
    if h_tid ph =? h_tid ch then merr 97 else
    pn <- node_of ph ;;
    if negb (is_node pn) then merr 94 else
    if length (children pn) <? idx then mpanic 32 else
    fun s =>
      let t' := upd_path (s_tree psl) (h_path ph)
                  (fun p => set_children (insert_at idx [s_tree csl] (children p)) p) in
      Ok (tt, mk_state (set_nth (h_tid ch) (mk_slot 0 (Node ROOT []))
                          (set_nth (h_tid ph) (mk_slot (s_ridx psl) t') (trees s)))
                       (map (option_map (rebase_attach (h_tid ph) (h_path ph) idx (h_tid ch))) (regs s)))
  end.
(* SyntaxNode::attach_child(index, child): child.detach() first *)
Definition m_attach_child (pr idx cr : nat) : M unit :=
  ch <- get_reg cr ;; _ <- detach_h ch ;;
  ph <- get_reg pr ;; ch' <- get_reg cr ;; attach_h ph idx ch'.
Fixpoint m_attach_all (pr idx : nat) (crs : list nat) : M unit :=
  match crs with
  | [] => ret tt
  | cr :: rest => m_attach_child pr idx cr ;; m_attach_all pr (S idx) rest
  end.
(* SyntaxNode::splice_children(lo..hi, new) (ii) *)
Definition m_splice (pr lo hi : nat) (crs : list nat) : M unit :=
  ph <- get_reg pr ;;
  cs <- children_of ph ;;
  (if (lo <? hi) && (lo <? length cs) then _ <- detach_h (child_h ph lo) ;; ret tt else ret tt) ;;
  m_attach_all pr lo crs.

(* ------------------------------------------------------------------ ensure_trailing_newline *)
(* node.last_token(): the path, below the node, of the last token of its text; None when the
   chain of last children ends in a node without children *)
Fixpoint last_token_path (t : tree) : option (list nat) :=
  match t with
  | Tok _ _ => Some []
  | Node _ cs =>
    match (fix go (l : list tree) : option (list nat) :=
             match l with
             | [] => None
             | [x] => last_token_path x
             | _ :: r => go r
             end) cs with
    | Some p => Some ((length cs - 1) :: p)
    | None => None
    end
  end.
Definition newline_line : tree := Node EMPTY_LINE [Tok NEWLINE [10%N]].
(* fn ensure_trailing_newline(node): the new NEWLINE token is the first token of a new
   EMPTY_LINE tree; splice_children detaches it from there and attaches it after [last] *)
Definition ensure_trailing_newline (r : nat) : M unit :=
  h <- get_reg r ;; n <- node_of h ;;
  match n with
  | Tok _ _ => ret tt
  | Node _ _ =>
    match last_token_path n with
    | None => ret tt
    | Some p =>
      let lh := mk_hnd (h_tid h) (h_path h ++ p) in
      last <- node_of lh ;;
      if kind_eqb (ekind last) NEWLINE then ret tt else
      match parent_h lh with
      | None => merr 95
      | Some (ph, i) =>
        scoped (
          nl <- alloc newline_line ;;
          rn <- push_tmp (child_h nl 0) ;; rp <- push_tmp ph ;;
          m_splice rp (S i) (S i) [rn])
      end
    end
  end.

(* ------------------------------------------------------------------ Entry, Paragraph *)
(* Entry::new(key, value): a new tree *)
Definition entry_new_m (k v : str) : M hnd := alloc (entry_new k v).
(* Paragraph::new() / FromIterator<(K, V)> *)
Definition paragraph_new_m (l : list (str * str)) : M hnd := alloc (paragraph_of_pairs l).

(* Paragraph::insert *)
Definition paragraph_insert (r : nat) (k v : str) : M unit :=
  scoped (
    e <- entry_new_m k v ;; re <- push_tmp e ;;
    ensure_trailing_newline r ;;
    h <- get_reg r ;; cs <- children_of h ;;
    m_splice r (length cs) (length cs) [re]).
(* Paragraph::set: the new entry is built first; the first entry with that key is replaced in
   place, or else the entry is appended *)
Definition paragraph_set (r : nat) (k v : str) : M unit :=
  scoped (
    e <- entry_new_m k v ;; re <- push_tmp e ;;
    h <- get_reg r ;; cs <- children_of h ;;
    match find_index (entry_has_key k) cs with
    | Some i => m_splice r i (S i) [re]
    | None =>
      ensure_trailing_newline r ;;
      h' <- get_reg r ;; cs' <- children_of h' ;;
      m_splice r (length cs') (length cs') [re]
    end).
(* Paragraph::rename *)
Definition paragraph_rename (r : nat) (old new : str) : M bool :=
  scoped (
    h <- get_reg r ;; cs <- children_of h ;;
    match find_index (entry_has_key old) cs with
    | Some i =>
      match nth_error cs i with
      | None => merr 96
      | Some e =>
        ne <- entry_new_m new (entry_value e) ;; re <- push_tmp ne ;;
        m_splice r i (S i) [re] ;; ret true
      end
    | None => ret false
    end).
(* Paragraph::remove: the matching entries are collected first, then detached one by one *)
Fixpoint detach_regs (rs : list nat) : M unit :=
  match rs with
  | [] => ret tt
  | r :: rest => m_detach r ;; detach_regs rest
  end.
Definition paragraph_remove (r : nat) (k : str) : M unit :=
  scoped (
    h <- get_reg r ;; cs <- children_of h ;;
    tmps <- push_tmps (map (child_h h) (indices_of (entry_has_key k) cs 0)) ;;
    detach_regs tmps).

(* ------------------------------------------------------------------ Deb822 *)
(* Deb822::new / FromIterator<Paragraph> (inject copies the paragraphs into a new tree) *)
Definition deb822_new_m (ps : list tree) : M hnd := alloc (deb822_of_paragraphs ps).
(* d.paragraphs().nth(i) *)
Definition nth_paragraph (r i : nat) : M (option hnd) :=
  h <- get_reg r ;; cs <- children_of h ;;
  ret (match para_slot i cs 0 with Some s => Some (child_h h s) | None => None end).

(* fn insert_empty_paragraph(&mut self, index: Option<usize>) -> Paragraph; the result handle is
   left in register dst *)
Definition insert_block (r : nat) (index : option nat) (dst : nat) (cs : list tree) : M unit :=
  scoped (
    rp <- (ph <- get_reg dst ;; push_tmp ph) ;;
    (* to_insert; paragraph.0.clone() is the same node as [dst] *)
    blank <- (if 0 <? count_nodes cs then b <- alloc blank_line_node ;; rb <- push_tmp b ;; ret [rb] else ret []) ;;
    match index with
    | Some i => m_splice r i i (rp :: blank)
    | None => m_splice r (count_nodes cs) (count_nodes cs) (blank ++ [rp])
    end).
Definition insert_empty_paragraph_m (r : nat) (index : option nat) (dst : nat) : M unit :=
  p <- paragraph_new_m [] ;;
  set_reg dst (Some p) ;;
  (match index with None => ensure_trailing_newline r | Some _ => ret tt end) ;;
  h <- get_reg r ;; cs <- children_of h ;;
  insert_block r index dst cs.
Definition add_paragraph_m (r dst : nat) : M unit := insert_empty_paragraph_m r None dst.
Definition insert_paragraph_m (r index dst : nat) : M unit :=
  h <- get_reg r ;; cs <- children_of h ;;
  insert_empty_paragraph_m r (convert_index cs index) dst.
(* fn delete_trailing_space(&self, start): the loop ends with the node it detached (ii) *)
Definition delete_trailing_space_m (r start : nat) : M unit :=
  h <- get_reg r ;; cs <- children_of h ;;
  match nth_error cs start with
  | Some x => if kind_eqb (ekind x) EMPTY_LINE then m_splice r start (S start) [] else ret tt
  | None => ret tt
  end.
(* Deb822::remove_paragraph *)
Definition remove_paragraph_m (r index : nat) : M unit :=
  o <- nth_paragraph r index ;;
  match o with
  | None => ret tt
  | Some ph =>
    match parent_h ph with
    | None => merr 95
    | Some (_, i) => m_splice r i (S i) [] ;; delete_trailing_space_m r i
    end
  end.

(* ------------------------------------------------------------------ the register machine *)
(* register 0: the Deb822; paragraph register k is register S k *)
Definition preg (k : nat) : nat := S k.
Inductive hop : Type :=
| HPara (dst i : nat)                       (* dst = d.paragraphs().nth(i) *)
| HNewPara (dst : nat) (l : list (str * str)) (* dst = a free-standing paragraph built from pairs *)
| HSet (k : nat) (key v : str) | HInsert (k : nat) (key v : str)
| HRemove (k : nat) (key : str) | HRename (k : nat) (old new : str)
| HAdd (dst : nat) | HInsertP (dst i : nat) | HRemoveP (i : nat).

(* outcome: 0 done  1 skipped (empty register)  2 renamed  3 not found  4 got a handle  5 no such paragraph *)
Definition with_para (k : nat) (m : M N) : M N :=
  o <- reg_opt (preg k) ;; match o with Some _ => m | None => ret 1%N end.
Definition run_hop (o : hop) : M N :=
  match o with
  | HPara dst i => h <- nth_paragraph 0 i ;; set_reg (preg dst) h ;; ret (match h with Some _ => 4%N | None => 5%N end)
  | HNewPara dst l => h <- paragraph_new_m l ;; set_reg (preg dst) (Some h) ;; ret 4%N
  | HSet k key v => with_para k (paragraph_set (preg k) key v ;; ret 0%N)
  | HInsert k key v => with_para k (paragraph_insert (preg k) key v ;; ret 0%N)
  | HRemove k key => with_para k (paragraph_remove (preg k) key ;; ret 0%N)
  | HRename k old new => with_para k (b <- paragraph_rename (preg k) old new ;; ret (if b then 2%N else 3%N))
  | HAdd dst => add_paragraph_m 0 (preg dst) ;; ret 0%N
  | HInsertP dst i => insert_paragraph_m 0 i (preg dst) ;; ret 0%N
  | HRemoveP i => remove_paragraph_m 0 i ;; ret 0%N
  end.
Fixpoint run_hops (ops : list hop) (s : state) : res state :=
  match ops with
  | [] => Ok s
  | o :: rest => match run_hop o s with
                 | Ok (_, s') => run_hops rest s'
                 | Err e => Err e | Panic n => Panic n | OutOfFuel => OutOfFuel
                 end
  end.

(* the initial document: Deb822::new() / from_str_relaxed(text) / FromIterator of paragraphs
   built from pairs; [nregs] paragraph registers, all empty *)
Inductive dinit : Type := DNew | DParse (s : str) | DPairs (l : list (list (str * str))).
Definition init_tree (i : dinit) : res tree :=
  match i with
  | DNew => Ok (deb822_of_paragraphs [])
  | DParse s => match from_str_relaxed s with
                | Ok (t, _) => Ok t
                | Err e => Err e | Panic n => Panic n | OutOfFuel => OutOfFuel
                end
  | DPairs l => Ok (deb822_of_paragraphs (map paragraph_of_pairs l))
  end.
Definition start_state (t : tree) (nregs : nat) : state :=
  mk_state [mk_slot 0 t] (Some (mk_hnd 0 []) :: repeat None nregs).
Definition init_state (i : dinit) (nregs : nat) : res state :=
  match init_tree i with
  | Ok t => Ok (start_state t nregs)
  | Err e => Err e | Panic n => Panic n | OutOfFuel => OutOfFuel
  end.

(* observations: Deb822::to_string(), and Paragraph::to_string() through a register *)
Definition root_tree (s : state) : res tree :=
  match node_of_reg 0 s with
  | Ok (n, _) => Ok n
  | Err e => Err e | Panic n => Panic n | OutOfFuel => OutOfFuel
  end.
Definition reg_tree (k : nat) (s : state) : option tree :=
  match nth_error (regs s) (preg k) with
  | Some (Some h) => match node_of h s with Ok (n, _) => Some n | _ => None end
  | _ => None
  end.
