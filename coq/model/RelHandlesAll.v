(* (The mirror of RelHandles.v for the LIBERAL development, RelLiveAll.v: the content is a list of
   RelEdit.relrec records, the list model is RelEditSpec.astep, operands may be built by
   RelationBuilder — so that the handle theorems start from ANY text read without error.)

   Handles obtained at ANY earlier time: the abstract reading of a program of the register machine
   of RelEdit.v (the operations of debian-control/src/lossless/relations.rs issued through
   arbitrary registers, as the rel-edit stream does) on the LIST MODEL.

   With proposed_fixes/C11-10 every editing operation mutates the tree in place, so an Entry or
   Relation handle taken at any time keeps denoting its entry / alternative while other edits go
   on around it.  Here a register holds a REFERENCE: the root, the i-th entry, the j-th alternative
   of the i-th entry, a freshly built operand, or a node that has left the field (the entry or
   alternative it denoted was removed or replaced).  [h_op] says what every operation does to the
   content (one step of RelLive.xstep, or nothing) and to every reference (positions shift when
   an entry or alternative is inserted or removed in front).  proofs/RelHandlesP.v shows that the
   machine (variant fixed) refines this.  Definitions only.

   Scope ([h_op] = None otherwise): operands are built by Entry::from(vec![..]) of relations built by
   Relation::new(..) / RelationBuilder, or obtained by PARSING (Entry::from_str / Relation::from_str of
   any text they accept and whose accessors do not panic: the handle then points INTO the parsed
   tree), and handed over as built; an operation is not issued through a register
   whose node has left the field, nor through a handle into an operand; positions that make the
   code panic (replace / remove_entry / Entry::replace / remove_relation out of range) are out
   of scope as in RelLive.x_in_range. *)
From V.model Require Import Base RelLex RelParse RelAcc RelGrammar.
From V.model Require Import RelEdit RelEditSpec RelEditTree RelLiveAll.

Inductive ref : Type :=
| Root
| ELive (i : nat)                  (* the i-th entry of the field *)
| RLive (i j : nat)                (* the j-th alternative of the i-th entry *)
| ENew (e : list relrec)           (* Entry::from(vec![Relation::new(..), ..]), not yet handed over *)
| RNew (r : relrec)                (* Relation::new(..), not yet handed over *)
| Gone                             (* a node that is no longer part of the field *)
| EParsed (e : list relrec)        (* Entry::from_str(..), not yet handed over: its content *)
| RParsed (r : relrec).            (* Relation::from_str(..), not yet handed over: its content *)

Record hstate := mk_hstate {
  h_f : lfield;                    (* the content: RelLiveAll.lcontent *)
  h_reg : nat -> option ref        (* what every register of the machine holds *)
}.

Definition upd (q : nat) (x : option ref) (h : nat -> option ref) : nat -> option ref :=
  fun q' => if q' =? q then x else h q'.
Definition remap (phi : ref -> ref) (h : nat -> option ref) : nat -> option ref :=
  fun q => option_map phi (h q).

(* ------------------------------------------------------------------ how positions move *)
(* an entry inserted in front of position p *)
Definition ins_ref (p : nat) (x : ref) : ref :=
  match x with
  | ELive i => ELive (if p <=? i then S i else i)
  | RLive i j => RLive (if p <=? i then S i else i) j
  | _ => x
  end.
(* entry p removed *)
Definition del_entry_ref (p : nat) (x : ref) : ref :=
  match x with
  | ELive i => if i =? p then Gone else ELive (if p <? i then i - 1 else i)
  | RLive i j => if i =? p then Gone else RLive (if p <? i then i - 1 else i) j
  | _ => x
  end.
(* entry p replaced by another one: Relations::replace *)
Definition gone_entry_ref (p : nat) (x : ref) : ref :=
  match x with
  | ELive i => if i =? p then Gone else x
  | RLive i _ => if i =? p then Gone else x
  | _ => x
  end.
(* alternative q of entry p replaced: Entry::replace *)
Definition gone_rel_ref (p q : nat) (x : ref) : ref :=
  match x with
  | RLive i j => if (i =? p) && (j =? q) then Gone else x
  | _ => x
  end.
(* alternative q of entry p removed, others remain *)
Definition del_rel_ref (p q : nat) (x : ref) : ref :=
  match x with
  | RLive i j => if i =? p then (if j =? q then Gone else RLive i (if q <? j then j - 1 else j)) else x
  | _ => x
  end.

(* ------------------------------------------------------------------ the operands in scope *)
Definition spec_relrec (sp : relspec) : option relrec :=
  match sp with
  | RSNew n v => Some (mk_relrec n None v None [])
  | RSBuild n v q a p =>
      match q, a, p with
      | None, None, [] => None          (* (the builder with nothing but name and version: use RSNew) *)
      | _, _, _ => Some (mk_relrec n q v a p)
      end
  | _ => None
  end.
Fixpoint all_some {A} (l : list (option A)) : option (list A) :=
  match l with
  | [] => Some []
  | Some x :: r => option_map (cons x) (all_some r)
  | None :: _ => None
  end.
Definition spec_entry (sp : entryspec) : option (list relrec) :=
  match sp with
  | ESFromVec l => all_some (map spec_relrec l)
  | _ => None
  end.

(* operands obtained by parsing: what the accessors read from the one entry (with its one relation)
   of the tree the text is read to; None when from_str refuses the text or an accessor panics *)
Definition the_entry (t : rtree) : option rtree :=
  match nth_index is_entry 0 (children t), nth_index is_entry 1 (children t) with
  | Some i, None => nth_error (children t) i
  | _, _ => None
  end.
Definition parsed_entry (s : str) : option (list relrec) :=
  match relations_from_str s with
  | Ok t => match the_entry t with
            | Some e => match mapM relrec_of (relations e) with Ok rs => Some rs | _ => None end
            | None => None
            end
  | _ => None
  end.
Definition parsed_relation (s : str) : option relrec :=
  match relations_from_str s with
  | Ok t => match the_entry t with
            | Some e =>
                match nth_index is_relation 0 (children e), nth_index is_relation 1 (children e) with
                | Some j, None =>
                    match nth_error (children e) j with
                    | Some r => match relrec_of r with Ok x => Some x | _ => None end
                    | None => None
                    end
                | _, _ => None
                end
            | None => None
            end
  | _ => None
  end.

(* a step of the list model, marked with where its operand comes from: built (it has to satisfy
   RelEditSpec.wf_operands) or parsed (nothing more is asked: the text was accepted and read) *)
Inductive hstep : Type := HB (o : aop) | HP (o : aop).
Definition hs_op (s : hstep) : aop := match s with HB o | HP o => o end.
Definition hxstep (f : lfield) (s : hstep) : lfield := xstep f (hs_op s).
Definition hoperands_ok (s : hstep) : bool := match s with HB o => operands_ok o | HP _ => true end.

Definition n_alts (f : lfield) (i : nat) : nat :=
  match nth_error f i with Some e => length e | None => 0 end.

(* ------------------------------------------------------------------ one operation *)
(* the new state and the step of the list model (RelEditSpec.aop, read by RelLive.xstep) *)
Definition h_op (o : op) (a : hstate) : option (hstate * list hstep) :=
  let f := h_f a in
  let h := h_reg a in
  let stay := Some (a, []) in
  let regs (h' : nat -> option ref) := Some (mk_hstate f h', []) in
  let step (o' : aop) (h' : nat -> option ref) := Some (mk_hstate (xstep f o') h', [HB o']) in
  let stepp (o' : aop) (h' : nat -> option ref) := Some (mk_hstate (xstep f o') h', [HP o']) in
  let remove_relation (i j : nat) :=
    if j <? n_alts f i then
      step (ARemoveRelation i j) (remap (if n_alts f i =? 1 then del_entry_ref i else del_rel_ref i j) h)
    else None in
  let on_relation (m : nat) (mk : nat -> nat -> aop) :=
    match h (rreg m) with
    | None => stay
    | Some (RLive i j) => step (mk i j) h
    | _ => None
    end in
  match o with
  | OGetEntry k i => regs (upd (ereg k) (if i <? length f then Some (ELive i) else None) h)
  | OGetRel k m j =>
      match h (ereg m) with
      | None => regs (upd (rreg k) None h)
      | Some (ELive i) => regs (upd (rreg k) (if j <? n_alts f i then Some (RLive i j) else None) h)
      | _ => None
      end
  | ONewEntry k sp =>
      match spec_entry sp with
      | Some e => regs (upd (ereg k) (Some (ENew e)) h)
      | None =>
          match sp with
          | ESParse s => match parsed_entry s with Some e => regs (upd (ereg k) (Some (EParsed e)) h) | None => None end
          | _ => None
          end
      end
  | ONewRel k sp =>
      match spec_relrec sp with
      | Some r => regs (upd (rreg k) (Some (RNew r)) h)
      | None =>
          match sp with
          | RSParse s => match parsed_relation s with Some r => regs (upd (rreg k) (Some (RParsed r)) h) | None => None end
          | _ => None
          end
      end
  | OPush k =>
      match h (ereg k) with
      | None => stay
      | Some (ENew e) => step (APush e) (upd (ereg k) None h)
      | Some (EParsed e) => stepp (APush e) (upd (ereg k) None h)
      | _ => None
      end
  | OInsert i k =>
      match h (ereg k) with
      | None => stay
      | Some (ENew e) => step (AInsert i e) (upd (ereg k) None (remap (ins_ref i) h))
      | Some (EParsed e) => stepp (AInsert i e) (upd (ereg k) None (remap (ins_ref i) h))
      | _ => None
      end
  | OReplace i k =>
      match h (ereg k) with
      | None => stay
      | Some (ENew e) =>
          if i <? length f then step (AReplace i e) (upd (ereg k) None (remap (gone_entry_ref i) h)) else None
      | Some (EParsed e) =>
          if i <? length f then stepp (AReplace i e) (upd (ereg k) None (remap (gone_entry_ref i) h)) else None
      | _ => None
      end
  | ORemoveEntry i =>
      if i <? length f then step (ARemoveEntry i) (remap (del_entry_ref i) h) else None
  | OEPush k m =>
      match h (rreg m) with
      | None => stay
      | Some (RNew r) =>
          match h (ereg k) with
          | None => regs (upd (rreg m) None h)
          | Some (ELive i) => step (AEPush i r) (upd (rreg m) None h)
          | _ => None
          end
      | Some (RParsed r) =>
          match h (ereg k) with
          | None => regs (upd (rreg m) None h)
          | Some (ELive i) => stepp (AEPush i r) (upd (rreg m) None h)
          | _ => None
          end
      | _ => None
      end
  | OEReplace k j m =>
      match h (rreg m) with
      | None => stay
      | Some (RNew r) =>
          match h (ereg k) with
          | None => regs (upd (rreg m) None h)
          | Some (ELive i) =>
              if j <? n_alts f i then step (AEReplace i j r) (upd (rreg m) None (remap (gone_rel_ref i j) h))
              else None
          | _ => None
          end
      | Some (RParsed r) =>
          match h (ereg k) with
          | None => regs (upd (rreg m) None h)
          | Some (ELive i) =>
              if j <? n_alts f i then stepp (AEReplace i j r) (upd (rreg m) None (remap (gone_rel_ref i j) h))
              else None
          | _ => None
          end
      | _ => None
      end
  | OERemoveRel k j =>
      match h (ereg k) with
      | None => stay
      | Some (ELive i) => remove_relation i j
      | _ => None
      end
  | OERemove k =>
      match h (ereg k) with
      | None => stay
      | Some (ELive i) => step (ARemoveEntry i) (remap (del_entry_ref i) h)
      | _ => None
      end
  | ORRemove m =>
      match h (rreg m) with
      | None => stay
      | Some (RLive i j) => remove_relation i j
      | _ => None
      end
  | OSetVersion m v => on_relation m (fun i j => ASetVersion i j v)
  | ODropConstraint m => on_relation m ADropConstraint
  | OSetArchqual m q => on_relation m (fun i j => ASetArchqual i j q)
  | OSetArchs m l => on_relation m (fun i j => ASetArchs i j l)
  | OAddProfile m g => on_relation m (fun i j => AAddProfile i j g)
  end.

(* a whole program: the final state and the history of the list model *)
Fixpoint h_ops (ops : list op) (a : hstate) : option (hstate * list hstep) :=
  match ops with
  | [] => Some (a, [])
  | o :: rest =>
      match h_op o a with
      | Some (a1, t1) =>
          match h_ops rest a1 with
          | Some (a2, t2) => Some (a2, t1 ++ t2)
          | None => None
          end
      | None => None
      end
  end.

(* at the start only the root register is set *)
Definition h_start (f : lfield) : hstate := mk_hstate f (upd 0 (Some Root) (fun _ => None)).

(* the operations that only add: no node leaves the field (so no reference is ever Gone) *)
Definition additive (o : op) : bool :=
  match o with
  | OReplace _ _ | ORemoveEntry _ | OEReplace _ _ _ | OERemoveRel _ _ | OERemove _ | ORRemove _ => false
  | _ => true
  end.
