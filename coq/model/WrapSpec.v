(* Specification side of C07: what wrap-and-sort does, said on the abstract layouts of
   Grammar.v / LiveDoc.v (fields with explicit whitespace, items, blocks), and the vocabulary of
   the property's clauses.  Definitions only; short and meant to be read. *)
From V.model Require Import Base Deb822Lex Deb822Parse Grammar Lossy LossySpec Deb822Edit LiveDoc Deb822Wrap.

(* the layout settings of Entry/Paragraph::wrap_and_sort *)
Record wcfg := mk_wcfg { c_ind : indentation; c_iel : bool; c_mll : option N }.

(* the requested width of the continuation-line indentation *)
Definition width (c : wcfg) (name : str) : N :=
  match c_ind c with Spaces n => n | FieldNameLength => utf8_size name end.
(* "any indentation of at least one column" *)
Definition ind_ok (c : wcfg) : bool :=
  match c_ind c with Spaces n => negb (n =? 0)%N | FieldNameLength => true end.

Definition is_nil {A} (l : list A) : bool := match l with [] => true | _ => false end.

(* ---------------------------------------------------------------- one field *)
(* does "name: <w><first>" fit the one-line limit?  (lengths in bytes) *)
Definition fits (c : wcfg) (name w first : str) : bool :=
  match c_mll c with
  | Some m => (utf8_size w + utf8_size first + utf8_size name + 2 <=? m)%N
  | None => false
  end.
(* the lines of a value: its first line if that is not empty, then the continuation lines *)
Definition value_lines (first : str) (conts : list str) : list str :=
  match first with [] => conts | _ => first :: conts end.
Definition indent_lines (n : N) (ls : list str) : list (str * str) := map (fun t => (spaces n, t)) ls.

(* The layout rebuild_value gives a value with whitespace [w] after the colon, first line [first]
   and continuation lines [conts]:
   - a value without continuation lines that fits the limit is left as it is;
   - otherwise its lines are kept, every continuation line indented by the requested width, and the
     first non-empty line goes onto the field's own line after one space -- or, when an immediate
     empty line is requested for a value that had continuation lines, below it (unless it starts
     with '#': there it would be a comment). *)
Definition rebuild_field (c : wcfg) (name w first : str) (conts : list str) : field :=
  if fits c name w first && is_nil conts then mk_field name w first [] true
  else match value_lines first conts with
       | [] => mk_field name [32%N] [] [] true
       | l1 :: rest =>
         if c_iel c && negb (is_nil conts) && negb (starts_with_hash l1)
         then mk_field name [] [] (indent_lines (width c name) (l1 :: rest)) true
         else mk_field name [32%N] l1 (indent_lines (width c name) rest) true
       end.

(* the text handed to a formatter, and how its output is read: whitespace, first line, lines *)
Definition value_text (w first : str) (conts : list str) : str := w ++ first ++ flat_map (fun t => LF :: t) conts.
Definition parse_value (o : str) : str * str * list str :=
  let '(w, r) := span is_indent o in
  match split_lf r with l1 :: rest => (w, l1, rest) | [] => (w, [], []) end.
(* formatter output the theorems speak about: no CR, no line that is empty or starts with
   whitespace or '#' after the first, and some text unless it is empty altogether *)
Definition shaped (o : str) : bool :=
  let '(w, first, conts) := parse_value o in
  first_ok first && forallb canon_cont conts &&
  match first, conts with [], [] => is_nil w | _, _ => true end.

(* Entry::wrap_and_sort on a field (the whitespace after the colon of a value without any text
   is not part of the content) *)
Definition field_ws0 (f : field) : str := match f_first f, f_cont f with [], [] => [] | _, _ => f_ws f end.
Definition a_ws_field (c : wcfg) (fmt : option (str -> str -> str)) (f : field) : field :=
  match fmt with
  | None => rebuild_field c (f_name f) (field_ws0 f) (f_first f) (map snd (f_cont f))
  | Some g =>
    let '(w, first, conts) := parse_value (g (f_name f) (value_text (field_ws0 f) (f_first f) (map snd (f_cont f)))) in
    rebuild_field c (f_name f) w first conts
  end.
(* the formatter's output is shaped on this field *)
Definition fmt_shaped_on (fmt : option (str -> str -> str)) (f : field) : bool :=
  match fmt with
  | None => true
  | Some g => shaped (g (f_name f) (value_text (field_ws0 f) (f_first f) (map snd (f_cont f))))
  end.

(* ---------------------------------------------------------------- one paragraph *)
Notation comment := (str * bool)%type.     (* text after '#', is the line terminated *)
Definition comment_item (c : comment) : item := IComment (fst c) (snd c).
(* every field with the comment lines in front of it; the comment lines after the last field *)
Fixpoint group_items (its : list item) (cur : list comment) : list (list comment * field) * list comment :=
  match its with
  | [] => ([], cur)
  | IField f :: r => let '(gs, tr) := group_items r [] in ((cur, f) :: gs, tr)
  | IComment c nl :: r => group_items r (cur ++ [(c, nl)])
  end.
Definition ungroup (gs : list (list comment * field)) (tr : list comment) : list item :=
  flat_map (fun g => map comment_item (fst g) ++ [IField (snd g)]) gs ++ map comment_item tr.

Notation pair_cmp := ((str * str) -> (str * str) -> comparison).
Definition on_field (cmp : pair_cmp) (a b : list comment * field) : comparison :=
  cmp (field_pair (snd a)) (field_pair (snd b)).
(* Paragraph::wrap_and_sort: the groups are sorted (stably) as units, every field is rebuilt *)
Definition a_ws_items (c : wcfg) (ecmp : option pair_cmp) (fmt : option (str -> str -> str)) (its : list item) : list item :=
  let '(gs, tr) := group_items its [] in
  ungroup (map (fun g => (fst g, a_ws_field c fmt (snd g))) (sort_opt (option_map on_field ecmp) gs)) tr.

(* ---------------------------------------------------------------- the document *)
Notation para_cmp := (list (str * str) -> list (str * str) -> comparison).
Definition comment_block (c : comment) : lblock := LComment (fst c) (snd c).
(* every paragraph with the comment lines in front of it (blank lines are dropped); the comment
   lines after the last paragraph *)
Fixpoint group_blocks (l : ldocl) (cur : list comment) : list (list comment * list item) * list comment :=
  match l with
  | [] => ([], cur)
  | LBlank :: r => group_blocks r cur
  | LComment c nl :: r => group_blocks r (cur ++ [(c, nl)])
  | LPara its :: r => let '(gs, tr) := group_blocks r [] in ((cur, its) :: gs, tr)
  end.
Fixpoint emit_blocks (first : bool) (gs : list (list comment * list item)) : ldocl :=
  match gs with
  | [] => []
  | g :: r => (if first then [] else [LBlank]) ++ map comment_block (fst g) ++ LPara (snd g) :: emit_blocks false r
  end.
Definition on_para (cmp : para_cmp) (a b : list comment * list item) : comparison :=
  cmp (flat_map item_pairs (snd a)) (flat_map item_pairs (snd b)).
(* Deb822::wrap_and_sort: the groups are sorted (stably) as units, every paragraph goes through the
   paragraph function [pf], every line is terminated, one blank line between paragraphs *)
Definition a_ws_doc (pcmp : option para_cmp) (pf : list item -> list item) (l : ldocl) : ldocl :=
  let '(gs, tr) := group_blocks l [] in
  terminate_doc (emit_blocks true (map (fun g => (fst g, terminate_last (pf (snd g)))) (sort_opt (option_map on_para pcmp) gs))
                 ++ map comment_block tr).

(* ---------------------------------------------------------------- clauses *)
(* the value a field has afterwards: its own, or the formatter's output without the whitespace
   around it *)
Definition a_value (fmt : option (str -> str -> str)) (f : field) : str :=
  match fmt with
  | None => field_value f
  | Some g =>
    let '(_, first, conts) := parse_value (g (f_name f) (value_text (field_ws0 f) (f_first f) (map snd (f_cont f)))) in
    join [LF] (value_lines first conts)
  end.
Definition a_pair (fmt : option (str -> str -> str)) (f : field) : str * str := (f_name f, a_value fmt f).
Definition fields_of (its : list item) : list field :=
  flat_map (fun it => match it with IField f => [f] | IComment _ _ => [] end) its.
Definition on_pair (cmp : pair_cmp) (f g : field) : comparison := cmp (field_pair f) (field_pair g).
(* the content of a reformatted paragraph: fields sorted (stably, by the pairs they had), then formatted *)
Definition spec_para (ecmp : option pair_cmp) (fmt : option (str -> str -> str)) (its : list item) : list (str * str) :=
  map (a_pair fmt) (sort_opt (option_map on_pair ecmp) (fields_of its)).

(* exactly one blank line between paragraphs, none elsewhere: comment lines and the first
   paragraph; then, repeatedly, one blank line, comment lines, a paragraph; then comment lines *)
Inductive sep_state := SepStart | SepAfterPara | SepAfterBlank | SepTrailing.
Fixpoint single_blanks (st : sep_state) (l : ldocl) : bool :=
  match l with
  | [] => match st with SepAfterBlank => false | _ => true end
  | LBlank :: r => match st with SepAfterPara => single_blanks SepAfterBlank r | _ => false end
  | LComment _ _ :: r =>
    match st with
    | SepStart => single_blanks SepStart r
    | SepAfterBlank => single_blanks SepAfterBlank r
    | SepAfterPara | SepTrailing => single_blanks SepTrailing r
    end
  | LPara _ :: r =>
    match st with
    | SepStart | SepAfterBlank => single_blanks SepAfterPara r
    | _ => false
    end
  end.
(* every continuation line of every field is indented by exactly the requested width *)
Definition field_indented (c : wcfg) (f : field) : bool :=
  forallb (fun ct => str_eqb (fst ct) (spaces (width c (f_name f)))) (f_cont f).
Definition items_indented (c : wcfg) (its : list item) : bool :=
  forallb (fun it => match it with IField f => field_indented c f | IComment _ _ => true end) its.
Definition doc_indented (c : wcfg) (l : ldocl) : bool :=
  forallb (fun b => match b with LPara its => items_indented c its | _ => true end) l.

(* ---------------------------------------------------------------- the callers' closures *)
(* a formatter that returns (never panics) *)
Definition pure_fmt (g : str -> str -> str) : str -> str -> res str := fun k v => Ok (g k v).
(* the comparators depend only on field names and values: on entries ... *)
Definition ecmp_agrees (esort : option (tree -> tree -> comparison)) (ecmp : option pair_cmp) : Prop :=
  match esort, ecmp with
  | Some a, Some b => forall f g, a (field_tree f) (field_tree g) = b (field_pair f) (field_pair g)
  | None, None => True
  | _, _ => False
  end.
(* ... and on paragraphs *)
Definition pcmp_agrees (psort : option (tree -> tree -> comparison)) (pcmp : option para_cmp) : Prop :=
  match psort, pcmp with
  | Some a, Some b => forall x y, a (lblock_tree (LPara x)) (lblock_tree (LPara y)) = b (flat_map item_pairs x) (flat_map item_pairs y)
  | None, None => True
  | _, _ => False
  end.
(* the answers of a comparator do not contradict each other (every total preorder, as Vec::sort_by
   asks for, is like that; nothing more is needed for the theorems, which are about the model's
   stable insertion sort.  NOT included: transitivity.  Vec::sort_by requires a total order and may
   panic or return an unspecified order otherwise; that the insertion sort of the model is the code's
   sort holds for total preorders only -- an assumption of the cone, not a premise of the theorems) *)
Definition cmp_consistent {A} (cmp : A -> A -> comparison) : Prop := forall a b, cmp a b = Gt -> cmp b a <> Gt.
Definition pair_cmp_consistent (ecmp : option pair_cmp) : Prop :=
  match ecmp with Some e => cmp_consistent e | None => True end.
Definition para_cmp_consistent (pcmp : option para_cmp) : Prop :=
  match pcmp with Some p => cmp_consistent p | None => True end.

(* ---------------------------------------------------------------- the property, without a formatter *)
(* a parsed document as a live document *)
Definition lblock_of (b : block) : lblock :=
  match b with BBlank => LBlank | BComment c nl => LComment c nl | BPara f its => LPara (IField f :: its) end.
Definition ldoc_of (d : doc) : ldocl := map lblock_of d.

(* Deb822::wrap_and_sort(sort_paragraphs, |p| p.wrap_and_sort(indentation, immediate_empty_line,
   max_line_length_one_liner, sort_entries, format_value)) *)
Definition std_ws (V : variant) (c : wcfg) (psort esort : option (tree -> tree -> comparison))
                  (fmt : option (str -> str -> res str)) (t : tree) : res tree :=
  doc_ws V psort (Some (para_ws V (c_ind c) (c_iel c) (c_mll c) esort fmt)) t.

(* C07 for the code variant V, for every well-formed document and all settings (indentation of at
   least one column, either empty-first-line setting, any one-line limit, any comparators that
   depend only on names and values), no formatter: the reformatting succeeds; its result is the
   tree of the layout WrapSpec describes (every comment line in front of the same field or
   paragraph, groups sorted stably); the object reports the sorted content; the printed result
   parses strictly and re-reads to that content; continuation lines are indented by exactly the
   requested width; exactly one blank line separates paragraphs; a second application changes
   nothing. *)
Definition C07_full (V : variant) : Prop :=
  forall (c : wcfg) psort (pcmp : option para_cmp) esort (ecmp : option pair_cmp) (d : doc),
    ind_ok c = true -> pcmp_agrees psort pcmp -> ecmp_agrees esort ecmp ->
    pair_cmp_consistent ecmp -> para_cmp_consistent pcmp ->
    (* the paragraph comparator does not depend on the order of fields, which is being rewritten *)
    (forall a b, match pcmp with Some p => p (sort_opt ecmp a) (sort_opt ecmp b) = p a b | None => True end) ->
    wf_doc d = true ->
    let l1 := a_ws_doc pcmp (a_ws_items c ecmp None) (ldoc_of d) in
    exists t1,
      std_ws V c psort esort None (tree_of d) = Ok t1 /\
      t1 = ltree_of l1 /\
      doc_items t1 = map (sort_opt ecmp) (sort_opt pcmp (content d)) /\
      (exists t', from_str (text t1) = Ok t' /\ doc_items t' = doc_items t1) /\
      doc_indented c l1 = true /\
      single_blanks SepStart l1 = true /\
      std_ws V c psort esort None t1 = Ok t1.
