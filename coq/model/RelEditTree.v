(* The effect of every editing operation of RelEdit.v on the TREE of the field, as a pure function
   (variant [fixed], handles obtained from the current root right before the edit, as [compile]
   of RelEditSpec.v issues them).  proofs/RelEditTreeP.v shows that the register machine, started
   in any state whose root register holds a tree T, computes exactly these functions
   (Ok = no panic); proofs/RelLiveP.v evaluates them on the trees of live layouts (RelLive.v).
   Definitions only. *)
From V.model Require Import Base RelLex RelParse RelEdit RelEditSpec.

Definition replace_at {A} (i : nat) (x : A) (l : list A) : list A := firstn i l ++ x :: skipn (S i) l.

(* ------------------------------------------------------------------ the cleanup loops, as list functions *)
(* Entry::remove on the children [cs] of the entry's parent, the entry being child [i] *)
Definition entry_remove_cs (v : variant) (cs : list rtree) (i : nat) : res (list rtree) :=
  let pre := firstn i cs in
  let post := skipn (S i) cs in
  let is_first := negb (existsb (fun c => is_entry c || (fx_first_substvar v && node_is SUBSTVAR c)) pre) in
  match entry_remove_scan_next post with
  | Ok (k1, rc) =>
      if is_first then Ok (pre ++ skipn (ws_prefix_len (skipn k1 post)) (skipn k1 post))
      else Ok (firstn (i - entry_remove_scan_prev rc pre) pre ++ skipn k1 post)
  | Panic n => Panic n
  | Err e => Err e
  | OutOfFuel => OutOfFuel
  end.

(* Relation::remove on the children of the entry (the alternative itself goes too) *)
Definition relation_remove_cs (cs : list rtree) (i : nat) : res (list rtree) :=
  let pre := firstn i cs in
  let post := skipn (S i) cs in
  if negb (existsb is_relation pre) then
    match relation_remove_scan_next post with
    | Ok k => Ok (pre ++ skipn k post)
    | Panic n => Panic n
    | Err e => Err e
    | OutOfFuel => OutOfFuel
    end
  else Ok (firstn (i - relation_remove_scan_prev pre) pre ++ post).


(* the children [lo, hi) that the two removals take away (the node itself is child i) *)
Definition entry_remove_range (v : variant) (cs : list rtree) (i : nat) : nat * nat :=
  let pre := firstn i cs in
  let post := skipn (S i) cs in
  let is_first := negb (existsb (fun c => is_entry c || (fx_first_substvar v && node_is SUBSTVAR c)) pre) in
  match entry_remove_scan_next post with
  | Ok (k1, rc) =>
      if is_first then (i, S i + k1 + ws_prefix_len (skipn k1 post))
      else (i - entry_remove_scan_prev rc pre, S i + k1)
  | _ => (i, S i)
  end.
Definition relation_remove_range (cs : list rtree) (i : nat) : nat * nat :=
  let pre := firstn i cs in
  let post := skipn (S i) cs in
  if negb (existsb is_relation pre) then
    match relation_remove_scan_next post with Ok k => (i, S i + k) | _ => (i, S i) end
  else (i - relation_remove_scan_prev pre, S i).

(* ------------------------------------------------------------------ a relation's children *)
Definition set_archqual_cs (q : str) (cs : list rtree) : list rtree :=
  match find_index (node_is ARCHQUAL) cs with
  | Some i => replace_at i (archqual_node q) cs
  | None => insert_at (after_name cs) [archqual_node q] cs
  end.
Definition drop_constraint_cs (cs : list rtree) : list rtree :=
  match find_index (node_is VERSION) cs with
  | None => cs
  | Some vi => firstn (vi - ws_prefix_len (rev (firstn vi cs))) cs ++ skipn (S vi) cs
  end.
Definition set_version_cs (v : verspec) (cs : list rtree) : list rtree :=
  match v with
  | None => drop_constraint_cs cs
  | Some (vc, ver) =>
    match find_index (node_is VERSION) cs with
    | Some i => replace_at i (version_node vc ver) cs
    | None => insert_at (version_pos fixed cs) [t_space; version_node vc ver] cs
    end
  end.
Definition set_architectures_cs (archs : list str) (cs : list rtree) : list rtree :=
  match find_index (node_is ARCHITECTURES) cs with
  | Some i => replace_at i (architectures_node archs) cs
  | None => insert_at (architectures_pos cs) [t_space; architectures_node archs] cs
  end.
Definition add_profile_cs (g : list profile) (cs : list rtree) : list rtree :=
  insert_at (match last_index (node_is PROFILES) cs with Some i => S i | None => length cs end)
            [t_space; profiles_node g] cs.

(* ------------------------------------------------------------------ an entry's children *)
(* Entry::replace (fixed): the new relation without its own white space at the ends, wearing
   the white space the old relation had at its ends *)
Definition strip_ws (cs : list rtree) : list rtree :=
  let a := skipn (ws_prefix_len cs) cs in
  firstn (length a - ws_prefix_len (rev a)) a.
Definition ws_head (cs : list rtree) : list rtree := firstn (ws_prefix_len cs) cs.
Definition ws_tail (cs : list rtree) : list rtree := skipn (length cs - ws_prefix_len (rev cs)) cs.
Definition dressed (old new : rtree) : rtree :=
  set_children (ws_head (children old) ++ strip_ws (children new) ++ ws_tail (children old)) new.

(* ------------------------------------------------------------------ the field's tree *)
Definition child_at (t : rtree) (i : nat) : option rtree := nth_error (children t) i.
(* position of the i-th entry of the field, and of the j-th alternative of that entry *)
Definition entry_pos (T : rtree) (i : nat) : option nat := nth_index is_entry i (children T).
Definition rel_pos (T : rtree) (i j : nat) : option (nat * nat) :=
  match entry_pos T i with
  | Some ci => match child_at T ci with
               | Some E => match nth_index is_relation j (children E) with
                           | Some cj => Some (ci, cj)
                           | None => None
                           end
               | None => None
               end
  | None => None
  end.

Definition out_of_range {A} : res A := Err 7%N.
Definition lift_res {A B} (f : A -> B) (r : res A) : res B :=
  match r with Ok a => Ok (f a) | Err e => Err e | Panic n => Panic n | OutOfFuel => OutOfFuel end.

(* Relations::remove_entry / Entry::remove at child ci of the root *)
Definition t_remove_entry_at (T : rtree) (ci : nat) : res rtree :=
  lift_res (fun cs' => set_children cs' T) (entry_remove_cs fixed (children T) ci).

(* an edit of the children of alternative j of entry i *)
Definition t_on_relation (T : rtree) (i j : nat) (f : list rtree -> list rtree) : res rtree :=
  match rel_pos T i j with
  | Some (ci, cj) => Ok (upd_path T [ci; cj] (fun n => set_children (f (children n)) n))
  | None => out_of_range
  end.

(* Relation::remove of alternative j of entry i: the cleanup inside the entry, and the entry
   itself when no alternative is left *)
Definition t_remove_relation (T : rtree) (i j : nat) : res rtree :=
  match rel_pos T i j with
  | Some (ci, cj) =>
    match child_at T ci with
    | Some E =>
      match relation_remove_cs (children E) cj with
      | Ok cs' =>
        let T' := upd_path T [ci] (fun _ => Node ENTRY cs') in
        if count_if is_relation cs' =? 0 then t_remove_entry_at T' ci else Ok T'
      | Err e => Err e | Panic n => Panic n | OutOfFuel => OutOfFuel
      end
    | None => out_of_range
    end
  | None => out_of_range
  end.

(* the operands the constructors build *)
Definition operand_entry (e : list relrec) : rtree := centry_tree e.
Definition operand_rel (r : relrec) : rtree := crel_tree r.

Definition t_op (o : aop) (T : rtree) : res rtree :=
  match o with
  | APush e => Ok (relations_insert_green fixed T (count_if is_entry (children T)) (operand_entry e))
  | AInsert i e => Ok (relations_insert_green fixed T i (operand_entry e))
  | AReplace i e =>
      match entry_pos T i with
      | Some ci => Ok (set_children (replace_at ci (operand_entry e) (children T)) T)
      | None => Panic 40
      end
  | ARemoveEntry i =>
      match entry_pos T i with
      | Some ci => t_remove_entry_at T ci
      | None => Panic 41
      end
  | AEPush i r =>
      match entry_pos T i with
      | Some ci => Ok (upd_path T [ci] (fun E => entry_push_green E (operand_rel r)))
      | None => out_of_range
      end
  | AEReplace i j r =>
      match rel_pos T i j with
      | Some (ci, cj) => Ok (upd_path T [ci; cj] (fun old => dressed old (operand_rel r)))
      | None => match entry_pos T i with Some _ => Panic 46 | None => out_of_range end
      end
  | ARemoveRelation i j =>
      match rel_pos T i j with
      | Some _ => t_remove_relation T i j
      | None => match entry_pos T i with Some _ => Panic 48 | None => out_of_range end
      end
  | ASetVersion i j v => t_on_relation T i j (set_version_cs v)
  | ADropConstraint i j => t_on_relation T i j drop_constraint_cs
  | ASetArchqual i j q => t_on_relation T i j (set_archqual_cs q)
  | ASetArchs i j a => t_on_relation T i j (set_architectures_cs a)
  | AAddProfile i j g => t_on_relation T i j (add_profile_cs g)
  end.

(* a whole history on the tree *)
Fixpoint t_ops (ops : list aop) (T : rtree) : res rtree :=
  match ops with
  | [] => Ok T
  | o :: rest => match t_op o T with
                 | Ok T' => t_ops rest T'
                 | Err e => Err e | Panic n => Panic n | OutOfFuel => OutOfFuel
                 end
  end.

(* ------------------------------------------------------------------ operands that are nodes of other trees *)
(* the five operations that take an operand, the operand given as a tree (what the handle points
   at: for Entry::from_str / Relation::from_str a node INSIDE the tree the text parsed to) *)
Inductive top : Type :=
| TPush (E : rtree) | TInsert (i : nat) (E : rtree) | TReplace (i : nat) (E : rtree)
| TEPush (i : nat) (R : rtree) | TEReplace (i j : nat) (R : rtree).
Definition tt_op (o : top) (T : rtree) : res rtree :=
  match o with
  | TPush E => Ok (relations_insert_green fixed T (count_if is_entry (children T)) E)
  | TInsert i E => Ok (relations_insert_green fixed T i E)
  | TReplace i E =>
      match entry_pos T i with
      | Some ci => Ok (set_children (replace_at ci E (children T)) T)
      | None => Panic 40
      end
  | TEPush i R =>
      match entry_pos T i with
      | Some ci => Ok (upd_path T [ci] (fun E => entry_push_green E R))
      | None => out_of_range
      end
  | TEReplace i j R =>
      match rel_pos T i j with
      | Some (ci, cj) => Ok (upd_path T [ci; cj] (fun old => dressed old R))
      | None => match entry_pos T i with Some _ => Panic 46 | None => out_of_range end
      end
  end.

(* ------------------------------------------------------------------ operands built by RelationBuilder *)
(* the operands as trees: what the machine builds for [compile o] *)
Definition btop (o : aop) : option top :=
  match o with
  | APush e => Some (TPush (bentry_tree e))
  | AInsert i e => Some (TInsert i (bentry_tree e))
  | AReplace i e => Some (TReplace i (bentry_tree e))
  | AEPush i r => Some (TEPush i (brel_tree r))
  | AEReplace i j r => Some (TEReplace i j (brel_tree r))
  | _ => None
  end.
(* the tree function of an operation whose operands the builder built *)
Definition bt_op (o : aop) (T : rtree) : res rtree :=
  match btop o with Some t => tt_op t T | None => t_op o T end.
