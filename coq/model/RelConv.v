(* Model of the conversions between the lossy and the lossless form of a relation,
   /repo/debian-control/src/lossless/relations.rs (end of the file):

     impl From<crate::lossy::Relation> for Relation      -- through Relation::build(..)...build()
     impl From<Relation> for crate::lossy::Relation       -- through the five accessors
     impl From<Vec<crate::lossy::Relation>> for Entry     -- each relation converted, then Entry::from(Vec<Relation>)
     impl From<Entry> for Vec<crate::lossy::Relation>     -- entry.relations().map(into)

   and, composed from the public From impls (there is no direct impl in the crate), a whole field:
     Relations::from(Vec<Entry>) of the converted entries / relations.entries() converted back.

   The lossless side is NOT re-modelled here.  [to_lossless] runs cone C11's model of
   RelationBuilder::build (RelEdit.builder_build_v fixed: Relation::new, set_archqual,
   set_architectures, add_profile on rowan's mutable trees; [fixed] = /repo since 5517d72, where
   set_architectures and add_profile splice IN PLACE instead of re-rooting) on an empty store and reads the
   tree of the register it filled; the entry and field level use RelEdit.entry_from_relations
   (variant [fixed] = /repo since 40d0dc3: the '|' has kind PIPE) and RelEdit.relations_from_entries.
   [to_lossy] uses cone C10's transcription of the accessors (RelAcc.relation_name / relation_archqual /
   relation_architectures / relation_profiles); only Relation::version is transcribed again
   ([conv_version]) because the lossy value holds a debversion::Version, not its text: the version
   text (IDENT and COLON tokens of the VERSION node) goes through RelLossy.dv_parse, the model of
   debversion 0.4.4 of this cone (`version.parse().unwrap()` = Panic 12).

   No proofs in this file. *)
From V.model Require Import Base RelLex RelParse.
From V.model Require RelAcc RelEdit.
From V.model Require Import RelLossy.

(* ------------------------------------------------------------------ the three spellings of the same enums *)
Definition vcn_of (c : vconstraint) : RelEdit.vcn :=
  match c with
  | VC_ge => RelEdit.VGe | VC_le => RelEdit.VLe | VC_eq => RelEdit.VEq | VC_gt => RelEdit.VGt | VC_lt => RelEdit.VLt
  end.
Definition eprofile_of (p : bprofile) : RelEdit.profile :=
  match p with Enabled s => RelEdit.PEnabled s | Disabled s => RelEdit.PDisabled s end.
Definition lprofile_of (p : RelAcc.bprofile) : bprofile :=
  match p with RelAcc.Enabled s => Enabled s | RelAcc.Disabled s => Disabled s end.

(* builder.version_constraint(vc, version): Relation::new writes version.to_string() into one IDENT token *)
Definition verspec_of (o : option (vconstraint * dversion)) : option (RelEdit.vcn * str) :=
  match o with Some (c, v) => Some (vcn_of c, dv_print v) | None => None end.

(* ------------------------------------------------------------------ lossy -> lossless *)
(* impl From<crate::lossy::Relation> for Relation, the built relation left in register [dst] *)
Definition to_lossless_m (dst : nat) (r : relation dversion) : RelEdit.M unit :=
  RelEdit.builder_build_v RelEdit.fixed dst (r_name r) (verspec_of (r_version r)) (r_archqual r) (r_archs r)
                          (map (map eprofile_of) (r_profiles r)).

(* the same as a function to the tree: a fresh store, register 0 *)
Definition to_lossless (r : relation dversion) : res rtree :=
  match to_lossless_m 0 r RelEdit.empty_state with
  | Ok (_, s) => RelEdit.root_tree s
  | Err e => Err e | Panic n => Panic n | OutOfFuel => OutOfFuel
  end.

(* impl From<Vec<crate::lossy::Relation>> for Entry *)
Definition entry_to_lossless (e : list (relation dversion)) : res rtree :=
  bind (RelAcc.res_all to_lossless e) (fun ts => Ok (RelEdit.entry_from_relations RelEdit.fixed ts)).

(* Relations::from(entries.into_iter().map(Entry::from).collect::<Vec<Entry>>()) *)
Definition field_to_lossless (rs : list (list (relation dversion))) : res rtree :=
  bind (RelAcc.res_all entry_to_lossless rs) (fun es => Ok (RelEdit.relations_from_entries es)).

(* ------------------------------------------------------------------ lossless -> lossy *)
(* Relation::version(), as in /repo since 0eb8794: None without VERSION node, without CONSTRAINT
   node or with an empty version text; the constraint text through VersionConstraint::from_str
   (.unwrap() = Panic 11), the version text through debversion (.unwrap() = Panic 12) *)
Definition conv_version (r : rtree) : res (option (vconstraint * dversion)) :=
  match RelAcc.first_node_of_kind VERSION (children r) with
  | None => Ok None
  | Some vn =>
    match RelAcc.first_node_of_kind CONSTRAINT (children vn) with
    | None => Ok None
    | Some c =>
      match RelAcc.version_text_of (children vn) with
      | [] => Ok None
      | vt =>
        match vc_of_str (text c) with
        | None => Panic 11%N
        | Some o =>
          match dv_parse vt with
          | Some v => Ok (Some (o, v))
          | None => Panic 12%N
          end
        end
      end
    end
  end.

(* impl From<Relation> for crate::lossy::Relation: name(), version(), archqual(), architectures(), profiles() *)
Definition to_lossy (r : rtree) : res (relation dversion) :=
  match RelAcc.relation_name r with
  | Ok n =>
    match conv_version r with
    | Ok v => Ok (mkRel n (RelAcc.relation_archqual r) (RelAcc.relation_architectures r) v
                        (map (map lprofile_of) (RelAcc.relation_profiles r)))
    | Err e => Err e | Panic p => Panic p | OutOfFuel => OutOfFuel
    end
  | Err e => Err e | Panic p => Panic p | OutOfFuel => OutOfFuel
  end.

(* impl From<Entry> for Vec<crate::lossy::Relation> *)
Definition entry_to_lossy (e : rtree) : res (list (relation dversion)) :=
  RelAcc.res_all to_lossy (RelAcc.entry_relations e).

(* relations.entries().map(Vec::<lossy::Relation>::from).collect() *)
Definition field_to_lossy (t : rtree) : res (list (list (relation dversion))) :=
  RelAcc.res_all entry_to_lossy (RelAcc.relations_entries t).

(* ------------------------------------------------------------------ the lossless reader on the lossy text *)
(* lossy::Relation::from(text.parse::<lossless::Relation>()?) and the Entry / Relations analogues *)
Definition read_as_lossy (s : str) : res (relation dversion) := bind (RelParse.relation_from_str s) to_lossy.
Definition read_entry_as_lossy (s : str) : res (list (relation dversion)) := bind (RelParse.entry_from_str s) entry_to_lossy.
Definition read_field_as_lossy (s : str) : res (list (list (relation dversion))) := bind (RelParse.relations_from_str s) field_to_lossy.

(* ------------------------------------------------------------------ helper *)
Definition nonempty_list {A} (l : list A) : bool := match l with [] => false | _ :: _ => true end.
