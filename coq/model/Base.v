(* Base definitions shared by every model: characters, strings, outcomes, rowan-like trees.
   No proofs in model/ files (so the model still runs when a proof breaks). *)
From Coq Require Export List NArith Bool Arith Lia.
Export ListNotations.

Notation char := N (only parsing).   (* a Unicode scalar value *)
Notation str := (list N).

(* Everything that can go wrong at run time is an explicit outcome. *)
Inductive res (A : Type) : Type :=
| Ok (a : A)
| Err (e : N)          (* an ordinary error value (Result::Err); [e] is a small class code *)
| Panic (site : N)     (* a modelled panic site *)
| OutOfFuel.           (* a modelled loop ran out of fuel: non-termination suspect *)
Arguments Ok {A} a.
Arguments Err {A} e.
Arguments Panic {A} site.
Arguments OutOfFuel {A}.

Definition bind {A B} (r : res A) (f : A -> res B) : res B :=
  match r with Ok a => f a | Err e => Err e | Panic s => Panic s | OutOfFuel => OutOfFuel end.
Definition rmap {A B} (f : A -> B) (r : res A) : res B := bind r (fun a => Ok (f a)).

Definition is_ok {A} (r : res A) : bool := match r with Ok _ => true | _ => false end.
Definition is_value_or_error {A} (r : res A) : bool :=
  match r with Ok _ | Err _ => true | _ => false end.

(* Number of bytes of the UTF-8 encoding of a scalar value. *)
Definition utf8_len (c : char) : N :=
  if (c <? 128)%N then 1%N else if (c <? 2048)%N then 2%N else if (c <? 65536)%N then 3%N else 4%N.
Definition utf8_size (s : str) : N := fold_right (fun c a => (utf8_len c + a)%N) 0%N s.

(* Rowan-like lossless trees, generic in the kind alphabet. *)
Inductive elem (K : Type) : Type :=
| Tok (k : K) (s : str)
| Node (k : K) (cs : list (elem K)).
Arguments Tok {K} k s.
Arguments Node {K} k cs.

Fixpoint text {K} (e : elem K) : str :=
  match e with
  | Tok _ s => s
  | Node _ cs => (fix texts (l : list (elem K)) : str :=
                    match l with [] => [] | x :: r => text x ++ texts r end) cs
  end.
Definition texts {K} (l : list (elem K)) : str := flat_map text l.

Definition ekind {K} (e : elem K) : K := match e with Tok k _ => k | Node k _ => k end.
Definition is_node {K} (e : elem K) : bool := match e with Node _ _ => true | _ => false end.
Definition children {K} (e : elem K) : list (elem K) :=
  match e with Node _ cs => cs | Tok _ _ => [] end.

Fixpoint depth {K} (e : elem K) : nat :=
  match e with
  | Tok _ _ => 0
  | Node _ cs => S ((fix go (l : list (elem K)) : nat :=
                       match l with [] => 0 | x :: r => Nat.max (depth x) (go r) end) cs)
  end.

(* span p s = (longest prefix satisfying p, rest) *)
Fixpoint span {A} (p : A -> bool) (s : list A) : list A * list A :=
  match s with
  | [] => ([], [])
  | c :: r => if p c then let '(a, b) := span p r in (c :: a, b) else ([], s)
  end.

Fixpoint list_eqb {A} (eqb : A -> A -> bool) (a b : list A) : bool :=
  match a, b with
  | [], [] => true
  | x :: a', y :: b' => eqb x y && list_eqb eqb a' b'
  | _, _ => false
  end.
Definition str_eqb : str -> str -> bool := list_eqb N.eqb.
