(* Executable models of the Rust std string / integer functions used by the typed-value codecs
   (C18).  Modelled externals: validated by the `codec` correspondence stream.  No proofs here. *)
From V.model Require Import Base.

(* char::is_whitespace = the Unicode White_Space property *)
Definition is_ws (c : char) : bool :=
  (((9 <=? c) && (c <=? 13)) || (c =? 32) || (c =? 133) || (c =? 160) || (c =? 5760) ||
   ((8192 <=? c) && (c <=? 8202)) || (c =? 8232) || (c =? 8233) || (c =? 8239) || (c =? 8287) ||
   (c =? 12288))%N.

Definition is_empty {A} (l : list A) : bool := match l with [] => true | _ => false end.

(* str::trim_start / trim_end / trim *)
Fixpoint trim_start (s : str) : str :=
  match s with
  | [] => []
  | c :: r => if is_ws c then trim_start r else s
  end.
Definition trim_end (s : str) : str := rev (trim_start (rev s)).
Definition trim (s : str) : str := trim_end (trim_start s).

(* str::split_whitespace, collected: the maximal runs of non-whitespace characters.
   [sw s] = (the run that starts at the head of s, the runs after it). *)
Definition push_tok (cur : str) (acc : list str) : list str :=
  match cur with [] => acc | _ => cur :: acc end.
Fixpoint sw (s : str) : str * list str :=
  match s with
  | [] => ([], [])
  | c :: r => let '(cur, acc) := sw r in
              if is_ws c then ([], push_tok cur acc) else (c :: cur, acc)
  end.
Definition split_ws (s : str) : list str := let '(cur, acc) := sw s in push_tok cur acc.

(* str::starts_with(&str) / strip_prefix(&str) *)
Fixpoint starts_with (p s : str) : bool :=
  match p, s with
  | [], _ => true
  | _ :: _, [] => false
  | a :: p', b :: s' => (a =? b)%N && starts_with p' s'
  end.
Fixpoint strip_prefix (p s : str) : option str :=
  match p, s with
  | [], _ => Some s
  | _ :: _, [] => None
  | a :: p', b :: s' => if (a =? b)%N then strip_prefix p' s' else None
  end.
(* str::strip_suffix(char) *)
Definition strip_suffix_char (d : char) (s : str) : option str :=
  match rev s with
  | c :: r => if (c =? d)%N then Some (rev r) else None
  | [] => None
  end.

(* str::find(&str) followed by split_at: (text before the first occurrence, text from it on) *)
Fixpoint find_sub (pat s : str) : option (str * str) :=
  if starts_with pat s then Some ([], s)
  else match s with
       | [] => None
       | c :: r => match find_sub pat r with
                   | Some (a, b) => Some (c :: a, b)
                   | None => None
                   end
       end.
Definition contains_sub (pat s : str) : bool :=
  match find_sub pat s with Some _ => true | None => false end.

(* str::split_once(&str): (before the first occurrence, after it) *)
Definition split_once_str (pat s : str) : option (str * str) :=
  match find_sub pat s with
  | Some (a, b) => Some (a, skipn (length pat) b)
  | None => None
  end.
(* str::split_once(char) *)
Fixpoint split_once (d : char) (s : str) : option (str * str) :=
  match s with
  | [] => None
  | c :: r => if (c =? d)%N then Some ([], r)
              else match split_once d r with
                   | Some (a, b) => Some (c :: a, b)
                   | None => None
                   end
  end.
Definition contains_char (d : char) (s : str) : bool := existsb (fun c => (c =? d)%N) s.

(* str::split(char), collected (always at least one piece) *)
Fixpoint split_char (d : char) (s : str) : list str :=
  match s with
  | [] => [[]]
  | c :: r => if (c =? d)%N then [] :: split_char d r
              else match split_char d r with
                   | p :: ps => (c :: p) :: ps
                   | [] => [[c]]          (* unreachable: split_char never returns [] *)
                   end
  end.

(* ---- usize (64-bit): <usize as FromStr>::from_str and Display.
   from_str: empty -> error; a lone "+" or "-" -> error; one leading "+" is accepted; "-" is an
   invalid digit for an unsigned type; ASCII digits only; overflow (checked_mul/checked_add at
   every digit) -> error. *)
Definition usize_limit : N := 18446744073709551616.   (* 2^64 *)
Definition is_digit (c : char) : bool := ((48 <=? c) && (c <=? 57))%N.

Fixpoint parse_digits (acc : N) (s : str) : res N :=
  match s with
  | [] => Ok acc
  | c :: r =>
    if is_digit c then
      let acc' := (acc * 10 + (c - 48))%N in
      if (acc' <? usize_limit)%N then parse_digits acc' r else Err 12
    else Err 11
  end.
Definition parse_usize (s : str) : res N :=
  match s with
  | [] => Err 10
  | c :: r =>
    if (c =? 43)%N then (match r with [] => Err 11 | _ => parse_digits 0 r end)
    else parse_digits 0 s
  end.

(* decimal digits of n, most significant first; fuel = number of binary digits of n, which
   bounds the number of decimal digits *)
Fixpoint to_digits (fuel : nat) (n : N) (acc : str) : str :=
  let acc' := (48 + n mod 10)%N :: acc in
  match fuel with
  | O => acc'
  | S f => if (n / 10 =? 0)%N then acc' else to_digits f (n / 10)%N acc'
  end.
Definition print_usize (n : N) : str := to_digits (N.to_nat (N.size n)) n [].

(* joining with a single space: write!(f, "{} {} {}", ..) *)
Fixpoint join_sp (l : list str) : str :=
  match l with
  | [] => []
  | [x] => x
  | x :: r => x ++ 32%N :: join_sp r
  end.
