(* Model of the lossless relations parser, /repo/debian-control/src/lossless/relations.rs
   (fn parse and its inner impl Parser), and of the FromStr entry points.
   The Parser struct is modelled as a state record; every start_node/finish_node pair of the
   source is balanced inside one function, so an open node is modelled by [in_node]: run the
   body with an empty output, then wrap what it emitted. *)
From V.model Require Import Base RelLex.

Notation rtree := (elem rkind).

Record pst := mk_pst {
  toks : list rtoken;      (* unprocessed tokens, next first (the Rust Vec is the reverse) *)
  out : list rtree;        (* children emitted so far into the innermost open node *)
  nerr : nat;              (* errors.len() *)
  flag : N                 (* 0 fine; 1 = a bump() on an empty token list (unwrap panic);
                              2 = a loop ran out of fuel *)
}.

Definition current (st : pst) : option rkind :=
  match toks st with [] => None | (k, _) :: _ => Some k end.
Definition cur_is (st : pst) (k : rkind) : bool :=
  match current st with Some k' => rkind_eqb k' k | None => false end.

Definition bump (st : pst) : pst :=
  match toks st with
  | [] => mk_pst [] (out st) (nerr st) (if (flag st =? 0)%N then 1%N else flag st)
  | (k, s) :: r => mk_pst r (out st ++ [Tok k s]) (nerr st) (flag st)
  end.

Definition in_node (k : rkind) (body : pst -> pst) (st : pst) : pst :=
  let st' := body (mk_pst (toks st) [] (nerr st) (flag st)) in
  mk_pst (toks st') (out st ++ [Node k (out st')]) (nerr st') (flag st').

Definition out_of_fuel (st : pst) : pst :=
  mk_pst (toks st) (out st) (nerr st) (if (flag st =? 0)%N then 2%N else flag st).

(* fn error: push an error, wrap (at most) one token into an ERROR node *)
Definition error (st : pst) : pst :=
  in_node ERROR (fun s => match current s with Some _ => bump s | None => s end)
          (mk_pst (toks st) (out st) (S (nerr st)) (flag st)).

Definition is_ws_kind (k : rkind) : bool :=
  match k with WHITESPACE | NEWLINE => true | _ => false end.

Fixpoint skip_ws_l (ts : list rtoken) : list rtree * list rtoken :=
  match ts with
  | (k, s) :: r => if is_ws_kind k then let '(e, r') := skip_ws_l r in (Tok k s :: e, r') else ([], ts)
  | [] => ([], [])
  end.
Definition skip_ws (st : pst) : pst :=
  let '(e, r) := skip_ws_l (toks st) in mk_pst r (out st ++ e) (nerr st) (flag st).

Fixpoint peek_past_ws_l (ts : list rtoken) : option rkind :=
  match ts with
  | [] => None
  | (k, _) :: r => if is_ws_kind k then peek_past_ws_l r else Some k
  end.
Definition peek_past_ws (st : pst) : option rkind := peek_past_ws_l (toks st).
Definition peek_is (st : pst) (k : rkind) : bool :=
  match peek_past_ws st with Some k' => rkind_eqb k' k | None => false end.

(* expect kind k: bump it, else error *)
Definition expect (k : rkind) (st : pst) : pst := if cur_is st k then bump st else error st.

(* ---- parse_substvar ---- *)
Fixpoint substvar_loop (fuel : nat) (st : pst) : pst :=
  match fuel with
  | O => out_of_fuel st
  | S f =>
    match current st with
    | Some IDENT | Some COLON => substvar_loop f (bump st)
    | Some R_CURLY | None => st
    | _ => substvar_loop f (error st)
    end
  end.

Definition loop_fuel (st : pst) : nat := S (length (toks st)).

Definition parse_substvar (st : pst) : pst :=
  in_node SUBSTVAR (fun st =>
    let st := bump st in
    let st := if cur_is st L_CURLY then bump st else error st in
    let st := substvar_loop (loop_fuel st) st in
    if cur_is st R_CURLY then bump st else error st) st.

(* ---- parse_relation ---- *)
Fixpoint bump_constraint (ts : list rtoken) : list rtree * list rtoken :=
  match ts with
  | (k, s) :: r =>
      match k with
      | L_ANGLE | R_ANGLE | EQUAL => let '(e, r') := bump_constraint r in (Tok k s :: e, r')
      | _ => ([], ts)
      end
  | [] => ([], [])
  end.
Definition constraint_node (st : pst) : pst :=
  in_node CONSTRAINT (fun st => let '(e, r) := bump_constraint (toks st) in
                                mk_pst r (out st ++ e) (nerr st) (flag st)) st.

Fixpoint arch_loop (fuel : nat) (st : pst) : pst :=
  match fuel with
  | O => out_of_fuel st
  | S f =>
    let st := skip_ws st in
    match current st with
    | Some NOT | Some IDENT => arch_loop f (bump st)
    | Some R_BRACKET => bump st
    | None => error st
    | _ => arch_loop f (error st)
    end
  end.

Fixpoint profile_loop (fuel : nat) (st : pst) : pst :=
  match fuel with
  | O => out_of_fuel st
  | S f =>
    let st := skip_ws st in
    match current st with
    | Some IDENT => profile_loop f (bump st)
    | Some NOT =>
        let st := skip_ws (bump st) in
        profile_loop f (expect IDENT st)
    | Some R_ANGLE => bump st
    | None => error st
    | _ => profile_loop f (error st)
    end
  end.

Fixpoint profiles_while (fuel : nat) (st : pst) : pst :=
  if peek_is st L_ANGLE then
    match fuel with
    | O => out_of_fuel st
    | S f =>
      let st := skip_ws st in
      let st := in_node PROFILES (fun st => let st := bump st in profile_loop (loop_fuel st) st) st in
      profiles_while f st
    end
  else st.

(* the version inside "( op version )": the whole run of IDENT and COLON tokens (at least one) --
   a version with an epoch is lexed IDENT COLON IDENT, its upstream part may contain further
   colons, and debversion also accepts empty colon-separated parts ("7:1::2", "5::", ":5").
   History in /repo: before 0eb8794 this was [expect IDENT st] ("a (>= 1:2.0)" rejected with three
   errors); 0eb8794 accepted one COLON IDENT; c2fa7c8 (COLON IDENT)*; 4b18f7c the plain run, as
   the lossy reader does.  43dd02f added the skip_ws between the version and ")". *)
Definition cur_is_vtok (st : pst) : bool := cur_is st IDENT || cur_is st COLON.
Fixpoint version_run (fuel : nat) (st : pst) : pst :=
  if cur_is_vtok st then
    match fuel with
    | O => out_of_fuel st
    | S f => version_run f (bump st)
    end
  else st.
Definition version_text (st : pst) : pst :=
  if cur_is_vtok st then version_run (loop_fuel st) st else error st.

Definition parse_relation (st : pst) : pst :=
  in_node RELATION (fun st =>
    let st := expect IDENT st in
    let st :=
      match peek_past_ws st with
      | Some COLON =>
          let st := skip_ws st in
          let st := in_node ARCHQUAL (fun st =>
                      let st := bump st in
                      let st := skip_ws st in
                      expect IDENT st) st in
          skip_ws st
      | Some PIPE | Some COMMA => st
      | None | Some L_PARENS | Some L_BRACKET | Some L_ANGLE => skip_ws st
      | _ => error (skip_ws st)
      end in
    let st :=
      if peek_is st L_PARENS then
        let st := skip_ws st in
        in_node VERSION (fun st =>
          let st := bump st in
          let st := skip_ws st in
          let st := constraint_node st in
          let st := skip_ws st in
          let st := version_text st in
          let st := skip_ws st in
          expect R_PARENS st) st
      else st in
    let st :=
      if peek_is st L_BRACKET then
        let st := skip_ws st in
        in_node ARCHITECTURES (fun st => let st := bump st in arch_loop (loop_fuel st) st) st
      else st in
    profiles_while (loop_fuel st) st) st.

(* ---- parse_entry ---- *)
Fixpoint entry_loop (fuel : nat) (st : pst) : pst :=
  match fuel with
  | O => out_of_fuel st
  | S f =>
    let st := parse_relation st in
    match peek_past_ws st with
    | Some COMMA => st
    | Some PIPE => entry_loop f (skip_ws (bump (skip_ws st)))
    | None => skip_ws st
    | _ =>
      let st := skip_ws st in
      (* start ERROR; tokens.pop(): Some => token + error, None => error *)
      let st := in_node ERROR (fun s => match current s with Some _ => bump s | None => s end)
                  (mk_pst (toks st) (out st) (S (nerr st)) (flag st)) in
      entry_loop f st
    end
  end.

Definition parse_entry (st : pst) : pst :=
  let st := skip_ws st in
  in_node ENTRY (fun st => entry_loop (S (S (length (toks st)))) st) st.

(* ---- parse ---- *)
Fixpoint root_loop (allow_substvar : bool) (fuel : nat) (st : pst) : pst :=
  match current st with
  | None => st
  | Some c =>
    match fuel with
    | O => out_of_fuel st
    | S f =>
      let st :=
        match c with
        | IDENT => parse_entry st
        | DOLLAR => if allow_substvar then parse_substvar st else error st
        | COMMA => st
        | _ => error st
        end in
      let st := skip_ws st in
      match current st with
      | Some COMMA => root_loop allow_substvar f (skip_ws (bump st))
      | None => st
      | _ => root_loop allow_substvar f (skip_ws (error st))
      end
    end
  end.

Definition parse_tokens (allow_substvar : bool) (ts : list rtoken) : res (rtree * nat) :=
  let st := in_node ROOT (fun st => let st := skip_ws st in
                                    root_loop allow_substvar (loop_fuel st) st)
                    (mk_pst ts [] 0 0%N) in
  if (flag st =? 0)%N then
    match out st with
    | [t] => Ok (t, nerr st)
    | _ => Panic 99%N
    end
  else if (flag st =? 1)%N then Panic 1%N else OutOfFuel.

Definition parse (s : str) (allow_substvar : bool) : res (rtree * nat) :=
  match rlex s with
  | Ok ts => parse_tokens allow_substvar ts
  | Err x => Err x | Panic x => Panic x | OutOfFuel => OutOfFuel
  end.

(* Relations::parse_relaxed *)
Definition parse_relaxed (s : str) (allow_substvar : bool) := parse s allow_substvar.

(* <Relations as FromStr>::from_str *)
Definition relations_from_str (s : str) : res rtree :=
  match parse s false with
  | Ok (t, n) => match n with O => Ok t | _ => Err 1%N end
  | Err x => Err x | Panic x => Panic x | OutOfFuel => OutOfFuel
  end.

Definition rnodes_of_kind (k : rkind) (t : rtree) : list rtree :=
  filter (fun e => is_node e && rkind_eqb (ekind e) k) (children t).
Definition r_entries (t : rtree) : list rtree := rnodes_of_kind ENTRY t.
Definition r_relations (e : rtree) : list rtree := rnodes_of_kind RELATION e.

(* <Entry as FromStr>::from_str : Err 2 = no entry, Err 3 = multiple entries *)
Definition entry_from_str (s : str) : res rtree :=
  match relations_from_str s with
  | Ok t => match r_entries t with
            | [] => Err 2%N
            | [e] => Ok e
            | _ => Err 3%N
            end
  | Err x => Err x | Panic x => Panic x | OutOfFuel => OutOfFuel
  end.

(* <Relation as FromStr>::from_str : Err 4 = no relation, Err 5 = multiple relations *)
Definition relation_from_str (s : str) : res rtree :=
  match entry_from_str s with
  | Ok e => match r_relations e with
            | [] => Err 4%N
            | [r] => Ok r
            | _ => Err 5%N
            end
  | Err x => Err x | Panic x => Panic x | OutOfFuel => OutOfFuel
  end.
