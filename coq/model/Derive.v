(* Model of the EXPANSION of the derive macros in /repo/deb822-derive/src/lib.rs
   (#[derive(FromDeb822)] / #[derive(ToDeb822)]), of the trait Deb822LikeParagraph of
   /repo/src/convert.rs with its two implementations, and of the codec functions the shipped
   structs name in serialize_with / deserialize_with.

   A struct is a list of field specs (generated from the Rust sources into gen/Structs_gen.v by
   translate/structs.py); from_paragraph / to_paragraph / update_paragraph are folds over that list
   that follow the quote! templates of the macro:

     optional field   #ident: para.get(K).map(|v| DE(&v).map_err(|e| format!("parsing field {}: {}", K, e))).transpose()?
     mandatory field  #ident: DE(&para.get(K).ok_or_else(|| format!("missing field: {}", K))?).map_err(|e| format!("parsing field {}: {}", K, e))?
     to_paragraph     fields.push((K.to_string(), SER(&v)))   (optional: only if Some)   ...   fields.into_iter().collect()
     update_paragraph para.set(K, SER(&v).as_str())           (optional: else para.remove(K))

   (struct literal fields are evaluated in declaration order and `?` returns at the first error.)
   The expansion has no loop and no panic site of its own, so its outcomes are a value or an error
   naming the field ([dres]); the paragraph operations are those of the back-end.
   No proofs in this file. *)
From Coq Require Import ZArith Decimal.
From V.model Require Import Base Deb822Lex Deb822Parse Grammar Lossy.

(* ------------------------------------------------------------------ std functions used by codecs *)
(* char::is_whitespace = Unicode White_Space *)
Definition is_ws (c : N) : bool :=
  ((9 <=? c) && (c <=? 13) || (c =? 32) || (c =? 133) || (c =? 160) || (c =? 5760) ||
   (8192 <=? c) && (c <=? 8202) || (c =? 8232) || (c =? 8233) || (c =? 8239) || (c =? 8287) || (c =? 12288))%N.

(* str::split_whitespace: maximal runs of non-whitespace characters *)
Fixpoint split_ws_go (s acc : str) : list str :=
  match s with
  | [] => match acc with [] => [] | _ => [acc] end
  | c :: r => if is_ws c then match acc with [] => split_ws_go r [] | _ => acc :: split_ws_go r [] end
              else split_ws_go r (acc ++ [c])
  end.
Definition split_ws (s : str) : list str := split_ws_go s [].

(* decimal digits <-> Decimal.uint (N.to_uint / N.of_uint are the standard library's conversions) *)
Fixpoint uint_chars (u : Decimal.uint) : str :=
  match u with
  | Nil => []
  | D0 r => 48%N :: uint_chars r | D1 r => 49%N :: uint_chars r | D2 r => 50%N :: uint_chars r
  | D3 r => 51%N :: uint_chars r | D4 r => 52%N :: uint_chars r | D5 r => 53%N :: uint_chars r
  | D6 r => 54%N :: uint_chars r | D7 r => 55%N :: uint_chars r | D8 r => 56%N :: uint_chars r
  | D9 r => 57%N :: uint_chars r
  end.
Definition digit_cons (c : N) (u : Decimal.uint) : option Decimal.uint :=
  if (c =? 48)%N then Some (D0 u) else if (c =? 49)%N then Some (D1 u) else if (c =? 50)%N then Some (D2 u)
  else if (c =? 51)%N then Some (D3 u) else if (c =? 52)%N then Some (D4 u) else if (c =? 53)%N then Some (D5 u)
  else if (c =? 54)%N then Some (D6 u) else if (c =? 55)%N then Some (D7 u) else if (c =? 56)%N then Some (D8 u)
  else if (c =? 57)%N then Some (D9 u) else None.
Fixpoint chars_uint (s : str) : option Decimal.uint :=
  match s with
  | [] => Some Nil
  | c :: r => match chars_uint r with Some u => digit_cons c u | None => None end
  end.

(* <uN as ToString>::to_string *)
Definition print_dec (n : N) : str := uint_chars (N.to_uint n).
(* <uN as FromStr>::from_str: one optional leading '+' (not alone), then one or more ASCII digits;
   overflow of the N-bit type is an error; '-' is an invalid digit for unsigned types *)
Definition parse_udec (bits : N) (s : str) : option N :=
  let digits := match s with 43%N :: (_ :: _) as r => r | _ => s end in
  match digits with
  | [] => None
  | _ => match chars_uint digits with
         | Some u => let n := N.of_uint u in if (n <? 2 ^ bits)%N then Some n else None
         | None => None
         end
  end.
(* <iN as ToString>::to_string / FromStr: optional '+' or '-' (not alone) *)
Definition print_int (z : Z) : str :=
  match Z.to_int z with
  | Decimal.Pos u => uint_chars u
  | Decimal.Neg u => 45%N :: uint_chars u
  end.
Definition parse_int (bits : N) (s : str) : option Z :=
  let '(neg, digits) := match s with
                        | 43%N :: (_ :: _) as r => (false, r)
                        | 45%N :: (_ :: _) as r => (true, r)
                        | _ => (false, s)
                        end in
  match digits with
  | [] => None
  | _ => match chars_uint digits with
         | Some u => let z := Z.of_int (if neg then Decimal.Neg u else Decimal.Pos u) in
                     let h := Z.of_N (2 ^ (bits - 1))%N in
                     if ((- h <=? z) && (z <? h))%Z then Some z else None
         | None => None
         end
  end.

Definition s_true : str := [116; 114; 117; 101]%N.
Definition s_false : str := [102; 97; 108; 115; 101]%N.
Definition s_yes : str := [121; 101; 115]%N.
Definition s_no : str := [110; 111]%N.
Definition s_ja : str := [106; 97]%N.
Definition s_nee : str := [110; 101; 101]%N.

(* ------------------------------------------------------------------ codec catalogue *)
(* serialisers (what `serialize_with` or ToString::to_string resolves to) *)
Inductive ser_id : Type :=
| SStr            (* <String as ToString>::to_string; also Path::display().to_string() on UTF-8 text *)
| SBool           (* <bool as ToString>: "true" / "false" *)
| SYesNo          (* if *b { "yes" } else { "no" } *)
| SJaNee          (* src/convert.rs tests: "ja" / "nee" *)
| SNum            (* unsigned integers *)
| SInt            (* signed integers *)
| SJoinWs         (* list.join(" ") *)
| SJoinNl         (* list.join("\n") *)
| SExt (id : N)   (* external: ToString / a named function of an assumed type, numbered by the translator *)
| SUnrecognised.  (* the translator could not identify the function: ok_struct fails *)
(* deserialisers *)
Inductive de_id : Type :=
| DStr | DBool | DYesNo
| DJa             (* Ok(s == "ja") *)
| DNum (bits : N) | DInt (bits : N)
| DSplitWs        (* split_whitespace *)
| DSplitNl        (* split('\n') *)
| DSplitNlE       (* if text.is_empty() { vec![] } else { split('\n') } *)
| DLines          (* lines() *)
| DExt (id : N)
| DUnrecognised.

Record fieldspec : Type := mk_fspec {
  f_key : str;        (* `field = "..."` or the identifier *)
  f_opt : bool;       (* the macro's syntactic is_option test *)
  f_ser : ser_id;
  f_de : de_id }.
Record structspec : Type := mk_sspec {
  s_id : str;
  s_from : bool;      (* derives FromDeb822 *)
  s_to : bool;        (* derives ToDeb822 *)
  s_eq : bool;        (* derives PartialEq (the harness can compare values; otherwise it compares what they print to) *)
  s_fields : list fieldspec }.

(* errors of from_paragraph: the message names the field *)
Inductive derr : Type := Missing (k : str) | Parsing (k : str).
Inductive dres (A : Type) : Type := DOk (a : A) | DErr (e : derr).
Arguments DOk {A} a.
Arguments DErr {A} e.
(* format!("missing field: {}", K)  —  the whole message *)
Definition msg_missing (k : str) : str := [109; 105; 115; 115; 105; 110; 103; 32; 102; 105; 101; 108; 100; 58; 32]%N ++ k.
(* format!("parsing field {}: {}", K, e)  —  the message up to the codec's own error text *)
Definition msg_parsing_prefix (k : str) : str := [112; 97; 114; 115; 105; 110; 103; 32; 102; 105; 101; 108; 100; 32]%N ++ k ++ [58; 32]%N.
Definition derr_key (e : derr) : str := match e with Missing k | Parsing k => k end.
Definition derr_prefix (e : derr) : str := match e with Missing k => msg_missing k | Parsing k => msg_parsing_prefix k end.

(* ------------------------------------------------------------------ the paragraph interface *)
(* trait Deb822LikeParagraph: FromIterator<(String, String)> + get / set / remove; [pl_items]
   (lossy: iter(), lossless: items()) and [pl_layout] (the pieces whose concatenation is the printed
   paragraph, each labelled with the field name it belongs to, if any) are observers used by the
   statements and the streams only. *)
Record ParaLike : Type := mk_para_like {
  pl_T : Type;
  pl_get : pl_T -> str -> option str;
  pl_set : pl_T -> str -> str -> pl_T;
  pl_remove : pl_T -> str -> pl_T;
  pl_of_list : list (str * str) -> pl_T;
  pl_items : pl_T -> list (str * str);
  pl_layout : pl_T -> list (option str * str) }.
Definition pl_text (PL : ParaLike) (p : pl_T PL) : str := flat_map snd (pl_layout PL p).

(* list-level effect of set / remove on a layout: replace the first piece labelled k (or append),
   delete every piece labelled k *)
Definition lab_is (k : str) (x : option str * str) : bool := opt_str_eqb (fst x) k.
Fixpoint lay_set_existing (l : list (option str * str)) (k : str) (t : str) : option (list (option str * str)) :=
  match l with
  | [] => None
  | x :: r => if lab_is k x then Some ((Some k, t) :: r)
              else match lay_set_existing r k t with Some r' => Some (x :: r') | None => None end
  end.
Definition lay_remove (l : list (option str * str)) (k : str) : list (option str * str) :=
  filter (fun x => negb (lab_is k x)) l.

Section Ext.
(* External codecs (url::Url, chrono::NaiveDate, debversion::Version, lossy Relations, the enum and
   composite field types of the workspace crates, …): an arbitrary value type with a printer and a
   parser per numbered codec.  Their laws are hypotheses of the theorems (proofs/DeriveP.v); the
   runner instantiates them from a per-case table that the `derive` stream validates against the
   real functions. *)
Variable E : Type.
Variable ext_print : N -> E -> str.
Variable ext_parse : N -> str -> option E.

(* the universal value type of struct fields *)
Inductive uval : Type :=
| VStr (s : str) | VBool (b : bool) | VNum (n : N) | VInt (z : Z) | VList (l : list str) | VExt (e : E).

(* None = the value is not of the serialiser's argument type (no Rust counterpart: such a struct
   does not compile), or the serialiser is unrecognised *)
Definition ser (c : ser_id) (v : uval) : option str :=
  match c, v with
  | SStr, VStr s => Some s
  | SBool, VBool b => Some (if b then s_true else s_false)
  | SYesNo, VBool b => Some (if b then s_yes else s_no)
  | SJaNee, VBool b => Some (if b then s_ja else s_nee)
  | SNum, VNum n => Some (print_dec n)
  | SInt, VInt z => Some (print_int z)
  | SJoinWs, VList l => Some (join [32%N] l)
  | SJoinNl, VList l => Some (join [10%N] l)
  | SExt i, VExt e => Some (ext_print i e)
  | _, _ => None
  end.

(* None = Err(_) of the deserialiser *)
Definition de (c : de_id) (s : str) : option uval :=
  match c with
  | DStr => Some (VStr s)
  | DBool => if str_eqb s s_true then Some (VBool true) else if str_eqb s s_false then Some (VBool false) else None
  | DYesNo => if str_eqb s s_yes then Some (VBool true) else if str_eqb s s_no then Some (VBool false) else None
  | DJa => Some (VBool (str_eqb s s_ja))
  | DNum bits => match parse_udec bits s with Some n => Some (VNum n) | None => None end
  | DInt bits => match parse_int bits s with Some z => Some (VInt z) | None => None end
  | DSplitWs => Some (VList (split_ws s))
  | DSplitNl => Some (VList (split_lf s))
  | DSplitNlE => Some (VList (match s with [] => [] | _ => split_lf s end))
  | DLines => Some (VList (lines s))
  | DExt i => match ext_parse i s with Some e => Some (VExt e) | None => None end
  | DUnrecognised => None
  end.

(* a struct value: one entry per field, None = an absent optional field *)
Notation sval := (list (option uval)).

(* one field initialiser of the generated struct literal *)
Definition from_field (get : str -> option str) (f : fieldspec) : dres (option uval) :=
  match get (f_key f) with
  | None => if f_opt f then DOk None else DErr (Missing (f_key f))
  | Some s => match de (f_de f) s with
              | Some v => DOk (Some v)
              | None => DErr (Parsing (f_key f))
              end
  end.
Fixpoint from_fields (get : str -> option str) (fs : list fieldspec) : dres sval :=
  match fs with
  | [] => DOk []
  | f :: r =>
    match from_field get f with
    | DErr e => DErr e
    | DOk x => match from_fields get r with DOk xs => DOk (x :: xs) | DErr e => DErr e end
    end
  end.

(* the Vec<(String, String)> built by to_paragraph; None = ill-typed value (see [ser]), a mandatory
   field without value, or a value list of the wrong length *)
Fixpoint to_items (fs : list fieldspec) (v : sval) : option (list (str * str)) :=
  match fs, v with
  | [], [] => Some []
  | f :: r, x :: xs =>
    match x with
    | None => if f_opt f then to_items r xs else None
    | Some u => match ser (f_ser f) u, to_items r xs with
                | Some s, Some l => Some ((f_key f, s) :: l)
                | _, _ => None
                end
    end
  | _, _ => None
  end.

Section Generic.
Variable PL : ParaLike.
Notation P := (pl_T PL).

Definition from_paragraph (fs : list fieldspec) (p : P) : dres sval := from_fields (pl_get PL p) fs.
Definition to_paragraph (fs : list fieldspec) (v : sval) : option P :=
  match to_items fs v with Some l => Some (pl_of_list PL l) | None => None end.
Fixpoint update_paragraph (fs : list fieldspec) (v : sval) (p : P) : option P :=
  match fs, v with
  | [], [] => Some p
  | f :: r, x :: xs =>
    match x with
    | None => if f_opt f then update_paragraph r xs (pl_remove PL p (f_key f)) else None
    | Some u => match ser (f_ser f) u with
                | Some s => update_paragraph r xs (pl_set PL p (f_key f) s)
                | None => None
                end
    end
  | _, _ => None
  end.
End Generic.
End Ext.

Arguments VStr {E} s.
Arguments VBool {E} b.
Arguments VNum {E} n.
Arguments VInt {E} z.
Arguments VList {E} l.
Arguments VExt {E} e.

(* ------------------------------------------------------------------ back-end 1: lossy::Paragraph *)
(* impl Deb822LikeParagraph for lossy::Paragraph delegates to Paragraph::{get,set,remove}
   (model: Lossy.l_get / l_set / l_remove); FromIterator maps the pairs to Fields; Display prints
   field by field. *)
Definition lossy_para_like : ParaLike :=
  mk_para_like (list (str * str)) l_get l_set l_remove (fun l => l) (fun p => p)
               (fun p => map (fun f => (Some (fst f), print_field f)) p).

(* ------------------------------------------------------------------ back-end 2: lossless::Paragraph *)
(* A lossless::Paragraph is a handle on a PARAGRAPH node; the model keeps the node's children
   ([ll_para]); the node itself is [ll_node cs]. *)
Notation ll_para := (list tree).
Definition ll_node (cs : ll_para) : tree := Node PARAGRAPH cs.

(* Entry::new(key, value) — the same token sequence is emitted by FromIterator<(String,String)> *)
Fixpoint value_lines (first : bool) (ls : list str) : list tree :=
  match ls with
  | [] => []
  | l :: r => (if first then [] else [Tok INDENT [32%N]]) ++ Tok VALUE l :: Tok NEWLINE [10%N] :: value_lines false r
  end.
Definition new_entry (k v : str) : tree :=
  Node ENTRY (Tok KEY k :: Tok COLON [58%N] :: Tok WHITESPACE [32%N] :: value_lines true (split_lf v)).
Definition ll_of_list (l : list (str * str)) : ll_para :=
  map (fun kv => new_entry (fst kv) (snd kv)) l.

Definition is_entry_with_key (k : str) (c : tree) : bool :=
  is_node c && is_kind ENTRY c && opt_str_eqb (entry_key c) k.

(* fn ensure_trailing_newline(node): if node.last_token() (which descends into the LAST child only,
   without backtracking) exists and is not a NEWLINE, a NEWLINE token is spliced in right after it,
   inside that token's parent *)
Fixpoint ensure_nl (e : tree) : tree :=
  match e with
  | Tok _ _ => e
  | Node k cs =>
    Node k ((fix go (l : list tree) : list tree :=
               match l with
               | [] => []
               | x :: r => match r with
                           | [] => match x with
                                   | Tok k' _ => if kind_eqb k' NEWLINE then [x] else [x; Tok NEWLINE [10%N]]
                                   | Node _ _ => [ensure_nl x]
                                   end
                           | _ :: _ => x :: go r
                           end
               end) cs)
  end.
Definition ensure_nl_children (cs : ll_para) : ll_para := children (ensure_nl (ll_node cs)).

(* which variant of Paragraph::set / remove the source has (read by the translator) *)
Inductive ll_set_kind : Type :=
| LlSetPlain          (* append at the end of the children (before 7a915a7) *)
| LlSetEnsureNl       (* ensure_trailing_newline first *)
| LlSetUnrecognised.
Inductive ll_remove_kind : Type :=
| LlRemoveFirst       (* `for mut entry in self.entries() { if … { entry.detach() } }`: rowan computes the next
                         sibling from the node yielded last, so the loop ends after the first detach (before 392c6dc) *)
| LlRemoveAll         (* collect the matching entries, then detach each *)
| LlRemoveUnrecognised.

Fixpoint replace_first_entry (cs : ll_para) (k : str) (e : tree) : option ll_para :=
  match cs with
  | [] => None
  | c :: r => if is_entry_with_key k c then Some (e :: r)
              else match replace_first_entry r k e with Some r' => Some (c :: r') | None => None end
  end.
(* Paragraph::set: splice_children(i..i+1, [new]) at the first entry of that key, else append *)
Definition ll_set (sk : ll_set_kind) (cs : ll_para) (k v : str) : ll_para :=
  match replace_first_entry cs k (new_entry k v) with
  | Some cs' => cs'
  | None =>
    match sk with
    | LlSetEnsureNl => ensure_nl_children cs ++ [new_entry k v]
    | _ => cs ++ [new_entry k v]
    end
  end.
Fixpoint remove_first_entry (cs : ll_para) (k : str) : ll_para :=
  match cs with
  | [] => []
  | c :: r => if is_entry_with_key k c then r else c :: remove_first_entry r k
  end.
Definition ll_remove (rk : ll_remove_kind) (cs : ll_para) (k : str) : ll_para :=
  match rk with
  | LlRemoveFirst => remove_first_entry cs k
  | _ => filter (fun c => negb (is_entry_with_key k c)) cs
  end.
Definition ll_get (cs : ll_para) (k : str) : option str := get (ll_node cs) k.
Definition ll_items (cs : ll_para) : list (str * str) := items (ll_node cs).
(* the printed paragraph is the concatenation of its children's text; an ENTRY child is labelled
   with its key *)
Definition ll_layout (cs : ll_para) : list (option str * str) :=
  map (fun c => (if is_node c && is_kind ENTRY c then entry_key c else None, text c)) cs.

Definition lossless_para_like (sk : ll_set_kind) (rk : ll_remove_kind) : ParaLike :=
  mk_para_like ll_para ll_get (ll_set sk) (ll_remove rk) ll_of_list ll_items ll_layout.

(* ------------------------------------------------------------------ side conditions on a struct table *)
(* which (serialiser, deserialiser) pairs invert each other (on the value domain [val_dom] of
   proofs/DeriveP.v); external codecs pair with themselves — that is the assumed law *)
Definition rt_pair (s : ser_id) (d : de_id) : bool :=
  match s, d with
  | SStr, DStr | SBool, DBool | SYesNo, DYesNo | SJaNee, DJa
  | SJoinWs, DSplitWs | SJoinNl, DSplitWs | SJoinNl, DSplitNl | SJoinNl, DSplitNlE | SJoinNl, DLines => true
  | SNum, DNum _ | SInt, DInt _ => true
  | SExt i, DExt j => (i =? j)%N
  | _, _ => false
  end.
Definition ser_recognised (s : ser_id) : bool := match s with SUnrecognised => false | _ => true end.
Definition de_recognised (d : de_id) : bool := match d with DUnrecognised => false | _ => true end.

Fixpoint nodup_keys (ks : list str) : bool :=
  match ks with
  | [] => true
  | k :: r => negb (existsb (str_eqb k) r) && nodup_keys r
  end.
Definition ok_field (from to : bool) (f : fieldspec) : bool :=
  (negb to || ser_recognised (f_ser f)) && (negb from || de_recognised (f_de f)) &&
  (negb (from && to) || rt_pair (f_ser f) (f_de f)).
Definition ok_struct (s : structspec) : bool :=
  nodup_keys (map f_key (s_fields s)) && forallb (ok_field (s_from s) (s_to s)) (s_fields s).
Definition ll_variants_ok (sk : ll_set_kind) (rk : ll_remove_kind) : bool :=
  match sk, rk with
  | (LlSetPlain | LlSetEnsureNl), LlRemoveAll => true
  | _, _ => false
  end.

(* ------------------------------------------------------------------ runner instance of the external codecs *)
(* E := str (the printed form), print = identity, parse = lookup in the case's table of
   (codec, text, Some canonical text | None) *)
Definition ext_table := list (N * str * option str).
Fixpoint table_parse (t : ext_table) (i : N) (s : str) : option str :=
  match t with
  | [] => None
  | (j, x, r) :: rest => if (i =? j)%N && str_eqb x s then r else table_parse rest i s
  end.
Definition table_print (i : N) (e : str) : str := e.

(* value equality for the runner's instance (derive(PartialEq) of the structs) *)
Definition uval_eqb (a b : uval str) : bool :=
  match a, b with
  | VStr x, VStr y => str_eqb x y
  | VBool x, VBool y => Bool.eqb x y
  | VNum x, VNum y => (x =? y)%N
  | VInt x, VInt y => (x =? y)%Z
  | VList x, VList y => list_eqb str_eqb x y
  | VExt x, VExt y => str_eqb x y
  | _, _ => false
  end.
Definition sval_eqb (a b : list (option (uval str))) : bool :=
  list_eqb (fun x y => match x, y with
                       | None, None => true
                       | Some u, Some w => uval_eqb u w
                       | _, _ => false
                       end) a b.

(* ------------------------------------------------------------------ entry points of the runner *)
(* the generic functions at the two back-ends, with the table instance of the external codecs;
   the explicit argument types keep the extracted OCaml signatures first-order *)
Notation xval := (list (option (uval str))).
Definition x_from_lossy (t : ext_table) (fs : list fieldspec) (p : list (str * str)) : dres xval :=
  from_paragraph str (table_parse t) lossy_para_like fs p.
Definition x_from_ll (t : ext_table) (sk : ll_set_kind) (rk : ll_remove_kind) (fs : list fieldspec) (p : ll_para) : dres xval :=
  from_paragraph str (table_parse t) (lossless_para_like sk rk) fs p.
Definition x_to_lossy (fs : list fieldspec) (v : xval) : option (list (str * str)) :=
  to_paragraph str table_print lossy_para_like fs v.
Definition x_to_ll (sk : ll_set_kind) (rk : ll_remove_kind) (fs : list fieldspec) (v : xval) : option ll_para :=
  to_paragraph str table_print (lossless_para_like sk rk) fs v.
Definition x_update_lossy (fs : list fieldspec) (v : xval) (p : list (str * str)) : option (list (str * str)) :=
  update_paragraph str table_print lossy_para_like fs v p.
Definition x_update_ll (sk : ll_set_kind) (rk : ll_remove_kind) (fs : list fieldspec) (v : xval) (p : ll_para) : option ll_para :=
  update_paragraph str table_print (lossless_para_like sk rk) fs v p.
