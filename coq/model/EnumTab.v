(* Keyword-table enumerations (C18): the data type of the tables that translate/enums.py
   regenerates from the Rust sources into gen/Enums_gen.v, and their executable reading.

   A Rust enum `T` with unit variants only, a `Display`/`ToString` impl that writes one literal
   per variant, and a `FromStr` impl of the shape

       match <s | s.to_lowercase().as_str()> { "lit" => Ok(T::V), ..., _ => <default> }

   is described by an [enum_tab].  A value of the enum is the index of its variant in
   [et_variants] (declaration order).  No proofs in this file. *)
From V.model Require Import Base CodecStr.

Inductive pre_kind : Type :=
| PreNone            (* match s { .. } *)
| PreLower           (* match s.to_lowercase().as_str() { .. } *)
| PreUnrecognised.   (* anything else: the translator did not understand the scrutinee *)

Inductive default_kind : Type :=
| DefErr             (* _ => Err(..) *)
| DefValue (v : N)   (* _ => Ok(T::V): an unknown keyword is mapped to a default *)
| DefUnrecognised.

Record enum_tab : Type := {
  et_name : str;
  et_variants : list str;          (* variant names, declaration order *)
  et_display : list (N * str);     (* Display arms in source order: variant index, literal *)
  et_pre : pre_kind;
  et_fromstr : list (str * N);     (* FromStr literal arms in source order: literal, variant index *)
  et_default : default_kind;
  et_recognised : bool             (* false: some function body did not match a known template *)
}.

(* dep3 parse_origin / format_origin: the category keyword arms of parse_origin and the
   separators used by the reader (`splitn(2, sep)`) and by the printer (`to_string() + sep`). *)
Record origin_tab : Type := {
  ot_arms : list (str * N);        (* Some("lit") => (Some(OriginCategory::V), rest) *)
  ot_sep_parse : str;
  ot_sep_print : str;
  ot_recognised : bool
}.

(* ---- str::to_lowercase.
   Exact on ASCII and on the only two non-ASCII scalar values whose lowercase mapping contains an
   ASCII character (U+0130 -> "i" U+0307, U+212A KELVIN SIGN -> "k").  Every other non-ASCII
   character is left as it is: its real mapping consists of non-ASCII characters only, and the
   result is only ever compared with ASCII literals (enum_ok checks that), so the comparison has
   the same outcome.  Modelled external, validated by the codec stream. *)
Definition lower_char (c : char) : str :=
  if ((65 <=? c) && (c <=? 90))%N then [(c + 32)%N]
  else if (c =? 304)%N then [105%N; 775%N]
  else if (c =? 8490)%N then [107%N]
  else [c].
Definition to_lowercase (s : str) : str := flat_map lower_char s.

Definition is_ascii_str (s : str) : bool := forallb (fun c => (c <? 128)%N) s.

Fixpoint assoc_n (k : N) (l : list (N * str)) : option str :=
  match l with
  | [] => None
  | (k', v) :: r => if (k =? k')%N then Some v else assoc_n k r
  end.

Fixpoint assoc_s (k : str) (l : list (str * N)) : option N :=
  match l with
  | [] => None
  | (k', v) :: r => if str_eqb k k' then Some v else assoc_s k r
  end.

Definition enum_size (t : enum_tab) : N := N.of_nat (length (et_variants t)).
Definition enum_values (t : enum_tab) : list N := map N.of_nat (seq 0 (length (et_variants t))).

(* panic sites 1800.. mark "the translator could not read this function": the model then never
   agrees with the implementation and enum_ok is false. *)
Definition enum_pre (t : enum_tab) (s : str) : res str :=
  match et_pre t with
  | PreNone => Ok s
  | PreLower => Ok (to_lowercase s)
  | PreUnrecognised => Panic 1800
  end.

(* <T as Display>::fmt / to_string *)
Definition enum_print (t : enum_tab) (v : N) : res str :=
  match assoc_n v (et_display t) with
  | Some k => Ok k
  | None => Panic 1801
  end.

(* <T as FromStr>::from_str *)
Definition enum_parse (t : enum_tab) (s : str) : res N :=
  bind (enum_pre t s) (fun s' =>
    match assoc_s s' (et_fromstr t) with
    | Some v => Ok v
    | None =>
      match et_default t with
      | DefErr => Err 1
      | DefValue v => Ok v
      | DefUnrecognised => Panic 1802
      end
    end).

(* The decidable side condition under which the C18 theorems hold for a table. *)
Definition res_str_is (r : res str) (s : str) : bool :=
  match r with Ok k => str_eqb k s | _ => false end.

Definition enum_ok (t : enum_tab) : bool :=
  et_recognised t &&
  match et_pre t with PreUnrecognised => false | _ => true end &&
  match et_default t with DefErr => true | _ => false end &&
  (* every value prints, and its text reads back as the same value *)
  forallb (fun v => match enum_print t v with
                    | Ok k => match enum_parse t k with Ok v' => (v =? v')%N | _ => false end
                    | _ => false
                    end) (enum_values t) &&
  (* every literal the reader accepts is the printed form of the value it yields *)
  forallb (fun lv => match assoc_s (fst lv) (et_fromstr t) with
                     | Some v => (v <? enum_size t)%N && res_str_is (enum_print t v) (fst lv)
                     | None => false
                     end) (et_fromstr t) &&
  (* to_lowercase is only modelled exactly with respect to ASCII literals *)
  match et_pre t with
  | PreLower => forallb (fun lv => is_ascii_str (fst lv)) (et_fromstr t)
  | _ => true
  end.

(* every keyword is one whitespace-free, non-empty token: needed where the enumeration is a
   column of a whitespace-separated record (PackageListEntry, changes::File) *)
Definition enum_tokens_ok (t : enum_tab) : bool :=
  forallb (fun v => match enum_print t v with
                    | Ok k => negb (is_empty k) && forallb (fun c => negb (is_ws c)) k
                    | _ => false
                    end) (enum_values t).

(* parse_origin's own keyword arms agree with OriginCategory's Display table, the two separators
   are the same non-empty string, and in "keyword<sep>" the first separator is the appended one. *)
Definition origin_ok (cat : enum_tab) (o : origin_tab) : bool :=
  ot_recognised o &&
  str_eqb (ot_sep_parse o) (ot_sep_print o) &&
  negb (is_empty (ot_sep_parse o)) &&
  forallb (fun v => match enum_print cat v with
                    | Ok k => match assoc_s k (ot_arms o) with Some v' => (v =? v')%N | None => false end
                              && (match find_sub (ot_sep_parse o) (k ++ ot_sep_parse o) with
                                  | Some (a, _) => str_eqb a k      (* the first separator in "kw<sep>" is the appended one *)
                                  | None => false
                                  end)
                    | _ => false
                    end) (enum_values cat) &&
  forallb (fun lv => match assoc_s (fst lv) (ot_arms o) with
                     | Some v => (v <? enum_size cat)%N && res_str_is (enum_print cat v) (fst lv)
                     | None => false
                     end) (ot_arms o).
